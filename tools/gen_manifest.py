#!/venv/bin/python
"""Regenerate /verif/MANIFEST.json from the table below (one place to edit)."""
import json
import os

VERIF = os.path.dirname(os.path.dirname(os.path.abspath(__file__)))
PY = "/venv/bin/python"

# property -> (technique, level text, level note, design ref)
CLAIMED = {
 "C01": ("custom AST/CFG/def-use checker: who-may-write, pairing, boxed-store and order-idiom audit of every coords/payloads mutation",
         "Rule conformance over every enumerated write site of Fiber.coords/Fiber.payloads: an inductive-invariant case split re-derived from the current source; each case discharged by an accepted idiom. Decides the structural clauses (pairing, boxing, sorted insertion / monotone append / guarded replace / re-sort, reject-before-write) for all inputs at once; a caller that inserts at a carried relative-bisect position must take the position back when it deletes; does not decide leaf-depth uniformity or partition order inside splitters.",
         "Trusts: Python semantics of list operations and bisect; asserts execute (no python -O); updateCoords callbacks injective; typing tables of sa/types.py (validated against the source on every run).",
         "DESIGN.md section 3, C01"),
 "C02": ("custom ownership/registration checker: who-may-write Rank.fibers, registration<->insertion flow (CFG reachability), removal<->deregistration pairing, setOwner site classification, rebuild completeness",
         "Rule conformance over every enumerated write of Rank.fibers, every caller of Rank.append/pop/clearFibers, every _createDefault/_instantiateDefault call site, every payload-dropping write in the mutators C02 quantifies over, and every setOwner call site. Decides that each edge creation on an owned fiber is matched by a registration (and vice versa) on every CFG path; a sub-fiber dropped with a single pop() is known childless (len == 0) on every disjunct of the drop condition; does not decide that pop() removes the right fiber at run time (asserted in the code).",
         "Trusts: statement-level CFG (exceptions only from raise/assert/try bodies); structural guards; the frozen caller tables in sa/rules/c02.py; correlated branches on never-assigned flags take the same direction.",
         "DESIGN.md section 3, C02"),
 "C10": ("interprocedural write-effect, alias and holds analysis (summaries to a fix-point over the resolved call graph, lazy-iterator edges, flag constant propagation)",
         "Effect/escape analysis: for each of ~90 observers the transitive tree/rank write effect on parameter-rooted objects must be empty; for each of 30 value-returning operations every write must hit fresh/deep-copied objects, the result must be fresh and hold nothing rooted at an operand; copy hooks and default hand-out checked structurally; elements of getter results that alias stored objects (rank-id lists) are not edited in place without a deep copy. Sound for all inputs up to the stated typing over-approximation (unresolved receivers are reported as ANALYSIS-ERROR when they decide a verdict).",
         "Trusts: receiver typing tables (validated each run), opaque user callbacks excluded, pickle round trip is a deep copy, flow-insensitive field abstraction ('sub' roots tagged by first-level field).",
         "DESIGN.md section 3, C10"),
 "C03": ("effect summaries (reads are effect-free), alias summaries (reference is an element of the payload list), CFG exit analysis (in-place operators return self)",
         "Structural clauses of point access: read accessors have an empty tree/rank write effect transitively; getPayloadRef/_create_payload return the stored element, never a copy or an un-inserted default; tensor wrappers delegate unchanged and return the rank-0 box itself; every __i*__ method returns self on every normal path; presence of a coordinate in getPayload/getPayloadRef is decided from the coordinate search alone (def-use + control dependence never reach the payload list); every path of Fiber.__ilshift__ to a return passes the clear step and the copy loop. Does not decide last-write-wins over histories, prefix reads or start_pos equivalence (runtime values).",
         "Trusts: the effect engine's typing tables; Fiber._saved_* statistics are not tree state.",
         "DESIGN.md section 3, C03"),
 "C11": ("operator-slot conformance tables checked by def-use over the AST; dunder-name exhaustiveness; sibling cross-check Payload vs CoordPayload; Fiber arithmetic forms matched to their co-iteration",
         "For each of ~40 operator slots of Payload and CoordPayload the computed expression, operand order, both operand kinds, result kind and (for in-place forms) the store into the same box are checked against the canonical table; dead (Python 2) slots and missing reflected/in-place siblings are reported; Fiber +,*,+=,*= forms must iterate the union / intersection / shape / stored elements their definition names. Decides all inputs for boxes and elements; fiber-level numeric results are not decided.",
         "Trusts: Python's operator dispatch rules; int/float arithmetic of the boxed values.",
         "DESIGN.md section 3, C11"),
 "C04": ("schema-instance recogniser: each merge loop is matched against the proven two-finger schema with the operator's truth table (branches, advance sets, emission table, emitted slots/mask, tails) + effect summary for operand purity",
         "The two-finger schema M(op) is proven correct on paper (loop invariant in sa/rules/c04.py); the check decides, from the current source, that each of &, |, ^, - is an instance of M(op): three-way split on the two heads, per-branch advance discipline (incl. the arity-dependent succ_next table), emission exactly where the truth table says, present side's own payload / fresh unregistered default of the absent side / correct mask, tails draining the right side, operands not written; the ANY-padded projection of the shorter-arity operand has, symbolically, exactly the longer operand's arity and is reached only when both heads are present (an empty operand yields nothing instead of being re-projected). Rules read the operator bodies after inline expansion of private helpers and case-wise (a tail loop merged into the main loop is read under 'other side exhausted / present'). Holds for all operand pairs. Not decided: tuple un-nesting of n-ary forms, leader-follower lookups.",
         "Trusts: operand streams strictly increasing (C01 + asserted precondition); default iteration delivers non-empty elements (C12.R1).",
         "DESIGN.md section 3, C04"),
 "C05": ("syntax-directed path check of the populate generator (one yield per iteration, def-use of the offered reference, removal pairing, counter bookkeeping) + effect summary for source purity",
         "Structural clauses of z << a: the loop iterates the source's default iteration and yields exactly once per element the source's own coordinate with (reference into z, source payload); the reference is the payload found by getPayload(allocate=False) or inserted by _create_payload before the yield; the only other destination writes are the paired deletions at bisect_left of the same coordinate under a removal condition that, in disjunctive normal form, is exactly {still-empty sub-fiber} or {leaf equal to the default, with no further condition}, with rank pop and counter bookkeeping; the source is never written; active ranges / rank id follow the definition. Not decided: final content for arbitrary loop bodies, nested composition.",
         "Trusts: C01/C02 idioms (cross-checked there); the run-time assert on the popped fiber.",
         "DESIGN.md section 3, C05"),
 "C07": ("delegation-table check over resolved calls, effect summaries (non-Ref traversals are insert-free), dispatch-table lifting, path-predicate normalisation of the yield in iterRange, fromIterator argument classification",
         "Structural clauses: the 18 traversal wrappers delegate with exactly the range arguments their definition names; non-Ref traversals have no tree/rank write effect and Ref traversals fetch each visited coordinate with getPayloadRef; format dispatch table {C,U}; iterRange's yield is guarded by coord >= start, coord < end and non-emptiness w.r.t. the fiber's default and stops at coord >= end, and the bounds tested are the caller's (start/end never rebound); dense traversals iterate range(start,end,step); every lazy fiber is built from an iterator class re-instantiated per traversal. Not decided: project/prune, interval arithmetic, saved-position equivalence, eager/lazy materialisation equality.",
         "Trusts: effect-engine typing tables; comparison normalisation in sa/pat.py.",
         "DESIGN.md section 3, C07"),
 "C12": ("one-predicate audit of every emptiness decision, recursion-shape checks, producer/consumer agreement of union mask literals, CFG exit classification of __eq__, effect summaries",
         "Structural clauses: every emptiness decision is Payload.isEmpty(p, default=<holder>.getDefault()); countValues/isEmpty/nonEmpty have the stated recursion shape over the raw payload list; mask literals produced by | are exactly those consumers test; Fiber.__eq__ co-iterates the union, rejects each one-sided mask and each unequal pair and accepts only after the loop; Tensor.__eq__ = ids equal and roots equal; the queries are effect-free. Not decided: that equality is an equivalence relation, deep-copy equality, nonEmpty() equal to the original (relations over values).",
         "Trusts: C04 (the union really delivers those masks).",
         "DESIGN.md section 3, C12"),
 "C08": ("funnel / delegation checks over resolved calls, copy-dominates-transformation on the CFG, index-domain recogniser (position vs ordinal), pass-through checks of the partition builders",
         "Plumbing every split shares: the four splits and / // go through _splitGeneric after the rankid override; the splitter runs on copy.deepcopy(self); the depth descent stores at true positions; payload objects and coordinate lists pass through the partition builders unchanged (relative coordinates only subtract the partition start); _splitFiber builds lower fibers from the splitter's lists with the split fiber's default and shape; the position-space splits count their boundaries over the same (empties-skipping) stream kind the partitioner distributes. The partition / halo / active-range arithmetic is NOT decided (integer reasoning over run-time coordinates).",
         "Trusts: the arithmetic inside _SplitterUniform/_splitNonUniform_iter (undecided).",
         "DESIGN.md section 3, C08"),
 "C09": ("repo-wide at-most-once-loop rule with sentinel, index-domain recogniser, dispatch-table lifting and key-set comparison across four chains, raw-iteration recogniser on the swizzle DFS",
         "Structural clauses: no loop of fibertree/ leaves on every path through its body (descent loops visit every child); every loop-indexed element store addresses a true position; the five coordinate styles are handled by all four dispatch chains with equal key sets; swizzleRanks extracts with a raw DFS, permutes through guide and rebuilds ascending through Fiber.append; the rebuild opens a new sub-fiber depending on the whole coordinate prefix (carried flag reset per point, or slice comparison); swapRanks = flatten(pair)/sort reversed/unflatten; _mergeRanksHelper's children list zipped with self.coords has exactly one entry per stored payload; every transform returns Tensor.fromFiber(...). Coordinate images, inverse round trips and merge reductions are NOT decided.",
         "Trusts: sort/bisect semantics; pure merge_fn/trans_fn.",
         "DESIGN.md section 3, C09"),
 "C14": ("sibling cross-check of hand-copied carry-over blocks against one requirement table (CFG must-pass-through per attribute, def-use provenance of the shape argument), table check of every lazy-result builder, owner-first dominance in attribute queries",
         "Every tensor transform (6 producers) must hand name, colour, mutability, leaf default, per-rank formats and an authoritative-derived shape to its result on every path to the return; every lazy-result builder (10 fromIterator producers) must carry the rank id / active range / default the operation defines; Fiber attribute queries ask the owner first; Rank.getShape(authoritative=True) yields None for estimated shapes; the active range swizzleRanks re-computes is min/max over candidate ranges whose filter proves start <= first and end > last stored coordinate; the pair-style shape is folded by prepending over the reversed prefix. Coordinates inside shape / active range elsewhere (values) are NOT decided.",
         "Trusts: the requirement table written from the property text (sa/rules/c14.py).",
         "DESIGN.md section 3, C14"),
 "C15": ("intraprocedural taint analysis with metrics-only-parameter summaries (non-interference), dominating-guard check of asserting Metrics calls, counter-placement table, mutated-vs-reset attribute set comparison, tick pairing in the generators, effect summaries for confinement",
         "Termination-insensitive non-interference of metrics code with kernel results: values derived from Metrics.* never reach yields/returns/tree writes/kernel control flow in any function of core/; every asserting Metrics call is dominated by a collecting guard; payload operators count exactly the table; beginCollect resets every attribute any Metrics method mutates; metrics.py is confined to Metrics.* and files; one incIter and one iter-trace row per yield in the ticking generators; every library call of a function with a collecting-only assertion on a parameter (Fiber.project: rank_id) supplies that parameter, so no kernel path raises only while collecting. Sufficient for 'results with collection on = off' for all kernels; equality of the reported numbers with an executed kernel is NOT decided.",
         "Trusts: Fiber._saved_* statistics do not influence results; asserts of the metrics API may abort a collecting run.",
         "DESIGN.md section 3, C15"),
 "C16": ("symbolic list-length normal form (header vs row arity), flush-discipline clause checks on the CFG, index-domain recogniser (position / relative position / ordinal of a default-skipping stream / destination-side) at every Metrics.addUse call site",
         "Structural clauses: header and every row have length 2*(depth+1)+1 with the depth taken from the same two-way choice; flush discipline (append mode, fresh buffer after each flush, identical row to file and memory buffers, flush at num_cached_uses, final flush before the traces are dropped) -- which makes the file content independent of the threshold by construction; the position argument of each of the 24 addUse call sites is classified, ordinals of default-skipping streams (incl. filtering comprehensions) are reported (16 known call sites in 6 functions on the pinned tree); every ticking generator refreshes the current point for the coordinate it yields, directly or through an accessor that records whenever collecting, on every path to the yield. Row order and stamp monotonicity are NOT decided.",
         "Trusts: the iteration-kind recogniser (sa/sites.py).",
         "DESIGN.md section 3, C16"),
 "C13": ("writer/reader key-set agreement by literal extraction, def-use check that the caller's default reaches every squeeze test and constructor, entropy-source audit with seed-dominates-draw on the CFG",
         "THIN: round-trip equality is NOT decided. Decided are three necessary structural preconditions: YAML/dict writer and reader key sets agree (root written as [root], read with [0]); zero-squeezing compares with the caller's default at every level and forwards it to every Fiber/Tensor built; random construction draws only from the seeded random stream, seeding precedes every draw, recursion does not re-seed; _makeFiber returns a fiber only for a provably non-empty coordinate list (no explicit empty sub-fibers from all-default blocks); a YAML reader gives up only for an absent key or a value of the wrong kind (isinstance(<value>, <type>)), never on the truth value of what it read; uncompress / _fillempty hand their own parameters to the next level in the callee's parameter positions.",
         "Trusts: yaml dump/load round-trips plain dict/list/scalars.",
         "DESIGN.md section 3, C13"),
 "C17": ("resource pairing on the CFG (temp files removed / readers closed on every path), callback-slot arity agreement between two policies and the call sites, stale-loop-variable rule via reaching definitions, two-finger recogniser on the trace combiners",
         "THIN: traffic values and cache optimality are NOT decided. Decided: the buffet keeps a line exactly when the iteration-stamp prefix up to and including the evict-on rank (slice from 0, length index+1, 0 for root; linear normal form) equals that of the next use and a next use exists; the cache's 'there is room' shortcut is the negation of add_elem's eviction-loop condition; every temp file created by _bufferTraffic is removed (and its reader closed first) on every path to a return; the six policy callbacks of both policies match the call sites in parameter count and returned tuple arity and are passed in slot order; in every loop over the bindings no variable is read whose value can only come from another, finished loop; _combineTraces is a stable merge with ties to the read trace and filterTrace the two-pointer scan.",
         "Trusts: nothing about the numbers.",
         "DESIGN.md section 3, C17"),
 "C18": ("literal extraction of the spec default table, polynomial (sum-of-products) normal form of the footprint expressions, aggregation-shape checks, effect summaries",
         "Structural clauses: default table (0 bits / 'C' / 'contiguous'); fiber footprint normalises to fhbits + pbits*n + cbits*n with n = occupancy for C and shape for U; rank = rhbits + sum over the raw rank list, tensor = root + sum over rank ids, root = hbits + pbits; sub-tree work-list adds each popped fiber once and walks children with iterShape for U / iterOccupancy otherwise, sums from 0 exactly while the work list is not empty; getElem gives cbits / pbits / both for coord / payload / elem; the queries are effect-free. Numeric totals are NOT decided (they follow from C02 + these formulas).",
         "Trusts: C02 (the rank lists mirror the tree).",
         "DESIGN.md section 3, C18"),
 "C19": ("mirror-symmetry comparison of branch summaries under the renaming 0<->1, counting-site placement, use-only-as-receiver check on payload variables, polynomial normal form of the latency formula",
         "THIN: the counts are NOT decided. Decided: two-finger and skip-ahead models treat the operands symmetrically (the > branch is the mirror of the < branch incl. end-of-fiber forwarding), count once per iteration resp. once per match + once per run, leader-follower subtracts the header exactly once; the swap model reads coordinates only and charges next_latency*(lists+elements) in the finite-latency leg.",
         "Trusts: nothing about the numbers.",
         "DESIGN.md section 3, C19"),
 "C20": ("sibling cross-check of the encodeFiber implementations registered for U/C/B, registry/interface exhaustiveness against the base class placeholders, shared key constructor",
         "THIN: decode round trips and lookups are NOT decided. Decided: encodeFiber of C and B returns a per-element counter (the occupancy the rank above accumulates into segment ends); getSize of U/C/B sums exactly the word counts of the layout (ceiling-division idiom for mask words); every encodeFiber of U, C, B (and Codec.encode) forwards the imposed shape to the next rank; the registry maps U, C, B to classes overriding the placeholder methods the slice API calls; producers and the output dictionary share Codec.get_keys; every attribute a codec / format method reads through self has a writer that can have run before (constructor chain actually called, another method, or a store through another name); the three encodeFiber siblings share one skeleton (child handed to codec.encode one level down, running sum of the children's occupancies from 0, added only under isinstance(<sum>, int), stored as the segment end, next_fmt remembered) and every test of the level in them separates the leaf rank from the ranks above it and nothing else; per-rank tables are read at depth / depth+1 only and Codec.encode keeps rank depth in slot depth+1 (root: slot 0, fmts[0], one payload entry); Bitvector's scan API agrees with the base class it overrides (setupSlice chains with its own arguments, same slice-limit test, handle counted once, handle pair in constructor order) and with its encoder (the scan stops at the literal the encoder stores); the short paths of the lookups are the lower-bound answers (nothing stored / above the last -> None, not above the first -> 0; uncompressed: identity inside [0, shape)).",
         "Trusts: nothing about the encoded arrays.",
         "DESIGN.md section 3, C20"),
}

NOT_APPLICABLE = {
 "C06": "quantifies over programs and numeric results; no structural clause of its own that a static rule could decide (DESIGN.md section 3, C06)",
}

ALL = ["C%02d" % i for i in range(1, 21)]


def main():
    checks = []
    for pid in ALL:
        if pid not in CLAIMED:
            continue
        tech, text, note, ref = CLAIMED[pid]
        checks.append({
            "property_id": pid,
            "quick_cmd": "%s -m sa.check %s --tier quick" % (PY, pid),
            "thorough_cmd": "%s -m sa.check %s --tier thorough" % (PY, pid),
            "evidence_file": "/verif/evidence/%s.json" % pid,
            "replay_cmd_template": "%s -m sa.check %s --replay {path}" % (PY, pid),
            "engine": "sa",
            "level_claimed": {"category": "other", "text": text, "design_ref": ref},
            "level_note": note,
            "technique": "static analysis: " + tech,
        })
    na = []
    for pid in ALL:
        if pid in CLAIMED:
            continue
        na.append({"property_id": pid,
                   "reason": NOT_APPLICABLE.get(pid, "check under construction (static rule not yet built)")})
    man = {
        "version": 1,
        "setup_cmd": "true",
        "hooks": {
            "guard": "FIBERTREE_PROJECT_FIBERTREE_VERIF",
            "enable": "none needed: the checks are static analyses of /repo's source; no instrumentation is compiled in",
            "baseline_off_cmd": "cd /repo && /venv/bin/python -m pytest -ra -q -p no:cacheprovider --timeout=900 --continue-on-collection-errors",
            "source_commits": [],
            "add_only": True,
        },
        "engines": [{
            "name": "sa", "path": "/verif/sa",
            "serves_properties": [c["property_id"] for c in checks],
            "kind_free_text": "repository-specific static analyser over the Python ast: syntactic canonical form + role anchors, program model with method injection, statement CFG + dominators, reaching definitions, receiver typing and call resolution, interprocedural write-effect / alias / holds summaries with flag constant propagation, per-property rule modules (sa/rules)",
        }],
        "checks": checks,
        "not_applicable": na,
        "notes": "All checks read /repo's current working tree (override with VERIF_REPO) and never import or run fibertree. Exit 0 = all obligations discharged (KNOWN-FINDING lines for entries of /verif/known_findings.json), 1 = VIOLATION, 2 = ANALYSIS-ERROR.",
    }
    with open(os.path.join(VERIF, "MANIFEST.json"), "w") as f:
        json.dump(man, f, indent=1)
        f.write("\n")
    print("claimed:", [c["property_id"] for c in checks])


if __name__ == "__main__":
    main()
