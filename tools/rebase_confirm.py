#!/venv/bin/python
"""tools/rebase_confirm.py <worktree at /repo HEAD> <refactored id> <rebased patch>

A stored refactoring whose patch no longer applies after a `fix:` commit in
/repo is rebased by hand; this confirms the rebased patch the same way
import_refactor.py confirmed the original (agent's equivalence transcript
identical on HEAD and HEAD+patch, pinned suite unchanged, all seeded
demonstrations still exit 0) and then replaces refactored/<id>/patch.diff,
recording the rebase in meta.json.  First-contact results are kept."""
import json, os, shutil, subprocess, sys, concurrent.futures as cf
VERIF = os.path.dirname(os.path.dirname(os.path.abspath(__file__)))
wt, rid, patch = sys.argv[1], sys.argv[2], os.path.abspath(sys.argv[3])
dst = os.path.join(VERIF, "refactored", rid)
env = dict(os.environ, PYTHONPATH=wt, VERIF_REPO=wt)


def run(cmd, **kw):
    return subprocess.run(cmd, stdout=subprocess.PIPE, stderr=subprocess.STDOUT, text=True, **kw)


def transcript():
    r = run(["/venv/bin/python", os.path.join(dst, "equiv.py")], cwd=wt, env=env, timeout=1200)
    return r.returncode, r.stdout


run(["git", "-C", wt, "reset", "-q", "--hard"])
head = run(["git", "-C", wt, "rev-parse", "--short", "HEAD"]).stdout.strip()
rc0, t0 = transcript()
ap = run(["git", "-C", wt, "apply", patch])
if ap.returncode != 0:
    print("patch does not apply:", ap.stdout); sys.exit(2)
rc1, t1 = transcript()
bl = run(["/venv/bin/python", os.path.join(VERIF, "tools", "baseline_check.py")], env=env)
seeded = os.path.join(VERIF, "seeded")
demos = sorted(os.path.join(seeded, d, "demo.py") for d in os.listdir(seeded)
               if os.path.exists(os.path.join(seeded, d, "demo.py")))


def demo(p):
    try:
        return p, subprocess.run(["/venv/bin/python", p], cwd=wt, env=env,
                                 stdout=subprocess.DEVNULL, stderr=subprocess.DEVNULL,
                                 timeout=180).returncode
    except subprocess.TimeoutExpired:
        return p, 124
with cf.ThreadPoolExecutor(max_workers=12) as ex:
    failed = [os.path.basename(os.path.dirname(p)) for p, rc in ex.map(demo, demos) if rc != 0]
run(["git", "-C", wt, "reset", "-q", "--hard"])
print("equiv transcript: exit %d/%d, identical=%s (%d bytes)" % (rc0, rc1, t0 == t1, len(t0)))
print("pinned suite with patch:", bl.stdout.strip().splitlines()[0] if bl.stdout.strip() else bl.returncode)
print("seeded demonstrations failing with patch:", failed or "none")
if not (rc0 == 0 and rc1 == 0 and t0 == t1 and bl.returncode == 0 and not failed):
    print("REBASE REJECTED"); sys.exit(1)
shutil.copy(patch, os.path.join(dst, "patch.diff"))
mp = os.path.join(dst, "meta.json")
meta = json.load(open(mp))
meta.setdefault("rebased", []).append(
    {"onto": head, "why": "fix: commits D11-D13 touched the same lines; the fix was "
     "carried into the refactored code by hand", "confirmed": {
         "equiv_transcript_identical": True, "transcript_bytes": len(t0),
         "pinned_suite_with_patch": bl.stdout.strip().splitlines()[0],
         "seeded_demos_failing": failed}})
json.dump(meta, open(mp, "w"), indent=1)
print("rebased", rid, "onto", head)
