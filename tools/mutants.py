#!/venv/bin/python
"""tools/mutants.py -- mutation study of the static checks, with the seeded
demonstrations as an independent behavioural oracle.

A mutant is one small AST edit of /repo/fibertree (comparison / arithmetic /
boolean operator swap, off-by-one constant, dropped statement, swapped
arguments, sibling-method swap, break<->continue).  For each sampled mutant:

  1. every demo.py under /verif/seeded (written by sub-agents that saw only
     a property text) is run against it; a mutant that makes a demo fail
     violates that demo's property (the demos pass on the unmodified tree);
  2. for those, the pinned suite is run: only mutants it does NOT notice are
     "realistic breaks the tests cannot settle";
  3. the static checks are run on every demo-killed mutant.

Output: /verif/mutation/results.json and a summary; nothing else is kept.

  tools/mutants.py gen  <n> <seed>       sample n mutants -> mutation/mutants.json
  tools/mutants.py run  [first] [last]   evaluate them    -> mutation/results.json
  tools/mutants.py show                  summary table
"""
import ast, concurrent.futures as cf, copy, json, os, random, shutil, subprocess, sys, tempfile

VERIF = os.path.dirname(os.path.dirname(os.path.abspath(__file__)))
REPO = os.environ.get("VERIF_REPO", "/repo")
OUT = os.environ.get("VERIF_MUT_DIR", os.path.join(VERIF, "mutation"))
FILES = ["core/fiber.py", "core/iterators.py", "core/tensor.py", "core/rank.py",
         "core/rank_attrs.py", "core/payload.py", "core/coord_payload.py",
         "core/metrics.py", "model/traffic.py", "model/format.py",
         "model/intersect.py", "model/compute.py", "codec/tensor_codec.py",
         "codec/formats/uncompressed.py", "codec/formats/coord_list.py",
         "codec/formats/bitvector.py"]
CMP = {ast.Lt: ast.LtE, ast.LtE: ast.Lt, ast.Gt: ast.GtE, ast.GtE: ast.Gt,
       ast.Eq: ast.NotEq, ast.NotEq: ast.Eq, ast.Is: ast.IsNot, ast.IsNot: ast.Is}
BIN = {ast.Add: ast.Sub, ast.Sub: ast.Add, ast.Mult: ast.FloorDiv, ast.FloorDiv: ast.Mult}
SIB = {"iterOccupancy": "iterActive", "iterActive": "iterOccupancy",
       "iterShape": "iterActiveShape", "iterActiveShape": "iterShape",
       "iterShapeRef": "iterActiveShapeRef", "getPayload": "getPayloadRef",
       "getPayloadRef": "getPayload", "bisect_left": "bisect_right",
       "bisect_right": "bisect_left", "min": "max", "max": "min",
       "getCoords": "getPayloads", "append": "extend", "getActive": "getShape",
       "iterRange": "iterRangeShape", "isEmpty": "isLazy", "pop": "clear"}
ALL_PROPS = ["C%02d" % i for i in range(1, 21) if i != 6]


def candidates(tree):
    """[(node index in ast.walk order, kind)]"""
    out = []
    in_doc = set()
    for n in ast.walk(tree):
        if isinstance(n, (ast.FunctionDef, ast.ClassDef, ast.Module)) and n.body and \
                isinstance(n.body[0], ast.Expr) and isinstance(n.body[0].value, ast.Constant):
            in_doc.add(id(n.body[0]))
            in_doc.add(id(n.body[0].value))
    for i, n in enumerate(ast.walk(tree)):
        if id(n) in in_doc:
            continue
        if isinstance(n, ast.Compare) and len(n.ops) == 1 and type(n.ops[0]) in CMP:
            out.append((i, "cmp"))
        elif isinstance(n, ast.BinOp) and type(n.op) in BIN and not (
                isinstance(n.left, ast.Constant) and isinstance(n.left.value, str)):
            out.append((i, "bin"))
        elif isinstance(n, ast.BoolOp):
            out.append((i, "bool"))
        elif isinstance(n, ast.UnaryOp) and isinstance(n.op, ast.Not):
            out.append((i, "not"))
        elif isinstance(n, ast.Constant) and type(n.value) is int and n.value in (0, 1, 2, -1):
            out.append((i, "const+"))
            out.append((i, "const-"))
        elif isinstance(n, ast.Constant) and type(n.value) is bool:
            out.append((i, "boolconst"))
        elif isinstance(n, (ast.Break, ast.Continue)):
            out.append((i, "jump"))
        elif isinstance(n, ast.Call):
            if isinstance(n.func, ast.Attribute) and n.func.attr in SIB:
                out.append((i, "sibling"))
            elif isinstance(n.func, ast.Name) and n.func.id in SIB:
                out.append((i, "sibling"))
            if len(n.args) >= 2 and not any(isinstance(a, ast.Starred) for a in n.args[:2]) \
                    and ast.dump(n.args[0]) != ast.dump(n.args[1]):
                out.append((i, "swapargs"))
        elif isinstance(n, ast.Expr) and isinstance(n.value, ast.Call):
            out.append((i, "dropstmt"))
        elif isinstance(n, ast.AugAssign):
            out.append((i, "dropstmt"))
        elif isinstance(n, ast.Assign) and isinstance(n.targets[0], (ast.Attribute, ast.Subscript)):
            out.append((i, "dropstmt"))
    return out


def apply(src, idx, kind):
    tree = ast.parse(src)
    nodes = list(ast.walk(tree))
    n = nodes[idx]
    desc = ""
    if kind == "cmp":
        old = ast.unparse(n)
        n.ops = [CMP[type(n.ops[0])]()]
        desc = "%s -> %s" % (old, ast.unparse(n))
    elif kind == "bin":
        old = ast.unparse(n)
        n.op = BIN[type(n.op)]()
        desc = "%s -> %s" % (old, ast.unparse(n))
    elif kind == "bool":
        old = ast.unparse(n)
        n.op = ast.Or() if isinstance(n.op, ast.And) else ast.And()
        desc = "%s -> %s" % (old, ast.unparse(n))
    elif kind == "not":
        desc = "%s -> %s" % (ast.unparse(n), ast.unparse(n.operand))
        par = _parent(tree, n)
        _replace(par, n, n.operand)
    elif kind in ("const+", "const-"):
        old = n.value
        n.value = old + (1 if kind == "const+" else -1)
        desc = "constant %d -> %d" % (old, n.value)
    elif kind == "boolconst":
        n.value = not n.value
        desc = "constant %s -> %s" % (not n.value, n.value)
    elif kind == "jump":
        par = _parent(tree, n)
        new = ast.Continue() if isinstance(n, ast.Break) else ast.Break()
        _replace(par, n, new)
        desc = "%s -> %s" % (type(n).__name__.lower(), type(new).__name__.lower())
    elif kind == "sibling":
        if isinstance(n.func, ast.Attribute):
            old = n.func.attr
            n.func.attr = SIB[old]
        else:
            old = n.func.id
            n.func.id = SIB[old]
        desc = "call %s -> %s in `%s`" % (old, SIB[old], ast.unparse(n)[:60])
    elif kind == "swapargs":
        old = ast.unparse(n)[:60]
        n.args[0], n.args[1] = n.args[1], n.args[0]
        desc = "swap first two arguments of `%s`" % old
    elif kind == "dropstmt":
        desc = "drop statement `%s`" % ast.unparse(n)[:70]
        par = _parent(tree, n)
        _replace(par, n, ast.Pass())
    ast.fix_missing_locations(tree)
    return ast.unparse(tree) + "\n", desc, getattr(n, "lineno", 0)


def _parent(tree, node):
    for p in ast.walk(tree):
        for ch in ast.iter_child_nodes(p):
            if ch is node:
                return p
    return None


def _replace(par, old, new):
    for f, v in ast.iter_fields(par):
        if v is old:
            setattr(par, f, new)
            return
        if isinstance(v, list):
            for i, x in enumerate(v):
                if x is old:
                    v[i] = new
                    return


def func_at(src, idx):
    tree = ast.parse(src)
    nodes = list(ast.walk(tree))
    n = nodes[idx]
    ln = getattr(n, "lineno", None)
    best = ""
    if ln is None:
        return best
    for f in ast.walk(tree):
        if isinstance(f, (ast.FunctionDef, ast.ClassDef)) and f.lineno <= ln <= (f.end_lineno or 0):
            best = f.name if not best else best + "." + f.name
    return best


def gen(n, seed):
    rnd = random.Random(seed)
    allc = []
    for rel in FILES:
        src = open(os.path.join(REPO, "fibertree", rel)).read()
        for idx, kind in candidates(ast.parse(src)):
            allc.append((rel, idx, kind))
    rnd.shuffle(allc)
    # stratify: at most n/len(FILES)*3 per file so the huge fiber.py does not dominate
    cap = max(8, 3 * n // len(FILES))
    per, out = {}, []
    for rel, idx, kind in allc:
        if per.get(rel, 0) >= cap:
            continue
        per[rel] = per.get(rel, 0) + 1
        src = open(os.path.join(REPO, "fibertree", rel)).read()
        try:
            new, desc, line = apply(src, idx, kind)
            compile(new, rel, "exec")
        except Exception:
            continue
        out.append({"id": len(out), "file": rel, "idx": idx, "kind": kind,
                    "desc": desc, "line": line, "function": func_at(src, idx)})
        if len(out) >= n:
            break
    os.makedirs(OUT, exist_ok=True)
    json.dump({"seed": seed, "repo_head": subprocess.run(
        ["git", "-C", REPO, "rev-parse", "--short", "HEAD"], stdout=subprocess.PIPE,
        text=True).stdout.strip(), "mutants": out},
        open(os.path.join(OUT, "mutants.json"), "w"), indent=1)
    print("generated", len(out), "mutants from", len(allc), "candidates")


def demos():
    d = os.path.join(VERIF, "seeded")
    return sorted((s, os.path.join(d, s, "demo.py")) for s in os.listdir(d)
                  if os.path.exists(os.path.join(d, s, "demo.py")))


def evaluate(m):
    tmp = tempfile.mkdtemp(prefix="sa-mut-")
    try:
        root = os.path.join(tmp, "repo")
        shutil.copytree(REPO, root, ignore=shutil.ignore_patterns(
            ".git", "__pycache__", "*.pyc", "*.egg-info"))
        p = os.path.join(root, "fibertree", m["file"])
        new, desc, line = apply(open(p).read(), m["idx"], m["kind"])
        open(p, "w").write(new)
        env = dict(os.environ, PYTHONPATH=root, VERIF_REPO=root)
        failed = []
        for sid, demo in demos():
            try:
                r = subprocess.run(["/venv/bin/python", demo], cwd=root, env=env,
                                   stdout=subprocess.DEVNULL, stderr=subprocess.DEVNULL,
                                   timeout=120)
                if r.returncode != 0:
                    failed.append(sid)
            except subprocess.TimeoutExpired:
                failed.append(sid + "(timeout)")
        res = dict(m, demos_failed=failed)
        if not failed:
            return res
        # static checks
        det, errs = {}, []
        for prop in ALL_PROPS:
            rr = subprocess.run(["/venv/bin/python", "-m", "sa.variant_runner", prop],
                                cwd=VERIF, env=env, stdout=subprocess.PIPE,
                                stderr=subprocess.STDOUT, text=True)
            try:
                j = json.loads(rr.stdout.strip().splitlines()[-1])
            except Exception:
                errs.append(prop)
                continue
            if j["new_findings"]:
                det[prop] = sorted({f["rule"] for f in j["new_findings"]})
            if j.get("error"):
                errs.append(prop)
        res["detected_by"] = det
        res["analysis_errors"] = errs
        # pinned suite
        bl = subprocess.run(["/venv/bin/python", os.path.join(VERIF, "tools", "baseline_check.py")],
                            env=env, stdout=subprocess.PIPE, stderr=subprocess.STDOUT, text=True)
        res["pinned_suite_passes"] = bl.returncode == 0
        res["pinned_suite"] = bl.stdout.strip().splitlines()[0] if bl.stdout.strip() else ""
        return res
    finally:
        shutil.rmtree(tmp, ignore_errors=True)


def static_only(m):
    tmp = tempfile.mkdtemp(prefix="sa-mut-")
    try:
        root = os.path.join(tmp, "repo")
        shutil.copytree(os.path.join(REPO, "fibertree"), os.path.join(root, "fibertree"),
                        ignore=shutil.ignore_patterns("__pycache__", "*.pyc"))
        p = os.path.join(root, "fibertree", m["file"])
        new, desc, line = apply(open(p).read(), m["idx"], m["kind"])
        open(p, "w").write(new)
        env = dict(os.environ, VERIF_REPO=root)
        det, errs = {}, []
        for prop in ALL_PROPS:
            rr = subprocess.run(["/venv/bin/python", "-m", "sa.variant_runner", prop],
                                cwd=VERIF, env=env, stdout=subprocess.PIPE,
                                stderr=subprocess.STDOUT, text=True)
            try:
                j = json.loads(rr.stdout.strip().splitlines()[-1])
            except Exception:
                errs.append(prop)
                continue
            if j["new_findings"]:
                det[prop] = sorted({f["rule"] for f in j["new_findings"]})
            if j.get("error"):
                errs.append(prop)
        return dict(m, detected_by=det, analysis_errors=errs)
    finally:
        shutil.rmtree(tmp, ignore_errors=True)


def recheck(only_silent=True, jobs=10):
    """Re-run the static checks (current rules) on the demo-killed mutants."""
    path = os.path.join(OUT, "results.json")
    rs = json.load(open(path))
    ms = {m["id"]: m for m in json.load(open(os.path.join(OUT, "mutants.json")))["mutants"]}
    todo = [dict(ms.get(r["id"], {}), **r) for r in rs if r["demos_failed"] and
            (r.get("pinned_suite_passes") or not only_silent)]
    with cf.ThreadPoolExecutor(max_workers=jobs) as ex:
        new = {r["id"]: r for r in ex.map(static_only, todo)}
    rs = [new.get(r["id"], r) for r in rs]
    json.dump(rs, open(path, "w"), indent=1)
    show()


def run(first, last, jobs):
    ms = json.load(open(os.path.join(OUT, "mutants.json")))["mutants"][first:last]
    path = os.path.join(OUT, "results.json")
    done = {}
    if os.path.exists(path):
        done = {r["id"]: r for r in json.load(open(path))}
    todo = [m for m in ms if m["id"] not in done]
    with cf.ThreadPoolExecutor(max_workers=jobs) as ex:
        for i, r in enumerate(ex.map(evaluate, todo)):
            done[r["id"]] = r
            if r["demos_failed"]:
                print("#%d %s:%d %s | demos %s | suite %s | static %s %s" % (
                    r["id"], r["file"], r["line"], r["desc"][:60], r["demos_failed"][:4],
                    "passes" if r.get("pinned_suite_passes") else "FAILS",
                    r.get("detected_by"), ("err " + str(r["analysis_errors"])) if r.get("analysis_errors") else ""),
                    flush=True)
            if i % 20 == 19:
                json.dump(sorted(done.values(), key=lambda x: x["id"]), open(path, "w"), indent=1)
    json.dump(sorted(done.values(), key=lambda x: x["id"]), open(path, "w"), indent=1)
    show()


def show():
    rs = json.load(open(os.path.join(OUT, "results.json")))
    killed = [r for r in rs if r["demos_failed"]]
    quiet = [r for r in killed if r.get("pinned_suite_passes")]
    print("mutants evaluated      : %d" % len(rs))
    print("break a demonstration  : %d" % len(killed))
    print("  .. unnoticed by suite: %d" % len(quiet))
    for name, grp in (("all demo-killed", killed), ("suite-silent", quiet)):
        det = [r for r in grp if r.get("detected_by")]
        err = [r for r in grp if not r.get("detected_by") and r.get("analysis_errors")]
        print("%-16s: %d reported as VIOLATION, %d only ANALYSIS-ERROR, %d missed"
              % (name, len(det), len(err), len(grp) - len(det) - len(err)))
    print("missed (suite-silent):")
    for r in quiet:
        if not r.get("detected_by") and not r.get("analysis_errors"):
            print("   #%d %s %s :: %s :: demos %s" % (r["id"], r["file"], r["function"],
                                                      r["desc"][:70], r["demos_failed"][:3]))


if __name__ == "__main__":
    cmd = sys.argv[1]
    if cmd == "gen":
        gen(int(sys.argv[2]), int(sys.argv[3]))
    elif cmd == "run":
        a = [x for x in sys.argv[2:] if not x.startswith("--")]
        jobs = 10
        run(int(a[0]) if a else 0, int(a[1]) if len(a) > 1 else 10 ** 9, jobs)
    elif cmd == "recheck":
        recheck(only_silent="--all" not in sys.argv)
    else:
        show()
