#!/venv/bin/python
"""tools/import_seed.py <worktree> <seed id> <property>

Confirm a seeded change produced by a sub-agent (demo passes without the
patch, fails with it; pinned suite unchanged with it), run the static checks
against it, and store it as /verif/seeded/<id>/ with meta.json."""
import json, os, shutil, subprocess, sys
VERIF = os.path.dirname(os.path.dirname(os.path.abspath(__file__)))
wt, sid, prop = sys.argv[1], sys.argv[2], sys.argv[3]
out = os.path.join(wt, "_out")
patch = os.path.join(out, "patch.diff")
env = dict(os.environ, PYTHONPATH=wt, VERIF_REPO=wt)


def run(cmd, **kw):
    return subprocess.run(cmd, stdout=subprocess.PIPE, stderr=subprocess.STDOUT, text=True, **kw)


def demo():
    r = run(["/venv/bin/python", os.path.join(out, "demo.py")], cwd=wt, env=env)
    return r.returncode, r.stdout[-600:]


run(["git", "-C", wt, "checkout", "--", "fibertree"])
rc0, o0 = demo()
ap = run(["git", "-C", wt, "apply", patch])
if ap.returncode != 0:
    print("patch does not apply:", ap.stdout); sys.exit(2)
rc1, o1 = demo()
bl = run(["/venv/bin/python", os.path.join(VERIF, "tools", "baseline_check.py")], env=env)
run(["git", "-C", wt, "checkout", "--", "fibertree"])
run(["git", "-C", wt, "checkout", "--", "."])
print("demo without patch: exit", rc0)
print("demo with patch   : exit", rc1, "|", o1.strip().splitlines()[-1] if o1.strip() else "")
print("pinned suite with patch:", bl.stdout.strip().splitlines()[0] if bl.stdout.strip() else bl.returncode)
ok = rc0 == 0 and rc1 != 0 and bl.returncode == 0
tp = run(["/venv/bin/python", os.path.join(VERIF, "tools", "try_patch.py"), patch])
print(tp.stdout.strip())
detected = tp.returncode == 0
if not ok:
    print("SEED REJECTED (claims not confirmed)"); sys.exit(1)
dst = os.path.join(VERIF, "seeded", sid)
os.makedirs(dst, exist_ok=True)
for f in ("patch.diff", "demo.py", "notes.md"):
    if os.path.exists(os.path.join(out, f)):
        shutil.copy(os.path.join(out, f), os.path.join(dst, f))
by = [l.split(":")[0] for l in tp.stdout.splitlines() if l[:1] == "C" and "new finding" in l and not l.startswith(tuple("C%02d: 0" % i for i in range(21)))]
by = [l.split(":")[0] for l in tp.stdout.splitlines() if l[:1] == "C" and " new finding" in l and not l.split(":")[1].strip().startswith("0 ")]
rules = sorted({l.split()[0] for l in tp.stdout.splitlines() if l.startswith("    C")})
meta = {
    "id": sid, "breaks_property": prop,
    "origin": "independent sub-agent given only the property text and a scratch worktree",
    "confirmed": {"demo_exit_without_patch": rc0, "demo_exit_with_patch": rc1,
                  "demo_failure": o1.strip().splitlines()[-1] if o1.strip() else "",
                  "pinned_suite_with_patch": bl.stdout.strip().splitlines()[0] if bl.stdout.strip() else ""},
    "ran": ["git apply patch.diff in a scratch worktree", "PYTHONPATH=<wt> /venv/bin/python _out/demo.py (both states)",
            "tools/baseline_check.py with VERIF_REPO=<wt>", "tools/try_patch.py patch.diff"],
    "detected_by_checks": by, "rules": rules, "detected": detected,
}
json.dump(meta, open(os.path.join(dst, "meta.json"), "w"), indent=1)
print("stored", dst, "detected_by", by, rules)
