#!/venv/bin/python
"""tools/refactor_corpus.py [--tests] [names...]

Apply each whole-tree behaviour-preserving refactoring of sa/refactor.py to a
scratch copy of /repo, optionally run the pinned test suite on it (sanity:
the refactoring really preserves behaviour), and run every check on it.
Any finding that is not on the unrefactored tree is a FALSE ALARM of the
checker."""
import concurrent.futures as cf
import json, os, shutil, subprocess, sys, tempfile
VERIF = os.path.dirname(os.path.dirname(os.path.abspath(__file__)))
sys.path.insert(0, VERIF)
from sa import refactor
ALL = ["C%02d" % i for i in range(1, 21) if i != 6]
SUBDIRS = ("core", "model", "codec", "graphics")


def build(name, repo, dst):
    fn = refactor.ALL[name]
    shutil.copytree(repo, dst, ignore=shutil.ignore_patterns(
        "__pycache__", "*.pyc", ".git", "tmp", "*.egg-info"))
    n = 0
    for sub in SUBDIRS:
        for dp, dn, fns in os.walk(os.path.join(dst, "fibertree", sub)):
            for f in fns:
                if f.endswith(".py"):
                    p = os.path.join(dp, f)
                    src = open(p, encoding="utf-8").read()
                    try:
                        new = fn(src)
                        compile(new, p, "exec")
                    except Exception as e:
                        print("  skip %s: %s" % (p, e))
                        continue
                    if new != src:
                        open(p, "w", encoding="utf-8").write(new)
                        n += 1
    return n


def main():
    args = [a for a in sys.argv[1:] if not a.startswith("--")]
    tests = "--tests" in sys.argv
    names = args or list(refactor.ALL)
    repo = os.environ.get("VERIF_REPO", "/repo")
    bad = 0
    for name in names:
        tmp = tempfile.mkdtemp(prefix="sa-refac-")
        dst = os.path.join(tmp, "repo")
        try:
            n = build(name, repo, dst)
            print("== %s: %d files rewritten" % (name, n))
            if tests:
                r = subprocess.run([sys.executable, os.path.join(VERIF, "tools", "baseline_check.py")],
                                   env=dict(os.environ, VERIF_REPO=dst, PYTHONPATH=dst),
                                   stdout=subprocess.PIPE, stderr=subprocess.STDOUT, text=True)
                print("   tests:", r.stdout.strip().splitlines()[0] if r.stdout else r.returncode)
            env = dict(os.environ, VERIF_REPO=dst)

            def one(p):
                rr = subprocess.run([sys.executable, "-m", "sa.variant_runner", p],
                                    cwd=VERIF, env=env, stdout=subprocess.PIPE,
                                    stderr=subprocess.STDOUT, text=True)
                try:
                    return p, json.loads(rr.stdout.strip().splitlines()[-1])
                except Exception:
                    return p, {"new_findings": [], "error": rr.stdout[-300:]}
            with cf.ThreadPoolExecutor(max_workers=16) as ex:
                for p, res in ex.map(one, ALL):
                    if res["new_findings"] or res.get("error"):
                        bad += 1
                        print("   FALSE ALARM %s: %d findings %s" % (
                            p, len(res["new_findings"]),
                            ("ERR " + res["error"][:200]) if res.get("error") else ""))
                        for f in res["new_findings"][:6]:
                            print("        %s %s `%s`" % (f["rule"], f["function"].split(":")[-1], f["construct"][:80]))
        finally:
            shutil.rmtree(tmp, ignore_errors=True)
    print("false alarms:", bad)
    return 1 if bad else 0


if __name__ == "__main__":
    sys.exit(main())
