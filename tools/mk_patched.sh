#!/bin/bash
# tools/mk_patched.sh <patch.diff> <dst>: scratch copy of /repo/fibertree with the patch applied
rm -rf "$2"; mkdir -p "$2"; cp -r /repo/fibertree "$2"/; find "$2" -name __pycache__ -prune -exec rm -rf {} +
patch -p1 -s -d "$2" -i "$(readlink -f "$1")" && echo "patched -> $2"
