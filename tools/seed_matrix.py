#!/venv/bin/python
"""tools/seed_matrix.py [--update]

Run the static checks against every seeded change under /verif/seeded and
print which checks (rules) report it.  --update rewrites the detected_by /
rules fields of each meta.json.  /repo is not touched (scratch copies)."""
import json, os, subprocess, sys, concurrent.futures as cf
VERIF = os.path.dirname(os.path.dirname(os.path.abspath(__file__)))
SEEDED = os.path.join(VERIF, "seeded")


def one(sid):
    patch = os.path.join(SEEDED, sid, "patch.diff")
    r = subprocess.run([os.path.join(VERIF, "tools", "try_patch.py"), patch],
                       stdout=subprocess.PIPE, stderr=subprocess.STDOUT, text=True)
    by, rules, errs = [], set(), []
    for l in r.stdout.splitlines():
        if l[:1] == "C" and " new finding" in l:
            if not l.split(":")[1].strip().startswith("0 "):
                by.append(l.split(":")[0])
            if "ANALYSIS-ERROR" in l:
                errs.append(l.split(":")[0])
        elif l.startswith("    C"):
            rules.add(l.split()[0])
    return sid, by, sorted(rules), errs, r.returncode


def main():
    sids = sorted(d for d in os.listdir(SEEDED) if os.path.exists(os.path.join(SEEDED, d, "patch.diff")))
    missed = 0
    with cf.ThreadPoolExecutor(max_workers=4) as ex:
        for sid, by, rules, errs, rc in ex.map(one, sids):
            meta_p = os.path.join(SEEDED, sid, "meta.json")
            meta = json.load(open(meta_p))
            own = meta["breaks_property"] in by
            print("%-8s breaks %s  detected_by=%s rules=%s%s%s" % (
                sid, meta["breaks_property"], by, rules,
                "" if own else "   (not by its own property's check)",
                "  analysis-error in %s" % errs if errs else ""))
            missed += not by
            if "--update" in sys.argv:
                meta["detected_by_checks"], meta["rules"], meta["detected"] = by, rules, bool(by)
                json.dump(meta, open(meta_p, "w"), indent=1)
    print("%d seeded changes, %d not detected" % (len(sids), missed))
    return 1 if missed else 0


if __name__ == "__main__":
    sys.exit(main())
