#!/venv/bin/python
"""tools/selftest.py C01 [C02 ...]  -- run the variant matrix and print it."""
import os, sys
sys.path.insert(0, os.path.dirname(os.path.dirname(os.path.abspath(__file__))))
from sa import variants
repo = os.environ.get("VERIF_REPO", "/repo")
bad = 0
for prop in sys.argv[1:]:
    for r in variants.run_all(prop, repo):
        flag = {"killed": "ok", "silent": "ok", "killed-by-analysis-error": "ok(exit2)"}.get(r["status"], "**")
        print("%-4s %-6s %-44s %-10s %s %s" % (prop, r["kind"], r["name"], r["status"], flag,
              (r.get("findings") or r.get("why") or r.get("error") or "")))
        bad += flag == "**"
sys.exit(1 if bad else 0)
