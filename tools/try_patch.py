#!/venv/bin/python
"""tools/try_patch.py <patch.diff> [C01 C02 ...]

Apply a patch to a scratch copy of /repo/fibertree (under $TMPDIR, removed
afterwards) and run the static checks on it; prints, per property, the
findings that are not in known_findings.json.  Nothing is written to
/verif/evidence and /repo is not touched."""
import concurrent.futures as cf
import json
import os
import shutil
import subprocess
import sys
import tempfile

VERIF = os.path.dirname(os.path.dirname(os.path.abspath(__file__)))
ALL = ["C%02d" % i for i in range(1, 21) if i != 6]


def main():
    patch = os.path.abspath(sys.argv[1])
    props = sys.argv[2:] or ALL
    repo = os.environ.get("VERIF_REPO", "/repo")
    tmp = tempfile.mkdtemp(prefix="sa-patch-")
    try:
        shutil.copytree(os.path.join(repo, "fibertree"), os.path.join(tmp, "fibertree"),
                        ignore=shutil.ignore_patterns("__pycache__", "*.pyc"))
        r = subprocess.run(["patch", "-p1", "-s", "-d", tmp, "-i", patch],
                           stdout=subprocess.PIPE, stderr=subprocess.STDOUT, text=True)
        if r.returncode != 0:
            print("PATCH FAILED:", r.stdout)
            return 3
        env = dict(os.environ, VERIF_REPO=tmp)

        def one(p):
            rr = subprocess.run([sys.executable, "-m", "sa.variant_runner", p],
                                cwd=VERIF, env=env, stdout=subprocess.PIPE,
                                stderr=subprocess.STDOUT, text=True)
            try:
                return p, json.loads(rr.stdout.strip().splitlines()[-1])
            except Exception:
                return p, {"new_findings": [], "error": rr.stdout[-400:]}
        hit = 0
        with cf.ThreadPoolExecutor(max_workers=16) as ex:
            for p, res in ex.map(one, props):
                nf = res["new_findings"]
                if nf or res.get("error"):
                    hit += bool(nf)
                    print("%s: %d new finding(s)%s" % (
                        p, len(nf), ("  ANALYSIS-ERROR: " + res["error"][:300])
                        if res.get("error") else ""))
                    for f in nf[:4]:
                        print("    %s %s `%s`: %s" % (f["rule"], f["function"],
                                                      f["construct"][:70], f["why"][:160]))
        print("DETECTED by %d propert%s" % (hit, "y" if hit == 1 else "ies")
              if hit else "NOT DETECTED")
        return 0 if hit else 1
    finally:
        shutil.rmtree(tmp, ignore_errors=True)


if __name__ == "__main__":
    sys.exit(main())
