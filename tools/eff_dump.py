#!/venv/bin/python
"""tools/eff_dump.py <function key substring> : print the effect summary
(writes / returned roots / held roots) of matching functions (VERIF_REPO)."""
import os, sys
VERIF = os.path.dirname(os.path.dirname(os.path.abspath(__file__)))
sys.path.insert(0, VERIF)
from sa import model, effects
prog = model.load(os.environ.get("VERIF_REPO", "/repo"))
eff = effects.Effects(prog)
for k, f in prog.funcs.items():
    if any(a in k for a in sys.argv[1:]):
        s = eff.sum[f]
        print("==", k)
        for (loc, r, cond), w in sorted(s.writes.items(), key=str):
            print("   W", loc, r, cond, "uncertain" if getattr(w, "uncertain", False) else "")
        print("   rets ", sorted(s.rets, key=str))
        print("   hrets", sorted(s.hrets, key=str))
        print("   pstores", sorted(s.pstores))
