#!/venv/bin/python
"""Run the pinned test command in $VERIF_REPO (default /repo) and compare the
set of passing tests with /root/.vp/BASELINE.json (stable_pass)."""
import json, os, subprocess, sys, tempfile, xml.etree.ElementTree as ET
repo = os.environ.get("VERIF_REPO", "/repo")
base = json.load(open("/root/.vp/BASELINE.json"))
fd, xml = tempfile.mkstemp(suffix=".xml"); os.close(fd)
cmd = ["/venv/bin/python", "-m", "pytest", "-ra", "-q", "-p", "no:cacheprovider",
       "--timeout=900", "--continue-on-collection-errors", "--junitxml=" + xml]
env = dict(os.environ)
r = subprocess.run(cmd, cwd=repo, env=env, stdout=subprocess.PIPE, stderr=subprocess.STDOUT, text=True)
passed = set()
for tc in ET.parse(xml).getroot().iter("testcase"):
    if not any(ch.tag in ("failure", "error", "skipped") for ch in tc):
        passed.add("%s::%s" % (tc.get("classname"), tc.get("name")))
os.remove(xml)
want = set(base["stable_pass"])
missing = sorted(want - passed)
extra = sorted(passed - want)
print("passed=%d baseline=%d missing=%d extra=%d" % (len(passed), len(want), len(missing), len(extra)))
for m in missing[:20]:
    print("  NOW FAILING:", m)
sys.exit(1 if missing else 0)
