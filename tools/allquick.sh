#!/bin/bash
# run every quick check without touching evidence; print non-clean lines only
cd /verif
for p in C01 C02 C03 C04 C05 C07 C08 C09 C10 C11 C12 C13 C14 C15 C16 C17 C18 C19 C20; do
  ( VERIF_NO_EVIDENCE=1 /venv/bin/python -m sa.check $p --tier quick 2>&1 | grep -v "^KNOWN-FINDING\|^VIOLATION" | sed -e 's/^\(.\{300\}\).*/\1/' > /tmp/aq.$p ) &
done
wait
for p in C01 C02 C03 C04 C05 C07 C08 C09 C10 C11 C12 C13 C14 C15 C16 C17 C18 C19 C20; do
  if ! tail -1 /tmp/aq.$p | grep -q " 0 violation" || grep -q "ANALYSIS-ERROR" /tmp/aq.$p; then cat /tmp/aq.$p; fi
  rm -f /tmp/aq.$p
done
echo "-- allquick done"
