#!/venv/bin/python
"""tools/mk_refactored.py <name> <dst>: write the refactored copy of /repo
(refactoring <name> of sa/refactor.py) to <dst> for debugging a rule."""
import os, shutil, sys
VERIF = os.path.dirname(os.path.dirname(os.path.abspath(__file__)))
sys.path.insert(0, os.path.join(VERIF, "tools"))
sys.path.insert(0, VERIF)
import refactor_corpus as rc
name, dst = sys.argv[1], sys.argv[2]
shutil.rmtree(dst, ignore_errors=True)
print(rc.build(name, os.environ.get("VERIF_REPO", "/repo"), dst), "files rewritten ->", dst)
