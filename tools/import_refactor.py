#!/venv/bin/python
"""tools/import_refactor.py <worktree> <id> <property>

Confirm a behaviour-preserving refactoring produced by a sub-agent (pinned
suite unchanged, every seeded demonstration still passes, the agent's own
equivalence transcript identical in both states), run all static checks on
it, and store it as /verif/refactored/<id>/.  Any finding is a FALSE ALARM of
the checker."""
import json, os, shutil, subprocess, sys, concurrent.futures as cf
VERIF = os.path.dirname(os.path.dirname(os.path.abspath(__file__)))
wt, rid, prop = sys.argv[1], sys.argv[2], sys.argv[3]
out = os.path.join(wt, "_out")
patch = os.path.join(out, "patch.diff")
env = dict(os.environ, PYTHONPATH=wt, VERIF_REPO=wt)


def run(cmd, **kw):
    return subprocess.run(cmd, stdout=subprocess.PIPE, stderr=subprocess.STDOUT, text=True, **kw)


def transcript():
    r = run(["/venv/bin/python", os.path.join(out, "equiv.py")], cwd=wt, env=env, timeout=600)
    return r.returncode, r.stdout


run(["git", "-C", wt, "checkout", "--", "."])
rc0, t0 = transcript()
ap = run(["git", "-C", wt, "apply", patch])
if ap.returncode != 0:
    print("patch does not apply:", ap.stdout); sys.exit(2)
rc1, t1 = transcript()
bl = run(["/venv/bin/python", os.path.join(VERIF, "tools", "baseline_check.py")], env=env)
seeded = os.path.join(VERIF, "seeded")
demos = sorted(os.path.join(seeded, d, "demo.py") for d in os.listdir(seeded)
               if os.path.exists(os.path.join(seeded, d, "demo.py")))


def demo(p):
    try:
        return p, subprocess.run(["/venv/bin/python", p], cwd=wt, env=env,
                                 stdout=subprocess.DEVNULL, stderr=subprocess.DEVNULL,
                                 timeout=180).returncode
    except subprocess.TimeoutExpired:
        return p, 124
with cf.ThreadPoolExecutor(max_workers=12) as ex:
    failed = [os.path.basename(os.path.dirname(p)) for p, rc in ex.map(demo, demos) if rc != 0]
run(["git", "-C", wt, "checkout", "--", "."])
print("equiv transcript: exit %d/%d, identical=%s (%d bytes)" % (rc0, rc1, t0 == t1, len(t0)))
print("pinned suite with patch:", bl.stdout.strip().splitlines()[0] if bl.stdout.strip() else bl.returncode)
print("seeded demonstrations failing with patch:", failed or "none")
preserving = rc0 == 0 and rc1 == 0 and t0 == t1 and bl.returncode == 0 and not failed
tp = run(["/venv/bin/python", os.path.join(VERIF, "tools", "try_patch.py"), patch])
print(tp.stdout.strip())
alarms = [l.strip() for l in tp.stdout.splitlines() if l.startswith("    C")]
errs = [l for l in tp.stdout.splitlines() if "ANALYSIS-ERROR" in l]
if not preserving:
    print("REFACTORING REJECTED (not confirmed behaviour-preserving)"); sys.exit(1)
dst = os.path.join(VERIF, "refactored", rid)
os.makedirs(dst, exist_ok=True)
for f in ("patch.diff", "equiv.py", "notes.md"):
    if os.path.exists(os.path.join(out, f)):
        shutil.copy(os.path.join(out, f), os.path.join(dst, f))
meta = {"id": rid, "anchored_in_property": prop,
        "origin": "independent sub-agent asked for behaviour-preserving refactorings of the code implementing the property",
        "confirmed": {"equiv_transcript_identical": True, "transcript_bytes": len(t0),
                      "pinned_suite_with_patch": bl.stdout.strip().splitlines()[0],
                      "seeded_demos_failing": failed},
        "false_alarms_when_first_run": alarms, "analysis_errors_when_first_run": errs[:5]}
json.dump(meta, open(os.path.join(dst, "meta.json"), "w"), indent=1)
print("stored", dst, "| false alarms:", len(alarms), "| analysis errors:", len(errs))
