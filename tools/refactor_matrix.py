#!/venv/bin/python
"""tools/refactor_matrix.py [ids...]: run every static check on every confirmed
behaviour-preserving refactoring under /verif/refactored; any finding (or
analysis error) is a false alarm of the checker."""
import json, os, subprocess, sys, concurrent.futures as cf
VERIF = os.path.dirname(os.path.dirname(os.path.abspath(__file__)))
D = os.path.join(VERIF, "refactored")


def one(rid):
    r = subprocess.run([os.path.join(VERIF, "tools", "try_patch.py"),
                        os.path.join(D, rid, "patch.diff")],
                       stdout=subprocess.PIPE, stderr=subprocess.STDOUT, text=True)
    alarms = [l.strip() for l in r.stdout.splitlines() if l.startswith("    C")]
    errs = [l.strip() for l in r.stdout.splitlines() if "ANALYSIS-ERROR" in l]
    return rid, alarms, errs


def main():
    ids = sys.argv[1:] or sorted(d for d in os.listdir(D)
                                 if os.path.exists(os.path.join(D, d, "patch.diff")))
    bad = 0
    with cf.ThreadPoolExecutor(max_workers=3) as ex:
        for rid, alarms, errs in ex.map(one, ids):
            print("%-7s alarms=%d errors=%d" % (rid, len(alarms), len(errs)))
            for a in alarms:
                print("     " + a[:200])
            for e in errs:
                print("     " + e[:260])
            bad += bool(alarms or errs)
    print("%d refactorings, %d with false alarms" % (len(ids), bad))
    return 1 if bad else 0


if __name__ == "__main__":
    sys.exit(main())
