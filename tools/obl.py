#!/venv/bin/python
"""tools/obl.py <Cxx> [rule-substring]   (VERIF_REPO=<tree> to analyse another tree)

Print the obligations (discharged and violated) a check records, without
writing evidence: the quickest way to see what a rule looked at."""
import os
import sys
sys.path.insert(0, os.path.dirname(os.path.dirname(os.path.abspath(__file__))))
os.environ["VERIF_NO_EVIDENCE"] = "1"
sys.setrecursionlimit(20000)
from sa.check import run_property   # noqa: E402

ctx = run_property(sys.argv[1], "quick", 0, write=False)
sub = sys.argv[2] if len(sys.argv) > 2 else ""
for o in ctx.obligations:
    if sub in o["rule"]:
        print("%-8s %-10s %s:%s `%s` -- %s" % (o["rule"], o["status"], o["function"].split(":")[-1],
                                              o["line"], o["construct"][:60], o.get("by", "")[:80]))
for e in ctx.errors:
    print("ERROR", e)
