from fibertree import Tensor, Fiber
import tempfile, os
d = tempfile.mkdtemp()
t = Tensor.fromUncompressed(["M", "K"], [[1, 0], [0, 2]], name="T").flattenRanks()
p = os.path.join(d, "f.yaml")
t.dump(p)
u = Tensor.fromYAMLfile(p)
assert u == t and u.getRankIds() == t.getRankIds(), (u, t)
assert u.getRoot().coords == t.getRoot().coords == [(0, 0), (1, 1)], u.getRoot().coords
f = t.getRoot()
pf = os.path.join(d, "fib.yaml")
f.dump(pf)
g = Fiber.fromYAMLfile(pf)
assert g == f and g.coords == f.coords
print("ok: tuple coordinates survive dump + load")
