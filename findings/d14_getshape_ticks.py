from fibertree import Fiber, Metrics
import os, tempfile
def kernel(ask):
    f = Fiber.fromUncompressed([[1, 0, 2], [0, 0, 3]])      # unowned fiber tree
    f.getRankAttrs().setId("M")
    for p in f.payloads: p.getRankAttrs().setId("K")
    n = 0
    for m, f_k in f:
        if ask:
            f_k.getShape()                 # a question, not a loop
        for k, v in f_k:
            n += 1
    return n
res = {}
for ask in (False, True):
    d = tempfile.mkdtemp()
    Metrics.beginCollect(os.path.join(d, "t"))
    Metrics.trace("K")
    bodies = kernel(ask)
    Metrics.endCollect()
    rows = open(os.path.join(d, "t-K-iter.csv")).read().strip().splitlines()
    res[ask] = (bodies, len(rows) - 1)
    print("getShape asked:" , ask, "loop bodies at K:", bodies, "iter-trace rows of K:", len(rows) - 1)
assert res[True][1] == res[True][0], "iteration count of K (%d) differs from the loop bodies executed (%d) when the kernel asks getShape()" % (res[True][1], res[True][0])
