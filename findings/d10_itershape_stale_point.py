"""C16 demo: rows of a trace must carry the coordinates of the element touched.

Loop nest (depth 2 and depth 3) whose OUTER rank is traversed densely with
Fiber.iterShapeRef() (the usual way to walk an uncompressed / output rank),
while the inner ranks are traversed sparsely and traced.

Every row of an inner-rank trace is

    <rank>_pos stamps ..., coordinates of all loop ranks ..., fiber_pos

so the M column of a K (or N) row has to be the M coordinate of the fiber the
element was read from / written to.  The expected rows are recomputed here
straight from the operand data, for a file trace (several flush thresholds)
and for an in-memory (consumable) trace.

Exit status 0: all traces are correctly addressed.
Non-zero (AssertionError): some row names the wrong element.
"""
import os
import sys
import tempfile

from fibertree import Fiber, Tensor, Metrics

A_ROWS = [[1, 0, 2, 0],
          [0, 0, 0, 0],
          [0, 3, 4, 5],
          [6, 0, 0, 7]]

B_ROWS = [[1, 2, 0],
          [0, 0, 0],
          [3, 0, 4],
          [0, 5, 6]]


def read_csv(fn):
    with open(fn) as f:
        lines = f.read().splitlines()
    return lines[0].split(","), [[int(v) for v in l.split(",")] for l in lines[1:]]


def expected_k_rows():
    """iter trace of rank K under a dense walk of rank M"""
    rows = []
    for m, row in enumerate(A_ROWS):
        nz = [k for k, v in enumerate(row) if v != 0]
        for pos, k in enumerate(nz):
            # M stamp == m (one tick per coordinate), K stamp == pos
            rows.append([m, pos, m, k, pos])
    return rows


def depth2(threshold, consumable):
    A = Tensor.fromUncompressed(rank_ids=["M", "K"], root=A_ROWS)
    a_m = A.getRoot()

    prefix = os.path.join(tempfile.mkdtemp(), "d2")
    Metrics.beginCollect(prefix)
    Metrics.setNumCachedUses(threshold)
    Metrics.trace("K")
    if consumable:
        Metrics.trace("K", consumable=True)

    mem = []
    for m, a_k in a_m.iterShape():
        for k, a_val in a_k:
            pass
        if consumable:
            mem.extend(Metrics.consumeTrace("K", "iter"))
    Metrics.endCollect()

    header, rows = read_csv(prefix + "-K-iter.csv")
    assert header == ["M_pos", "K_pos", "M", "K", "fiber_pos"], header

    exp = expected_k_rows()
    assert len(rows) == len(exp), \
        "K-iter: %d rows, expected %d" % (len(rows), len(exp))
    for got, want in zip(rows, exp):
        assert got == want, \
            "K-iter (flush threshold %d): row %s should be %s -- the M " \
            "coordinate does not identify the fiber the element was read " \
            "from" % (threshold, got, want)

    if consumable:
        assert mem[0] == header, mem[0]
        assert mem[1:] == exp, \
            "in-memory K-iter trace differs from the expected rows: %s" % mem[1:]


def depth3(threshold):
    """Z[m, n] = A[m, k] * B[k, n] with a dense walk of the output rank M"""
    A = Tensor.fromUncompressed(rank_ids=["M", "K"], root=A_ROWS)
    B = Tensor.fromUncompressed(rank_ids=["K", "N"], root=B_ROWS)
    Z = Tensor(rank_ids=["M", "N"], shape=[4, 3])
    a_m = A.getRoot()
    b_k = B.getRoot()
    z_m = Z.getRoot()

    prefix = os.path.join(tempfile.mkdtemp(), "d3")
    Metrics.beginCollect(prefix)
    Metrics.setNumCachedUses(threshold)
    Metrics.trace("N", type_="populate_1")
    Metrics.trace("N", type_="populate_write_0")

    visited = []
    for m, z_n in z_m.iterShapeRef():
        a_k = a_m.getPayload(m)
        for k, (a_val, b_n) in a_k & b_k:
            for n, (z_ref, b_val) in z_n << b_n:
                z_ref += a_val * b_val
                visited.append((m, k, n))
    Metrics.endCollect()

    # The source side of the populate: one row per element of b_n read, in
    # execution order, addressed by (m, k, n)
    header, rows = read_csv(prefix + "-N-populate_1.csv")
    assert header == ["M_pos", "K_pos", "N_pos", "M", "K", "N", "fiber_pos"], header
    assert len(rows) == len(visited), (len(rows), len(visited))
    for got, (m, k, n) in zip(rows, visited):
        assert got[3:6] == [m, k, n], \
            "N-populate_1 (flush threshold %d): row %s was emitted while " \
            "reading B[k=%d][n=%d] for output row m=%d, but its coordinates " \
            "say (m, k, n) = %s" % (threshold, got, k, n, m, tuple(got[3:6]))
        assert got[6] == [c for c, v in enumerate(B_ROWS[k]) if v != 0].index(n), got

    # The destination side: every write must be addressed to the output row
    # that is being walked when it happens
    header, rows = read_csv(prefix + "-N-populate_write_0.csv")
    stamps = [r[:3] for r in rows]
    assert stamps == sorted(stamps), "populate_write_0 stamps not sorted"
    for got in rows:
        m_stamp, m_coord = got[0], got[3]
        assert m_coord == m_stamp, \
            "N-populate_write_0 (flush threshold %d): row %s was written " \
            "during M iteration %d (a dense walk, so m == %d) but claims " \
            "M coordinate %d" % (threshold, got, m_stamp, m_stamp, m_coord)


def main():
    for threshold in (2, 3, 1000):
        depth2(threshold, consumable=False)
        depth2(threshold, consumable=True)
        depth3(threshold)
    print("OK: all traces correctly addressed")


if __name__ == "__main__":
    main()
