"""Failing input for D7 (C17.R3): Z's cache write-back must not depend on an
unrelated binding.  Run with /venv/bin/python from a scratch directory."""
import warnings; warnings.simplefilter('ignore')
import copy, os, yaml
from fibertree import Metrics, Tensor
from fibertree.model import Format, Traffic
os.makedirs('tmp', exist_ok=True)
K, M, N = 8, 6, 7
A_KM = Tensor.fromRandom(rank_ids=["K", "M"], shape=[K, M], density=[0.9, 0.5], seed=0)
B_KN = Tensor.fromRandom(rank_ids=["K", "N"], shape=[K, N], density=[0.9, 0.5], seed=1)
A_MK = A_KM.swizzleRanks(rank_ids=["M", "K"])
b_k = B_KN.getRoot(); a_m = A_MK.getRoot()
Z_MN = Tensor(rank_ids=["M", "N"], shape=[M, N]); z_m = Z_MN.getRoot()
Metrics.beginCollect("tmp/ss")
for t in ("populate_read_0", "populate_write_0", "populate_1"):
    Metrics.trace("N", type_=t)
for m, (z_n, a_k) in z_m << a_m:
    for k, (a_val, b_n) in a_k & b_k:
        for n, (z_ref, b_val) in z_n << b_n:
            z_ref += a_val * b_val
Metrics.endCollect()
spec = {"M": {"format": "U", "pbits": 32}, "N": {"format": "C", "cbits": 32, "pbits": 64}}
Y_MN = Tensor(rank_ids=["M", "N"], shape=[M, 3])     # smaller declared N shape
formats = {"Z": Format(Z_MN, copy.deepcopy(spec)), "Y": Format(Y_MN, copy.deepcopy(spec))}
tr = {("Z", "N", "payload", "read"): "tmp/ss-N-populate_read_0.csv",
      ("Z", "N", "payload", "write"): "tmp/ss-N-populate_write_0.csv"}
big = 10 ** 9
b1 = yaml.safe_load("- {tensor: Z, rank: N, type: payload}")
bits1, _ = Traffic.cacheTraffic(b1, formats, dict(tr), big, 4 * 32)
tr2 = dict(tr); tr2[("Y", "N", "payload", "read")] = "tmp/ss-N-populate_1.csv"
b2 = yaml.safe_load("[{tensor: Z, rank: N, type: payload}, {tensor: Y, rank: N, type: payload}]")
bits2, _ = Traffic.cacheTraffic(b2, formats, tr2, big, 4 * 32)
print("Z alone     :", bits1["Z"])
print("Z next to Y :", bits2["Z"])
assert bits1["Z"] == bits2["Z"], "Z's write-back depends on an unrelated binding"
