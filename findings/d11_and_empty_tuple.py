from fibertree import Fiber
e = Fiber([], [])
t = Fiber([(1,2),(3,4)], [5,6])
i = Fiber([1,3],[7,8])
for a,b,name in ((e,t,"empty & tuple"),(t,e,"tuple & empty"),(e,i,"empty & int"),(i,e,"int&empty"),(i,t,"int & tuple")):
    try:
        r = a & b
        print(name, "->", [ (c,p) for c,p in r])
    except Exception as ex:
        print(name, "RAISES", type(ex).__name__, ex)
