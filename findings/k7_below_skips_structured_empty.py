"""Known finding (C09.R4, recorded, not repaired): the transforms applied
below the root skip a sub-fiber that is empty but has coordinates.

On /repo: flattenRanks(depth=1) raises IndexError (the skipped N fiber keeps
its N -> K structure inside a tree whose ranks are [M, [N, K]]); swapRanks
(depth=1) returns, but the rank lists name the wrong ranks for that fiber.
"""
from fibertree import Tensor

t = Tensor.fromUncompressed(["M", "N", "K"], [[[1, 0], [0, 2]], [[3, 0], [0, 0]]])
t.setMutable(True)
p = t.getRoot().getPayloadRef(1, 0, 0)
p <<= 0                     # M=1, N=0 now holds a K fiber with one explicit zero
try:
    f = t.flattenRanks(depth=1)
    print("flattenRanks(depth=1) returned", f.getRankIds())
except IndexError as e:
    print("flattenRanks(depth=1) raises IndexError:", e)
