from fibertree import Fiber, Tensor
import itertools
bad = []
def check(what, got, want):
    if got != want:
        bad.append("%s: uncompress gave %r, the nest was %r" % (what, got, want))
for d in (0, 7):
    n1 = [d, d, d]
    n2 = [[d, d], [d, d], [d, d]]
    n3 = [[[d, d], [d, d]], [[d, d], [d, d]]]
    m2 = [[d, 3], [d, d], [d, d]]
    m3 = [[[d, d], [d, 5]], [[d, d], [d, d]]]
    for ids, nest in ((["A"], n1), (["A", "B"], n2), (["A", "B", "C"], n3),
                      (["A", "B"], m2), (["A", "B", "C"], m3)):
        try:
            t = Tensor.fromUncompressed(ids, nest, default=d)
            check("Tensor %s default %d" % (nest, d), t.getRoot().uncompress(), nest)
        except Exception as e:
            bad.append("Tensor %s default %d: %s %s" % (nest, d, type(e).__name__, e))
try:
    check("Fiber [0,0,0]", Fiber.fromUncompressed([0, 0, 0]).uncompress(), [0, 0, 0])
except Exception as e:
    bad.append("Fiber [0,0,0]: %s %s" % (type(e).__name__, e))
for b in bad: print("FAIL", b)
assert not bad, "%d nest(s) do not survive fromUncompressed / uncompress" % len(bad)
print("ok")
