from fibertree import Tensor
import tempfile, os
d = tempfile.mkdtemp()
t = Tensor.fromUncompressed(["M", "K"], [[1, 0], [0, 2]], name="Fred")
p = os.path.join(d, "t.yaml")
t.dump(p)
u = Tensor.fromYAMLfile(p)
print("name", repr(t.getName()), "->", repr(u.getName()))
assert u == t and u.getRankIds() == t.getRankIds() and u.getShape() == t.getShape()
assert u.getName() == t.getName(), "the reloaded tensor lost its name: %r != %r" % (u.getName(), t.getName())
