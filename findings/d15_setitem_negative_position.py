from fibertree import Fiber, CoordPayload
from fibertree.core.fiber import CoordinateError
def wellformed(f):
    return all(a < b for a, b in zip(f.coords, f.coords[1:])) and len(f.coords) == len(f.payloads)
f = Fiber([2, 5, 8], [1, 2, 3])
try:
    f[-1] = CoordPayload(1, 9)          # position 2 by another name: 1 is not above 5
    outcome = "accepted"
except CoordinateError:
    outcome = "rejected"
print("f[-1] = CoordPayload(1, 9):", outcome, f.coords)
assert wellformed(f), "coordinates no longer strictly increasing: %r" % f.coords
g = Fiber([2, 5, 8], [1, 2, 3])
try:
    g[2] = CoordPayload(1, 9)
    o2 = "accepted"
except CoordinateError:
    o2 = "rejected"
assert outcome == o2 == "rejected", "position -1 and position 2 name the same element but are treated differently"
f[-1] = CoordPayload(9, 7); assert f.coords == [2, 5, 9] and f.payloads[2].value == 7
for bad in (-4, 3):
    try:
        f[bad] = 1
        raise SystemExit("position %d accepted" % bad)
    except IndexError:
        pass
print("ok")
