from fibertree import Fiber, Tensor
t = Tensor.fromUncompressed(["M", "K"], [[0, 0, 0, 0, 0, 0, 1, 2], [0, 0, 0, 0, 0, 3, 0, 4]])
m = t.mergeRanks(depth=0, levels=1, coord_style="absolute")
r = m.getRoot()
occ = [c for c, _ in r]
act = [c for c, _ in r.iterActive()]
print("coords", r.coords, "active", r.getActive(), "shape", m.getShape())
assert occ == act == [5, 6, 7], "active-range iteration %r differs from occupancy iteration %r: stored coordinates lie outside the active range %r" % (act, occ, r.getActive())
# merging a split back still covers the original range
f = Fiber([0, 1, 2, 5, 6, 9], [1, 2, 3, 4, 5, 6], shape=12)
s = f.splitUniform(4)
b = s.mergeRanks(style="absolute")
assert [c for c, _ in b.iterActive()] == f.coords and b.getActive() == f.getActive(), (b.getActive(), f.getActive())
print("ok")
