from fibertree import Fiber, Metrics
f = Fiber([1,3,5,7],[1,2,3,4])
print("off:", [(c,p) for c,p in f.getRange(3, end_coord=7)])
Metrics.beginCollect()
try:
    print("on :", [(c,p) for c,p in f.getRange(3, end_coord=7)])
except Exception as ex:
    print("on : RAISES", type(ex).__name__, ex)
Metrics.endCollect()
