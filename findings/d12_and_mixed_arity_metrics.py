from fibertree import Fiber, Metrics, Tensor
def kernel():
    A = Tensor.fromFiber(["K"], Fiber([1, 3], [7, 8]))
    B = Tensor.fromFiber(["K"], Fiber([(1, 2), (3, 4)], [5, 6]))
    out = []
    for k, (a, b) in A.getRoot() & B.getRoot():
        out.append((k, a.value * b.value))
    return out
off = kernel()
print("off:", off)
Metrics.beginCollect()
Metrics.associateShape("K", (5, 5))      # tuple coordinates need a shape to be traced
try:
    on = kernel()
    print("on :", on)
except Exception as ex:
    on = "RAISES %s %s" % (type(ex).__name__, ex)
    print("on :", on)
Metrics.endCollect()
assert on == off, "metrics collection changed the result of the kernel: %r vs %r" % (on, off)
