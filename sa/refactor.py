"""Behaviour-preserving whole-file refactorings used to test that the rules
do not fire on equivalent code (DESIGN.md section 5, must-stay-silent
corpus).  Each takes module source text and returns new source text.

  unparse      : ast round trip (formatting / comments / docstring layout)
  rename       : every local variable of every function gets a new name
  noop         : a `pass` in front of every statement of every function body
  flipif       : `if c: A else: B`  ->  `if not c: B else: A`
  flipcmp      : `a < b` -> `b > a`, `a == b` -> `b == a` (plain operands)
  temps        : `return <call/binop>` -> `_rv = <..>; return _rv`
  unelse       : `if c: <leaves> else: B` -> `if c: <leaves>` ; B
  addelse      : `if c: <leaves>` ; rest  -> `if c: <leaves> else: rest`
  condtemp     : `if <cond>:` -> `_c = <cond>` ; `if _c:`
  argtemp      : `o.m(<call/arith>)` -> `_a = <..>` ; `o.m(_a)`
  augexpand    : `n += 1` -> `n = n + 1` (names, int literals)
"""

import ast
import builtins
import copy

BUILTINS = set(dir(builtins))


def _locals_of(fn):
    """Names assigned in fn's own scope (not parameters, globals, nonlocals,
    nor names of nested defs/classes)."""
    params = {a.arg for a in fn.args.posonlyargs + fn.args.args + fn.args.kwonlyargs}
    if fn.args.vararg:
        params.add(fn.args.vararg.arg)
    if fn.args.kwarg:
        params.add(fn.args.kwarg.arg)
    out, excluded = set(), set(params)
    stack = list(fn.body)
    while stack:
        n = stack.pop()
        if isinstance(n, (ast.FunctionDef, ast.AsyncFunctionDef, ast.ClassDef)):
            excluded.add(n.name)
            continue
        if isinstance(n, ast.Lambda):
            continue
        if isinstance(n, (ast.Global, ast.Nonlocal)):
            excluded |= set(n.names)
        if isinstance(n, ast.Name) and isinstance(n.ctx, (ast.Store, ast.Del)):
            out.add(n.id)
        if isinstance(n, ast.ExceptHandler) and n.name:
            excluded.add(n.name)
        if isinstance(n, (ast.Import, ast.ImportFrom)):
            for a in n.names:
                excluded.add((a.asname or a.name).split(".")[0])
        stack.extend(ast.iter_child_nodes(n))
    return out - excluded


def _free_in_nested(fn, names):
    """Locals of fn that nested functions/classes/lambdas/comprehensions
    refer to (renaming them needs care; we rename consistently inside)."""
    return set()


class _Renamer(ast.NodeTransformer):
    """Rename the given names throughout a function body, including nested
    scopes that do not rebind them."""

    def __init__(self, mapping):
        self.m = mapping

    def visit_Name(self, node):
        if node.id in self.m:
            node.id = self.m[node.id]
        return node

    def _nested(self, node):
        # a nested scope that assigns the same name has its own variable
        own = set()
        if isinstance(node, (ast.FunctionDef, ast.Lambda)):
            a = node.args
            own |= {x.arg for x in a.posonlyargs + a.args + a.kwonlyargs}
            if a.vararg:
                own.add(a.vararg.arg)
            if a.kwarg:
                own.add(a.kwarg.arg)
        if isinstance(node, ast.FunctionDef):
            own |= _locals_of(node)
        if isinstance(node, ast.ClassDef):
            for st in node.body:
                for t in getattr(st, "targets", []):
                    if isinstance(t, ast.Name):
                        own.add(t.id)
        saved = self.m
        self.m = {k: v for k, v in saved.items() if k not in own}
        self.generic_visit(node)
        self.m = saved
        return node

    visit_FunctionDef = _nested
    visit_Lambda = _nested
    visit_ClassDef = _nested


def rename(src, suffix="_rn"):
    tree = ast.parse(src)
    for fn in [n for n in ast.walk(tree) if isinstance(n, ast.FunctionDef)]:
        names = {n for n in _locals_of(fn) if not n.startswith("__")
                 and n not in BUILTINS and n != "_"}
        if not names:
            continue
        mapping = {n: n + suffix for n in names}
        r = _Renamer(mapping)
        fn.body = [r.visit(st) for st in fn.body]
    return ast.unparse(tree) + "\n"


def unparse(src):
    return ast.unparse(ast.parse(src)) + "\n"


def noop(src):
    tree = ast.parse(src)
    for fn in [n for n in ast.walk(tree) if isinstance(n, ast.FunctionDef)]:
        new = []
        for i, st in enumerate(fn.body):
            if not (i == 0 and isinstance(st, ast.Expr) and
                    isinstance(st.value, ast.Constant)):
                new.append(ast.Pass())
            new.append(st)
        fn.body = new
    ast.fix_missing_locations(tree)
    return ast.unparse(tree) + "\n"


def flipif(src):
    class F(ast.NodeTransformer):
        def visit_If(self, node):
            self.generic_visit(node)
            if node.orelse and not (len(node.orelse) == 1 and
                                    isinstance(node.orelse[0], ast.If)):
                t = node.test
                if isinstance(t, ast.UnaryOp) and isinstance(t.op, ast.Not):
                    nt = t.operand
                else:
                    nt = ast.UnaryOp(op=ast.Not(), operand=t)
                return ast.If(test=nt, body=node.orelse, orelse=node.body)
            return node
    tree = F().visit(ast.parse(src))
    ast.fix_missing_locations(tree)
    return ast.unparse(tree) + "\n"


_FLIP = {ast.Lt: ast.Gt, ast.Gt: ast.Lt, ast.LtE: ast.GtE, ast.GtE: ast.LtE,
         ast.Eq: ast.Eq, ast.NotEq: ast.NotEq}


def flipcmp(src):
    def simple(e):
        return not any(isinstance(x, (ast.Call, ast.Yield, ast.Await, ast.NamedExpr))
                       for x in ast.walk(e))

    class F(ast.NodeTransformer):
        def visit_Compare(self, node):
            self.generic_visit(node)
            if len(node.ops) == 1 and type(node.ops[0]) in _FLIP and \
                    simple(node.left) and simple(node.comparators[0]):
                return ast.Compare(left=node.comparators[0],
                                   ops=[_FLIP[type(node.ops[0])]()],
                                   comparators=[node.left])
            return node
    tree = F().visit(ast.parse(src))
    ast.fix_missing_locations(tree)
    return ast.unparse(tree) + "\n"


def temps(src):
    class F(ast.NodeTransformer):
        def __init__(self):
            self.k = 0

        def visit_FunctionDef(self, node):
            self.generic_visit(node)
            is_gen = any(isinstance(x, (ast.Yield, ast.YieldFrom))
                         for x in ast.walk(node))
            node.body = self._block(node.body, is_gen)
            return node

        def _block(self, stmts, is_gen):
            out = []
            for st in stmts:
                for f in ("body", "orelse", "finalbody"):
                    b = getattr(st, f, None)
                    if isinstance(b, list) and b and isinstance(b[0], ast.stmt) and \
                            not isinstance(st, (ast.FunctionDef, ast.ClassDef)):
                        setattr(st, f, self._block(b, is_gen))
                if isinstance(st, ast.Return) and isinstance(
                        st.value, (ast.Call, ast.BinOp)) and not is_gen:
                    self.k += 1
                    nm = "_rv%d" % self.k
                    out.append(ast.Assign(targets=[ast.Name(id=nm, ctx=ast.Store())],
                                          value=st.value))
                    out.append(ast.Return(value=ast.Name(id=nm, ctx=ast.Load())))
                else:
                    out.append(st)
            return out
    tree = F().visit(ast.parse(src))
    ast.fix_missing_locations(tree)
    return ast.unparse(tree) + "\n"


def _leaves(stmts):
    if not stmts:
        return False
    last = stmts[-1]
    if isinstance(last, (ast.Return, ast.Raise, ast.Continue, ast.Break)):
        return True
    if isinstance(last, ast.If) and last.orelse:
        return _leaves(last.body) and _leaves(last.orelse)
    return False


def _map_blocks(tree, fn):
    """Apply fn(list of stmts) -> list of stmts to every statement block,
    innermost first."""
    for n in ast.walk(tree):
        pass
    def rec(node):
        for fld in ("body", "orelse", "finalbody"):
            b = getattr(node, fld, None)
            if isinstance(b, list) and b and isinstance(b[0], ast.stmt):
                for st in b:
                    rec(st)
                setattr(node, fld, fn(b))
        if isinstance(node, ast.Try):
            for h in node.handlers:
                rec(h)
    rec(tree)
    return tree


def unelse(src):
    """`if c: <leaves> else: B`  ->  `if c: <leaves>` followed by B."""
    def fn(stmts):
        out = []
        for st in stmts:
            if isinstance(st, ast.If) and st.orelse and _leaves(st.body):
                rest, st.orelse = st.orelse, []
                out.append(st)
                out.extend(rest)
            else:
                out.append(st)
        return out
    tree = _map_blocks(ast.parse(src), fn)
    ast.fix_missing_locations(tree)
    return ast.unparse(tree) + "\n"


def addelse(src):
    """`if c: <leaves>` followed by rest  ->  `if c: <leaves> else: rest`."""
    def fn(stmts):
        for i, st in enumerate(stmts):
            if isinstance(st, ast.If) and not st.orelse and _leaves(st.body) and \
                    stmts[i + 1:] and not any(
                        isinstance(x, (ast.FunctionDef, ast.ClassDef, ast.Import,
                                       ast.ImportFrom, ast.Global, ast.Nonlocal))
                        for x in stmts[i + 1:]):
                st.orelse = fn(stmts[i + 1:])
                return stmts[:i + 1]
        return stmts
    tree = _map_blocks(ast.parse(src), fn)
    ast.fix_missing_locations(tree)
    return ast.unparse(tree) + "\n"


def condtemp(src):
    """`if <bool op / comparison>:` -> `_c = <..>` ; `if _c:` (not for elif
    heads, whose evaluation would move in front of the chain)."""
    class K:
        k = 0

    def fn(stmts):
        out = []
        for st in stmts:
            if isinstance(st, ast.If) and isinstance(st.test, (ast.BoolOp, ast.Compare)) \
                    and not any(isinstance(x, (ast.NamedExpr, ast.Yield, ast.Await))
                                for x in ast.walk(st.test)):
                K.k += 1
                nm = "_cnd%d" % K.k
                out.append(ast.Assign(targets=[ast.Name(id=nm, ctx=ast.Store())],
                                      value=st.test))
                st.test = ast.Name(id=nm, ctx=ast.Load())
            out.append(st)
        return out
    tree = ast.parse(src)
    # only inside functions
    for fnode in [n for n in ast.walk(tree) if isinstance(n, ast.FunctionDef)]:
        _map_blocks(fnode, fn)
    ast.fix_missing_locations(tree)
    return ast.unparse(tree) + "\n"


def argtemp(src):
    """`obj.meth(<call or arithmetic>)` as a statement ->
    `_a = <..>` ; `obj.meth(_a)` (first such positional argument)."""
    class K:
        k = 0

    def fn(stmts):
        out = []
        for st in stmts:
            if isinstance(st, ast.Expr) and isinstance(st.value, ast.Call) and \
                    isinstance(st.value.func, ast.Attribute) and \
                    isinstance(st.value.func.value, (ast.Name, ast.Attribute)) and \
                    not any(isinstance(x, (ast.Yield, ast.Await, ast.NamedExpr, ast.Lambda))
                            for x in ast.walk(st.value)):
                for i, a in enumerate(st.value.args):
                    if isinstance(a, (ast.Call, ast.BinOp)) and \
                            all(not isinstance(b, ast.Starred) for b in st.value.args[:i + 1]) \
                            and all(isinstance(b, (ast.Name, ast.Constant))
                                    for b in st.value.args[:i]):
                        K.k += 1
                        nm = "_arg%d" % K.k
                        out.append(ast.Assign(targets=[ast.Name(id=nm, ctx=ast.Store())],
                                              value=a))
                        st.value.args[i] = ast.Name(id=nm, ctx=ast.Load())
                        break
            out.append(st)
        return out
    tree = ast.parse(src)
    for fnode in [n for n in ast.walk(tree) if isinstance(n, ast.FunctionDef)]:
        _map_blocks(fnode, fn)
    ast.fix_missing_locations(tree)
    return ast.unparse(tree) + "\n"


def augexpand(src):
    """`n += <int literal>` -> `n = n + <int literal>` (plain names only)."""
    class F(ast.NodeTransformer):
        def visit_AugAssign(self, node):
            if isinstance(node.target, ast.Name) and isinstance(node.op, (ast.Add, ast.Sub)) \
                    and isinstance(node.value, ast.Constant) and \
                    type(node.value.value) is int:
                return ast.Assign(
                    targets=[ast.Name(id=node.target.id, ctx=ast.Store())],
                    value=ast.BinOp(left=ast.Name(id=node.target.id, ctx=ast.Load()),
                                    op=node.op, right=node.value))
            return node
    tree = F().visit(ast.parse(src))
    ast.fix_missing_locations(tree)
    return ast.unparse(tree) + "\n"


def loop2comp(src):
    """`L = []` directly followed by `for T in IT: L.append(E)` (nothing else
    in the loop, E and IT do not mention L) -> `L = [E for T in IT]`."""
    def names(n):
        return {x.id for x in ast.walk(n) if isinstance(x, ast.Name)}

    def fn(stmts):
        out = []
        i = 0
        while i < len(stmts):
            st = stmts[i]
            nx = stmts[i + 1] if i + 1 < len(stmts) else None
            if isinstance(st, ast.Assign) and len(st.targets) == 1 and \
                    isinstance(st.targets[0], ast.Name) and \
                    isinstance(st.value, ast.List) and not st.value.elts and \
                    isinstance(nx, ast.For) and not nx.orelse and len(nx.body) == 1 and \
                    isinstance(nx.body[0], ast.Expr) and \
                    isinstance(nx.body[0].value, ast.Call) and \
                    isinstance(nx.body[0].value.func, ast.Attribute) and \
                    nx.body[0].value.func.attr == "append" and \
                    isinstance(nx.body[0].value.func.value, ast.Name) and \
                    nx.body[0].value.func.value.id == st.targets[0].id and \
                    len(nx.body[0].value.args) == 1 and not nx.body[0].value.keywords:
                L = st.targets[0].id
                E = nx.body[0].value.args[0]
                if L not in names(E) | names(nx.iter) | names(nx.target) and \
                        not any(isinstance(x, (ast.Yield, ast.YieldFrom, ast.Await,
                                               ast.NamedExpr)) for x in ast.walk(E)):
                    comp = ast.ListComp(elt=E, generators=[ast.comprehension(
                        target=nx.target, iter=nx.iter, ifs=[], is_async=0)])
                    out.append(ast.Assign(targets=[ast.Name(id=L, ctx=ast.Store())],
                                          value=comp))
                    i += 2
                    continue
            out.append(st)
            i += 1
        return out
    tree = _map_blocks(ast.parse(src), fn)
    ast.fix_missing_locations(tree)
    return ast.unparse(tree) + "\n"


def andsplit(src):
    """`if a and b: S` (no else, not an elif) -> `if a:` `if b: S`."""
    def fn(stmts):
        out = []
        for st in stmts:
            if isinstance(st, ast.If) and not st.orelse and isinstance(st.test, ast.BoolOp) \
                    and isinstance(st.test.op, ast.And) and len(st.test.values) == 2:
                inner = ast.If(test=st.test.values[1], body=st.body, orelse=[])
                st = ast.If(test=st.test.values[0], body=[inner], orelse=[])
            out.append(st)
        return out
    tree = _map_blocks(ast.parse(src), fn)
    ast.fix_missing_locations(tree)
    return ast.unparse(tree) + "\n"


def retifexp(src):
    """`if c: return A` directly followed by `return B` -> `return A if c else B`."""
    def fn(stmts):
        out = []
        i = 0
        while i < len(stmts):
            st = stmts[i]
            nx = stmts[i + 1] if i + 1 < len(stmts) else None
            if isinstance(st, ast.If) and not st.orelse and len(st.body) == 1 and \
                    isinstance(st.body[0], ast.Return) and st.body[0].value is not None and \
                    isinstance(nx, ast.Return) and nx.value is not None and \
                    not any(isinstance(x, ast.Starred) for x in
                            ast.walk(st.body[0].value)) and \
                    not any(isinstance(x, ast.Starred) for x in ast.walk(nx.value)):
                out.append(ast.Return(value=ast.IfExp(test=st.test, body=st.body[0].value,
                                                      orelse=nx.value)))
                i += 2
                continue
            out.append(st)
            i += 1
        return out
    tree = _map_blocks(ast.parse(src), fn)
    ast.fix_missing_locations(tree)
    return ast.unparse(tree) + "\n"


def comp2loop(src):
    """`L = [E for T in IT]` (a whole statement, one generator, no filter,
    L not used inside)  ->  `L = []` ; `for T in IT: L.append(E)`."""
    def names(n):
        return {x.id for x in ast.walk(n) if isinstance(x, ast.Name)}

    def fn(stmts):
        out = []
        for st in stmts:
            v = getattr(st, "value", None)
            if isinstance(st, ast.Assign) and len(st.targets) == 1 and \
                    isinstance(st.targets[0], ast.Name) and isinstance(v, ast.ListComp) \
                    and len(v.generators) == 1 and not v.generators[0].ifs and \
                    not v.generators[0].is_async and st.targets[0].id not in names(v):
                L = st.targets[0].id
                g = v.generators[0]
                # the comprehension variable is local to the comprehension:
                # keep it out of the way of the function's names
                tnames = sorted(names(g.target))
                ren = {t: "%s_c2l" % t for t in tnames}

                class R(ast.NodeTransformer):
                    def visit_Name(self, n):
                        if n.id in ren:
                            return ast.copy_location(ast.Name(id=ren[n.id], ctx=n.ctx), n)
                        return n
                tgt = R().visit(g.target)
                elt = R().visit(v.elt)
                out.append(ast.Assign(targets=[ast.Name(id=L, ctx=ast.Store())],
                                      value=ast.List(elts=[], ctx=ast.Load())))
                call = ast.Call(func=ast.Attribute(value=ast.Name(id=L, ctx=ast.Load()),
                                                   attr="append", ctx=ast.Load()),
                                args=[elt], keywords=[])
                out.append(ast.For(target=tgt, iter=g.iter, body=[ast.Expr(value=call)],
                                   orelse=[]))
                continue
            out.append(st)
        return out
    tree = _map_blocks(ast.parse(src), fn)
    ast.fix_missing_locations(tree)
    return ast.unparse(tree) + "\n"


def stmt2ifexp(src):
    """`if c: x = A else: x = B` (same plain target, single statements) ->
    `x = A if c else B`."""
    def fn(stmts):
        out = []
        for st in stmts:
            if isinstance(st, ast.If) and len(st.body) == 1 and len(st.orelse) == 1 and \
                    isinstance(st.body[0], ast.Assign) and isinstance(st.orelse[0], ast.Assign) \
                    and len(st.body[0].targets) == 1 and len(st.orelse[0].targets) == 1 and \
                    isinstance(st.body[0].targets[0], ast.Name) and \
                    isinstance(st.orelse[0].targets[0], ast.Name) and \
                    st.body[0].targets[0].id == st.orelse[0].targets[0].id and \
                    not isinstance(st.body[0].value, ast.Starred):
                out.append(ast.Assign(
                    targets=[ast.Name(id=st.body[0].targets[0].id, ctx=ast.Store())],
                    value=ast.IfExp(test=st.test, body=st.body[0].value,
                                    orelse=st.orelse[0].value)))
                continue
            out.append(st)
        return out
    tree = _map_blocks(ast.parse(src), fn)
    ast.fix_missing_locations(tree)
    return ast.unparse(tree) + "\n"


def demorgan(src):
    """`if A and B:` -> `if not (not A or not B):` and `if A or B:` ->
    `if not (not A and not B):` (tests of if / while statements)."""
    class F(ast.NodeTransformer):
        def fix(self, t):
            if isinstance(t, ast.BoolOp):
                other = ast.Or() if isinstance(t.op, ast.And) else ast.And()
                return ast.UnaryOp(op=ast.Not(), operand=ast.BoolOp(
                    op=other, values=[ast.UnaryOp(op=ast.Not(), operand=v) for v in t.values]))
            return t

        def visit_If(self, node):
            self.generic_visit(node)
            node.test = self.fix(node.test)
            return node

        def visit_While(self, node):
            self.generic_visit(node)
            node.test = self.fix(node.test)
            return node
    tree = F().visit(ast.parse(src))
    ast.fix_missing_locations(tree)
    return ast.unparse(tree) + "\n"


ALL = {"comp2loop": comp2loop, "stmt2ifexp": stmt2ifexp, "demorgan": demorgan,
       "loop2comp": loop2comp, "andsplit": andsplit, "retifexp": retifexp,
       "unparse": unparse, "rename": rename, "noop": noop, "flipif": flipif,
       "flipcmp": flipcmp, "temps": temps, "unelse": unelse, "addelse": addelse, "condtemp": condtemp, "argtemp": argtemp, "augexpand": augexpand}
