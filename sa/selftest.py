"""Thorough-tier self-validation of the checkers (DESIGN.md section 5).
Filled in by sa/variants.py; `attach` is a no-op until variants exist."""


def attach(ctx, mod):
    try:
        from . import variants
    except ImportError:
        return
    variants.attach(ctx, mod)
