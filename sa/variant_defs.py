"""Variants of the current tree used to test the checkers both ways.

kind 'fire'   : a property-breaking edit that still compiles; the named rule
                must report it.
kind 'silent' : a behaviour-preserving refactoring; no rule may report it.
Each edit replaces exactly `count` (default 1) occurrences of `old`.
"""

F = "core/fiber.py"
I = "core/iterators.py"
T = "core/tensor.py"
R = "core/rank.py"
RA = "core/rank_attrs.py"
P = "core/payload.py"
CP = "core/coord_payload.py"
M = "core/metrics.py"

VARIANTS = {}


def v(prop, name, kind, file, old, new, rule=None, count=1):
    VARIANTS.setdefault(prop, []).append(
        {"name": name, "kind": kind, "file": file, "old": old, "new": new,
         "expect_rule": rule, "count": count})


# ---------------------------------------------------------------- C01
v("C01", "create_payload-drops-payload-insert", "fire", F,
  "        self.coords.insert(pos, coord)\n        self.payloads.insert(pos, payload)\n",
  "        self.coords.insert(pos, coord)\n", "C01.R2")
v("C01", "populate-del-only-coords", "fire", I,
  "                    del self.a_fiber.payloads[index]\n", "", "C01.R2")
v("C01", "append-unboxed", "fire", F,
  "        payload = Payload.maybe_box(value)\n\n        self.coords.append(coord)",
  "        payload = value\n\n        self.coords.append(coord)", "C01.R3")
v("C01", "setitem-unboxed", "fire", F,
  "            self.payloads[position] = Payload.maybe_box(payload)",
  "            self.payloads[position] = payload", "C01.R3")
v("C01", "coord2pos-bisect-right", "fire", F,
  "                index = bisect.bisect_left(coords, coord)",
  "                index = bisect.bisect_right(coords, coord)", "C01.R4")
v("C01", "append-assert-le", "fire", F,
  "            assert self.maxCoord() is None or self.maxCoord() < coord, \\",
  "            assert self.maxCoord() is None or self.maxCoord() <= coord, \\", "C01.R4")
v("C01", "setitem-neighbour-strict", "fire", F,
  "                if position > 0 and coord <= self.coords[position - 1]:",
  "                if position > 0 and coord < self.coords[position - 1]:", "C01.R4")
v("C01", "setitem-write-between-checks", "fire", F,
  "                    raise CoordinateError\n\n                if position + 1 < len(self.coords)",
  "                    raise CoordinateError\n\n                self.coords[position] = coord\n                if position + 1 < len(self.coords)", "C01.R5")
v("C01", "setitem-payload-before-coord-check", "fire", F,
  "        if coord is not None:\n            #\n            # Check that coordinate order is maintained",
  "        if payload is not None:\n            self.payloads[position] = Payload.maybe_box(payload)\n        if coord is not None:\n            #\n            # Check that coordinate order is maintained", "C01.R5")
v("C01", "getPayloadRef-no-existence-guard", "fire", F,
  "        if self._coordExists(coords[0], index):\n            payload = self.payloads[index]\n        else:\n            payload = self._create_payload(coords[0])",
  "        payload = self._create_payload(coords[0])", "C01.R4")
v("C01", "populate-bisect-right", "fire", I,
  "                    a_pos += bisect.bisect_left(self.a_fiber.coords[a_pos:], b_coord)",
  "                    a_pos += bisect.bisect_right(self.a_fiber.coords[a_pos:], b_coord)", "C01.R4")
v("C01", "checkOrdered-strict", "fire", F,
  "            if c <= last:\n                assert False, \"Illegal non-monotonic coordinate\"",
  "            if c < last:\n                assert False, \"Illegal non-monotonic coordinate\"", "C01.R4")
v("C01", "tensor-raw-write", "fire", T,
  "        self._root = root\n",
  "        self._root = root\n        root.coords.sort()\n", "C01.R1")
v("C01", "updateCoords-no-resort", "fire", F,
  "        if self._ordered and not no_sort_needed:",
  "        if False and self._ordered and not no_sort_needed:", "C01.R4")
v("C01", "setattr-double-box", "fire", P,
  "        if isinstance(value, Payload):\n            value = value.v()\n",
  "", "C01.R3")
v("C01", "silent-append-temp-maxcoord", "silent", F,
  "            assert self.maxCoord() is None or self.maxCoord() < coord, \\",
  "            cur_max = self.maxCoord()\n            assert cur_max is None or cur_max < coord, \\")
v("C01", "silent-create_payload-rename", "silent", F,
  "        self.coords.insert(pos, coord)\n        self.payloads.insert(pos, payload)\n",
  "        where = pos\n        self.coords.insert(where, coord)\n        self.payloads.insert(where, payload)\n")
v("C01", "silent-setitem-flip-compare", "silent", F,
  "                if position > 0 and coord <= self.coords[position - 1]:",
  "                if position > 0 and self.coords[position - 1] >= coord:")
v("C01", "silent-clear-reorder", "silent", F,
  "        self.coords.clear()\n        self.payloads.clear()",
  "        self.payloads.clear()\n        self.coords.clear()")

# ---------------------------------------------------------------- C02
v("C02", "getPayload-registers-default", "fire", F,
  "            payload = self._createDefault(addtorank=False)\n            const_used",
  "            payload = self._createDefault()\n            const_used", "C02.R2")
v("C02", "create_payload-unregistered-insert", "fire", F,
  "        if payload is None:\n            payload = self._createDefault()\n",
  "        if payload is None:\n            payload = self._createDefault(addtorank=False)\n", "C02.R2")
v("C02", "populate-no-rank-pop", "fire", I,
  "                        popped = self.a_fiber.getOwner().getNextRank().pop()\n",
  "                        popped = a_payload\n", "C02.R3")
v("C02", "addFiber-filtered-iteration", "fire", T,
  "        for p in fiber.getPayloads():\n            if Payload.contains(p, Fiber):",
  "        for _, p in fiber:\n            if Payload.contains(p, Fiber):", "C02.R5")
v("C02", "addFiber-same-level", "fire", T,
  "                self._addFiber(Payload.get(p), level + 1)",
  "                self._addFiber(Payload.get(p), level)", "C02.R5")
v("C02", "setRoot-no-clear", "fire", T,
  "        for r in self.ranks:\n            r.clearFibers()\n\n        self._addFiber(root)",
  "        self._addFiber(root)", "C02.R5")
v("C02", "setRoot-clears-first-rank-only", "fire", T,
  "        for r in self.ranks:\n            r.clearFibers()\n\n        self._addFiber(root)",
  "        for r in self.ranks[:1]:\n            r.clearFibers()\n\n        self._addFiber(root)", "C02.R5")
v("C02", "rank-pop-keeps-owner", "fire", R,
  "        fiber = self.fibers.pop()\n        fiber.setOwner(None)\n",
  "        fiber = self.fibers.pop()\n", "C02.R4")
v("C02", "rank-append-no-owner", "fire", R,
  "        fiber.setOwner(self)\n", "", "C02.R4")
v("C02", "tensor-pops-rank-list", "fire", T,
  "        for rank in self.ranks:\n            for fiber in rank.getFibers():\n                fiber.clearStats()",
  "        for rank in self.ranks:\n            fibers = rank.getFibers()\n            for fiber in fibers:\n                fiber.clearStats()\n            if len(fibers) > 100000:\n                fibers.pop()", "C02.R1")
v("C02", "instantiateDefault-always-registers", "fire", F,
  "                    if addtorank:\n", "                    if addtorank or default is Fiber:\n", "C02.R2")
v("C02", "copy-no-reattach", "fire", F,
  "            self._attach_owner(owners)\n            copied._attach_attrs(owners)",
  "            copied._attach_attrs(owners)", "C02.R4")
v("C02", "fiber-append-registers", "fire", F,
  "        payload = Payload.maybe_box(value)\n\n        self.coords.append(coord)",
  "        payload = Payload.maybe_box(value)\n        if isinstance(payload, Fiber) and self.getOwner() is not None:\n            self.getOwner().getNextRank().append(payload)\n\n        self.coords.append(coord)", "C02.R1")
v("C02", "silent-populate-temp-rank", "silent", I,
  "                        popped = self.a_fiber.getOwner().getNextRank().pop()\n",
  "                        next_rank = self.a_fiber.getOwner().getNextRank()\n                        popped = next_rank.pop()\n")
v("C02", "silent-addFiber-raw-attr", "silent", T,
  "        for p in fiber.getPayloads():\n            if Payload.contains(p, Fiber):",
  "        for p in fiber.payloads:\n            if Payload.contains(p, Fiber):")
v("C02", "silent-create_payload-temp", "silent", F,
  "        if payload is None:\n            payload = self._createDefault()\n",
  "        if payload is None:\n            fresh = self._createDefault()\n            payload = fresh\n")

# ---------------------------------------------------------------- C10
v("C10", "splitGeneric-no-copy", "fire", F,
  "        fiber = copy.deepcopy(self)\n\n        if depth == 0:\n            return fiber._splitFiber(splitter)",
  "        fiber = self\n\n        if depth == 0:\n            return fiber._splitFiber(splitter)")
v("C10", "mergeRanks-no-copy", "fire", F,
  "        # Ensure that we only deepcopy once\n        copied = copy.deepcopy(self)\n", "        copied = self\n")
v("C10", "getPayload-registers-default", "fire", F,
  "            payload = self._createDefault(addtorank=False)\n            const_used",
  "            payload = self._createDefault()\n            const_used", "C10.R1")
v("C10", "getDefault-shared-box", "fire", RA,
  "        return deepcopy(self._default)", "        return self._default", "C10.R5")
v("C10", "setRoot-adopts-owned-root", "fire", T,
  "        if root.getOwner() is not None:\n            root = deepcopy(root.copy(preserve_owner=False))\n",
  "", "C10.R4")
v("C10", "iterRangeShape-inserts", "fire", I,
  "        p = self.getPayload(c)\n\n        # Keep the current point",
  "        p = self.getPayloadRef(c)\n\n        # Keep the current point", "C10.R1")
v("C10", "swizzle-no-copy", "fire", T,
  "        copied = copy.deepcopy(self)\n\n        if old_rank_ids == rank_ids:",
  "        copied = self\n\n        if old_rank_ids == rank_ids:")
v("C10", "tensor-updatePayloads-in-place", "fire", T,
  "        new_tensor = copy.deepcopy(self)\n\n        new_tensor.getRoot().updatePayloads(",
  "        new_tensor = self\n\n        new_tensor.getRoot().updatePayloads(")
v("C10", "fiber-deepcopy-shallow", "fire", F,
  "        The no_owner parameter means that the owning rank is not copied\n        \"\"\"\n        return pickle.loads(pickle.dumps(self))",
  "        The no_owner parameter means that the owning rank is not copied\n        \"\"\"\n        return copy.copy(self)", "C10.R4")
v("C10", "countValues-resets-active", "fire", F,
  "        count = 0\n        for p in self.payloads:",
  "        count = 0\n        self.setActive(None)\n        for p in self.payloads:", "C10.R1")
v("C10", "eq-via-populate", "fire", F,
  "        for c, (mask, ps, po) in self | other:\n            if mask == \"A\":",
  "        for c, (ps, po) in self << other:\n            mask = \"AB\"\n            if mask == \"A\":", "C10.R1")
v("C10", "add-shares-payload", "fire", F,
  "                coords.append(c)\n                payloads.append(self_val + other_val)",
  "                coords.append(c)\n                payloads.append(self_val if _ == \"A\" else self_val + other_val)", "C10.R3")
v("C10", "render-fills-tensor", "fire", "graphics/uncompressed_image.py",
  "for coord, payload in fiber.iterUncompressed():", "for coord, payload in fiber.iterShapeRef():", "C10.R1")
v("C10", "silent-splitGeneric-pickle", "silent", F,
  "        fiber = copy.deepcopy(self)\n\n        if depth == 0:\n            return fiber._splitFiber(splitter)",
  "        fiber = pickle.loads(pickle.dumps(self))\n\n        if depth == 0:\n            return fiber._splitFiber(splitter)")
v("C10", "silent-getPayload-positional-flag", "silent", F,
  "            payload = self._createDefault(addtorank=False)\n            const_used",
  "            payload = self._createDefault(False)\n            const_used")
v("C10", "silent-getDefault-temp", "silent", RA,
  "        return deepcopy(self._default)", "        dup = deepcopy(self._default)\n        return dup")

# ---------------------------------------------------------------- C03
v("C03", "getPayload-registers-default", "fire", F,
  "            payload = self._createDefault(addtorank=False)\n            const_used",
  "            payload = self._createDefault()\n            const_used", "C03.R1")
v("C03", "getPayload-inserts-default", "fire", F,
  "            payload = self._createDefault(addtorank=False)\n            const_used",
  "            payload = self._create_payload(coord0)\n            const_used", "C03.R1")
v("C03", "getPayloadRef-returns-copy", "fire", F,
  "        assert Payload.is_payload(payload)\n\n        return payload\n\n\n    def _create_payload",
  "        assert Payload.is_payload(payload)\n\n        return copy.deepcopy(payload)\n\n\n    def _create_payload", "C03.R2")
v("C03", "create_payload-returns-preinsert-default", "fire", F,
  "        payload = self.payloads[pos]\n\n        assert Payload.is_payload(payload)\n\n        return payload",
  "        payload = self._createDefault(addtorank=False)\n\n        assert Payload.is_payload(payload)\n\n        return payload", "C03.R2")
v("C03", "tensor-getPayloadRef-copies-rank0", "fire", T,
  "            # Handle rank-0 tensor\n            return root\n\n        return root.getPayloadRef(*args, **kwargs)",
  "            # Handle rank-0 tensor\n            return Payload(root.value)\n\n        return root.getPayloadRef(*args, **kwargs)", "C03.R2")
v("C03", "payload-iadd-no-return", "fire", P,
  "            if old != 0:\n                Metrics.incCount(\"Compute\", \"payload_add\", 1)\n\n        return self",
  "            if old != 0:\n                Metrics.incCount(\"Compute\", \"payload_add\", 1)\n", "C03.R3")
v("C03", "getPosition-creates", "fire", F,
  "        if not self._coordExists(coord, index):\n            index = None",
  "        if not self._coordExists(coord, index):\n            self._create_payload(coord)\n            index = None", "C03.R1")
v("C03", "silent-getPayloadRef-temp", "silent", F,
  "        if self._coordExists(coords[0], index):\n            payload = self.payloads[index]\n        else:\n            payload = self._create_payload(coords[0])",
  "        present = self._coordExists(coords[0], index)\n        if present:\n            payload = self.payloads[index]\n        else:\n            payload = self._create_payload(coords[0])")

# ---------------------------------------------------------------- C11
v("C11", "payload-le-is-lt", "fire", P,
  "            return self.value <= other.value\n", "            return self.value < other.value\n", "C11.R1")
v("C11", "payload-sub-swapped", "fire", P,
  "            ans = self.value - other.value\n", "            ans = other.value - self.value\n", "C11.R1")
v("C11", "payload-rsub-not-reflected", "fire", P,
  "        return Payload(other - self.value)", "        return Payload(self.value - other)", "C11.R1")
v("C11", "payload-mul-returns-raw", "fire", P,
  "            Metrics.incCount(\"Compute\", \"payload_mul\", 1)\n\n        return Payload(ans)",
  "            Metrics.incCount(\"Compute\", \"payload_mul\", 1)\n\n        return ans", "C11.R1")
v("C11", "payload-isub-adds", "fire", P,
  "            self.value = self.value - other\n", "            self.value = self.value + other\n", "C11.R1")
v("C11", "payload-ilshift-adds", "fire", P,
  "            self.value = other.value\n", "            self.value = self.value + other.value\n", "C11.R1")
v("C11", "cp-ge-is-gt", "fire", CP,
  "            return self.payload >= other.payload\n", "            return self.payload > other.payload\n", "C11.R2")
v("C11", "cp-rsub-not-reflected", "fire", CP,
  "        return other - self.payload", "        return self.payload - other", "C11.R2")
v("C11", "cp-imul-adds", "fire", CP,
  "            self.payload *= other\n", "            self.payload += other\n", "C11.R2")
v("C11", "cp-ilshift-adds-again", "fire", CP,
  "            self.payload <<= other\n", "            self.payload <<= self.payload + other\n", "C11.R2")
v("C11", "cp-iadd-returns-none", "fire", CP,
  "            self.payload += other\n\n        return self", "            self.payload += other\n", "C11.R3")
v("C11", "cp-py2-div-name", "fire", CP,
  "    def __truediv__(self, other):", "    def __div__(self, other):", "C11.R4")
v("C11", "payload-drop-itruediv", "fire", P,
  "    def __itruediv__(self, other):", "    def _itruediv_unused(self, other):", "C11.R4")
v("C11", "fiber-add-over-intersection", "fire", F,
  "            for c, (_, self_val, other_val) in self | other:", "            for c, (self_val, other_val) in self & other:", "C11.R5")
v("C11", "fiber-mul-over-union", "fire", F,
  "            for c, (a_val, b_val) in self & other:\n                coords.append(c)\n                payloads.append(a_val * b_val)",
  "            for c, (_, a_val, b_val) in self | other:\n                coords.append(c)\n                payloads.append(a_val * b_val)", "C11.R5")
v("C11", "fiber-radd-own", "fire", F,
  "        return self.__add__(other)", "        return self.__mul__(other)", "C11.R5")
v("C11", "fiber-iadd-scalar-no-ref", "fire", F,
  "        for c, p in self.iterShapeRef():\n            p += other", "        for c, p in self.iterShape():\n            p += other", "C11.R5")
v("C11", "silent-payload-add-temp", "silent", P,
  "            ans = self.value + other.value\n", "            rhs = other.value\n            ans = self.value + rhs\n")
v("C11", "silent-payload-eq-early", "silent", P,
  "        if isinstance(other, Payload):\n            return self.value == other.value\n\n        return self.value == other",
  "        if not isinstance(other, Payload):\n            return self.value == other\n\n        return self.value == other.value")

# ---------------------------------------------------------------- C04
v("C04", "or-lt-advances-b", "fire", I,
  "                    b_default = self.b_fiber._createDefault(addtorank=False)\n                    yield a_coord, (\"A\", a_payload, b_default)\n                    a_coord, a_payload = _get_next(a)\n\n                # a_coord > b_coord\n                else:\n                    if b_traced:",
  "                    b_default = self.b_fiber._createDefault(addtorank=False)\n                    yield a_coord, (\"A\", a_payload, b_default)\n                    b_coord, b_payload = _get_next(b)\n\n                # a_coord > b_coord\n                else:\n                    if b_traced:", "C04.R3")
v("C04", "and-lt-advances-both", "fire", I,
  "                    a_coord, a_payload = _get_next(a)\n\n                    continue\n\n                if a_coord > b_coord:",
  "                    a_coord, a_payload = _get_next(a)\n                    b_coord, b_payload = _get_next(b)\n\n                    continue\n\n                if a_coord > b_coord:", "C04.R3")
v("C04", "xor-eq-emits", "fire", I,
  "                if a_coord == b_coord:\n                    a_coord, a_payload = _get_next(a)\n                    b_coord, b_payload = _get_next(b)\n\n                elif a_coord < b_coord:\n                    b_default = self.b_fiber._createDefault(addtorank=False)\n                    yield a_coord, (\"A\", a_payload, b_default)",
  "                if a_coord == b_coord:\n                    yield a_coord, (\"AB\", a_payload, b_payload)\n                    a_coord, a_payload = _get_next(a)\n                    b_coord, b_payload = _get_next(b)\n\n                elif a_coord < b_coord:\n                    b_default = self.b_fiber._createDefault(addtorank=False)\n                    yield a_coord, (\"A\", a_payload, b_default)", "C04.R4")
v("C04", "sub-no-tail", "fire", I,
  "            while a_coord is not None:\n                yield a_coord, a_payload\n                a_coord, a_payload = _get_next(a)\n\n    result = self.fromIterator(sub_iterator",
  "    result = self.fromIterator(sub_iterator", "C04.R6")
v("C04", "sub-gt-emits", "fire", I,
  "                # a_coord > b_coord:\n                else:\n                    b_coord, b_payload = _get_next(b)",
  "                # a_coord > b_coord:\n                else:\n                    yield b_coord, b_payload\n                    b_coord, b_payload = _get_next(b)", "C04.R4")
v("C04", "or-mask-typo", "fire", I,
  "                    a_default = self.a_fiber._createDefault(addtorank=False)\n                    yield b_coord, (\"B\", a_default, b_payload)\n                    b_coord, b_payload = _get_next(b)\n\n            while a_coord is not None:\n                if a_traced:",
  "                    a_default = self.a_fiber._createDefault(addtorank=False)\n                    yield b_coord, (\"A\", a_default, b_payload)\n                    b_coord, b_payload = _get_next(b)\n\n            while a_coord is not None:\n                if a_traced:", "C04.R5")
v("C04", "or-default-from-wrong-operand", "fire", I,
  "            while a_coord is not None:\n                if a_traced:\n                    Metrics.addUse(rank, a_coord, a_pos, type_=a_trace)\n                    a_pos += 1\n\n                b_default = self.b_fiber._createDefault(addtorank=False)",
  "            while a_coord is not None:\n                if a_traced:\n                    Metrics.addUse(rank, a_coord, a_pos, type_=a_trace)\n                    a_pos += 1\n\n                b_default = self.a_fiber._createDefault(addtorank=False)", "C04.R5")
v("C04", "xor-slot-swapped", "fire", I,
  "            while b_coord is not None:\n                a_default = self.a_fiber._createDefault(addtorank=False)\n                yield b_coord, (\"B\", a_default, b_payload)",
  "            while b_coord is not None:\n                a_default = self.a_fiber._createDefault(addtorank=False)\n                yield b_coord, (\"B\", b_payload, a_default)", "C04.R5")
v("C04", "or-emits-wrong-coord", "fire", I,
  "                    yield a_coord, (\"A\", a_payload, b_default)\n                    a_coord, a_payload = _get_next(a)\n\n                # a_coord > b_coord\n                else:\n                    if b_traced:",
  "                    yield b_coord, (\"A\", a_payload, b_default)\n                    a_coord, a_payload = _get_next(a)\n\n                # a_coord > b_coord\n                else:\n                    if b_traced:", "C04.R5")
v("C04", "and-compare-le", "fire", I,
  "                if a_coord < b_coord:\n                    if a_traced:",
  "                if a_coord <= b_coord:\n                    if a_traced:", "C04.R2")
v("C04", "and-succ-next-lt-advances-a", "fire", I,
  "                def succ_next(a, a_coord, a_payload, b, b_coord, b_payload):\n                    return a_coord, a_payload, *_get_next(b)",
  "                def succ_next(a, a_coord, a_payload, b, b_coord, b_payload):\n                    return *_get_next(a), b_coord, b_payload", "C04.R3", )
v("C04", "and-succ-yield-shorter", "fire", I,
  "                def succ_yield(a_coord, b_coord):\n                    return b_coord",
  "                def succ_yield(a_coord, b_coord):\n                    return a_coord", "C04.R5")
v("C04", "xor-shared-default", "fire", I,
  "            while a_coord is not None:\n                b_default = self.b_fiber._createDefault(addtorank=False)\n                yield a_coord, (\"A\", a_payload, b_default)",
  "            b_default = self.b_fiber._createDefault(addtorank=False)\n            while a_coord is not None:\n                yield a_coord, (\"A\", a_payload, b_default)", "C04.R5")
v("C04", "or-registers-default", "fire", I,
  "                    a_default = self.a_fiber._createDefault(addtorank=False)\n                    yield b_coord, (\"B\", a_default, b_payload)\n                    b_coord, b_payload = _get_next(b)\n\n            while a_coord is not None:\n                if a_traced:",
  "                    a_default = self.a_fiber._createDefault()\n                    yield b_coord, (\"B\", a_default, b_payload)\n                    b_coord, b_payload = _get_next(b)\n\n            while a_coord is not None:\n                if a_traced:", "C04.R8")
v("C04", "get-next-raises", "fire", I,
  "    except StopIteration:\n        return (None, None)", "    except StopIteration:\n        raise", "C04.R1")
v("C04", "union-folds-xor", "fire", I,
  "    for arg in args[2:]:\n        nested_result = nested_result | arg", "    for arg in args[2:]:\n        nested_result = nested_result ^ arg", "C04.R1")
v("C04", "silent-sub-elif-to-if-continue", "silent", I,
  "                if a_coord == b_coord:\n                    a_coord, a_payload = _get_next(a)\n                    b_coord, b_payload = _get_next(b)\n\n                elif a_coord < b_coord:\n                    yield a_coord, a_payload\n                    a_coord, a_payload = _get_next(a)\n\n                # a_coord > b_coord:\n                else:\n                    b_coord, b_payload = _get_next(b)",
  "                if a_coord == b_coord:\n                    a_coord, a_payload = _get_next(a)\n                    b_coord, b_payload = _get_next(b)\n                    continue\n\n                if b_coord > a_coord:\n                    yield a_coord, a_payload\n                    a_coord, a_payload = _get_next(a)\n                    continue\n\n                if a_coord > b_coord:\n                    b_coord, b_payload = _get_next(b)\n                    continue")
v("C04", "silent-xor-reorder-advance", "silent", I,
  "                if a_coord == b_coord:\n                    a_coord, a_payload = _get_next(a)\n                    b_coord, b_payload = _get_next(b)\n\n                elif a_coord < b_coord:\n                    b_default = self.b_fiber._createDefault(addtorank=False)",
  "                if a_coord == b_coord:\n                    b_coord, b_payload = _get_next(b)\n                    a_coord, a_payload = _get_next(a)\n\n                elif a_coord < b_coord:\n                    b_default = self.b_fiber._createDefault(addtorank=False)")

# ---------------------------------------------------------------- C05
v("C05", "populate-skip-odd", "fire", I,
  "                yield b_coord, (a_payload, b_payload)\n",
  "                if b_pos % 2 == 0:\n                    yield b_coord, (a_payload, b_payload)\n", "C05.R1")
v("C05", "populate-yields-own-pos", "fire", I,
  "                yield b_coord, (a_payload, b_payload)\n",
  "                yield b_pos, (a_payload, b_payload)\n", "C05.R1")
v("C05", "populate-detached-default", "fire", I,
  "                    a_payload = self.a_fiber._create_payload(b_coord, pos=a_pos)\n",
  "                    a_payload = self.a_fiber._createDefault(addtorank=False)\n", "C05.R2")
v("C05", "populate-raw-source", "fire", I,
  "            b = self.b_fiber.__iter__(tick=False)\n\n            # Track the fiber position",
  "            b = zip(self.b_fiber.coords, self.b_fiber.payloads)\n\n            # Track the fiber position", "C05.R1")
v("C05", "populate-remove-unconditional", "fire", I,
  "                if maybe_remove and (isinstance(a_payload, type(self.a_fiber)) and \\\n                        len(a_payload) == 0) or \\\n                        (not isinstance(a_payload, type(self.a_fiber)) and \\\n                        a_payload == self.a_fiber.getDefault()):",
  "                if maybe_remove:", "C05.R3")
v("C05", "populate-no-decrement", "fire", I,
  "                    a_pos -= 1\n                    self.a_fiber.setSavedPos(a_pos)\n",
  "                    self.a_fiber.setSavedPos(a_pos)\n", "C05.R3")
v("C05", "populate-delete-at-apos", "fire", I,
  "                    index = bisect.bisect_left(self.a_fiber.coords, b_coord)\n",
  "                    index = a_pos\n", "C05.R3")
v("C05", "populate-no-rank-pop", "fire", I,
  "                        popped = self.a_fiber.getOwner().getNextRank().pop()\n",
  "                        popped = a_payload\n", "C05.R3")
v("C05", "populate-writes-source", "fire", I,
  "                yield b_coord, (a_payload, b_payload)\n",
  "                yield b_coord, (a_payload, b_payload)\n                self.b_fiber.setActive(None)\n", "C05.R4")
v("C05", "populate-active-from-self", "fire", I,
  "    self.setActive(other.getActive())\n", "    self.setActive(self.getActive())\n", "C05.R5")
v("C05", "populate-result-range-from-self", "fire", I,
  "    fiber = self.fromIterator(lshift_iterator, active_range=other.getActive())",
  "    fiber = self.fromIterator(lshift_iterator, active_range=self.getActive())", "C05.R5")
v("C05", "silent-populate-temp-index", "silent", I,
  "                    index = bisect.bisect_left(self.a_fiber.coords, b_coord)\n                    del self.a_fiber.coords[index]\n                    del self.a_fiber.payloads[index]",
  "                    where = bisect.bisect_left(self.a_fiber.coords, b_coord)\n                    del self.a_fiber.coords[where]\n                    del self.a_fiber.payloads[where]")

# ---------------------------------------------------------------- C07
v("C07", "iterRange-end-inclusive", "fire", I,
  "        if end is not None and coord >= end:\n            break",
  "        if end is not None and coord > end:\n            break", "C07.R4")
v("C07", "iterRange-start-exclusive", "fire", I,
  "        elif start is None or coord >= start:", "        elif start is None or coord > start:", "C07.R4")
v("C07", "iterRange-literal-zero-default", "fire", I,
  "            if not Payload.isEmpty(payload, default=self.getDefault()):\n                if start_pos is not None:",
  "            if not Payload.isEmpty(payload):\n                if start_pos is not None:", "C07.R4")
v("C07", "iterShape-off-by-one", "fire", I,
  "    return self.iterRangeShape(0, self.getShape(all_ranks=False), tick=tick)",
  "    return self.iterRangeShape(1, self.getShape(all_ranks=False), tick=tick)", "C07.R1")
v("C07", "iterActive-drops-startpos", "fire", I,
  "    return self.iterRange(*self.getActive(), tick=tick, start_pos=start_pos)",
  "    return self.iterRange(*self.getActive(), tick=tick)", "C07.R1")
v("C07", "iterOccupancy-uses-active", "fire", I,
  "    return self.iterRange(None, None, tick=tick, start_pos=start_pos)",
  "    return self.iterRange(*self.getActive(), tick=tick, start_pos=start_pos)", "C07.R1")
v("C07", "iterShapeRef-not-ref", "fire", I,
  "    return self.iterRangeShapeRef(0, self.getShape(all_ranks=False), tick=tick)",
  "    return self.iterRangeShape(0, self.getShape(all_ranks=False), tick=tick)", "C07.R1")
v("C07", "iterRangeShape-inserts", "fire", I,
  "        p = self.getPayload(c)\n\n        # Keep the current point",
  "        p = self.getPayloadRef(c)\n\n        # Keep the current point", "C07.R2")
v("C07", "iterRangeShapeRef-no-insert", "fire", I,
  "        p = self.getPayloadRef(c)\n        yield CoordPayload(c, p)",
  "        p = self.getPayload(c)\n        yield CoordPayload(c, p)", "C07.R2")
v("C07", "coiterRef-reads", "fire", I,
  "                payloads = tuple(fiber.getPayloadRef(c) for fiber in self.fibers_)",
  "                payloads = tuple(fiber.getPayload(c) for fiber in self.fibers_)", "C07.R2")
v("C07", "iter-format-swapped", "fire", I,
  "    if fmt == \"C\":\n        return self.iterOccupancy(tick, start_pos=start_pos)\n    elif fmt == \"U\":",
  "    if fmt == \"U\":\n        return self.iterOccupancy(tick, start_pos=start_pos)\n    elif fmt == \"C\":", "C07.R3")
v("C07", "iter-uncompressed-whole-shape", "fire", I,
  "        return self.iterActiveShape(tick)\n    else:\n        raise ValueError",
  "        return self.iterShape(tick)\n    else:\n        raise ValueError", "C07.R3")
v("C07", "and-fromIterator-instance", "fire", I,
  "    fiber = self.fromIterator(and_iterator, active_range=self.getActive())",
  "    fiber = self.fromIterator(and_iterator(), active_range=self.getActive())", "C07.R5")
v("C07", "iterRange-shared-stream", "fire", I,
  "        iter_ = self.iter()\n        i = 0", "        iter_ = self.iter\n        i = 0", "C07.R5")
v("C07", "coiterActiveShape-uses-shape", "fire", I,
  "    return type(fibers[0]).coiterRangeShape(fibers, *fibers[0].getActive())",
  "    return type(fibers[0]).coiterRangeShape(fibers, 0, fibers[0].getShape(all_ranks=False))", "C07.R1", count=1)
v("C07", "silent-iterRange-flip", "silent", I,
  "        if end is not None and coord >= end:\n            break",
  "        if end is not None and end <= coord:\n            break")
v("C07", "silent-iterShape-keywords", "silent", I,
  "    return self.iterRangeShape(0, self.getShape(all_ranks=False), tick=tick)",
  "    return self.iterRangeShape(start=0, end=self.getShape(all_ranks=False), tick=tick)")

# ---------------------------------------------------------------- C12
v("C12", "countValues-literal-default", "fire", F,
  "                count += 1 if not Payload.isEmpty(p, default=self.getDefault()) else 0",
  "                count += 1 if not Payload.isEmpty(p) else 0", "C12.R1")
v("C12", "isEmpty-any", "fire", F,
  "        return all(map(lambda p: Payload.isEmpty(p, default=self.getDefault()), self.payloads))",
  "        return any(map(lambda p: Payload.isEmpty(p, default=self.getDefault()), self.payloads))", "C12.R2")
v("C12", "eq-ignores-B", "fire", F,
  "            if mask == \"B\":\n                return False\n\n            if mask == \"AB\" and ps != po:",
  "            if mask == \"AB\" and ps != po:", "C12.R3")
v("C12", "eq-mask-typo", "fire", F,
  "            if mask == \"A\":\n                return False\n\n            if mask == \"B\":",
  "            if mask == \"a\":\n                return False\n\n            if mask == \"B\":", "C12.R3")
v("C12", "eq-payload-compare-eq", "fire", F,
  "            if mask == \"AB\" and ps != po:\n                return False",
  "            if mask == \"AB\" and ps == po:\n                return False", "C12.R3")
v("C12", "eq-over-intersection", "fire", F,
  "        for c, (mask, ps, po) in self | other:\n            if mask == \"A\":",
  "        for c, (ps, po) in self & other:\n            mask = \"AB\"\n            if mask == \"A\":", "C12.R3")
v("C12", "eq-nonfiber-true", "fire", F,
  "        if not isinstance(other, Fiber):\n            return False\n\n        for c, (mask, ps, po)",
  "        if not isinstance(other, Fiber):\n            return True\n\n        for c, (mask, ps, po)", "C12.R3")
v("C12", "tensor-eq-or", "fire", T,
  "        return rankid_match and fiber_match", "        return rankid_match or fiber_match", "C12.R3")
v("C12", "nonEmpty-no-recursion", "fire", F,
  "                if Payload.contains(p, Fiber):\n                    payloads.append(p.nonEmpty())\n                else:\n                    payloads.append(p)\n\n        return self._newFiber(coords, payloads)",
  "                payloads.append(p)\n\n        return self._newFiber(coords, payloads)", "C12.R2")
v("C12", "payload-isEmpty-is-identity", "fire", P,
  "        if p == default:\n            return True", "        if p is default:\n            return True", "C12.R1")
v("C12", "countValues-no-recursion", "fire", F,
  "            if recursive and Payload.contains(p, Fiber):\n                count += Payload.get(p).countValues()\n            else:\n                count += 1",
  "            if False and recursive and Payload.contains(p, Fiber):\n                count += Payload.get(p).countValues()\n            else:\n                count += 1", "C12.R2")
v("C12", "silent-eq-temp", "silent", F,
  "        for c, (mask, ps, po) in self | other:\n            if mask == \"A\":",
  "        both = self | other\n        for c, (mask, ps, po) in both:\n            if mask == \"A\":")

# ---------------------------------------------------------------- C08
v("C08", "splitGeneric-no-copy", "fire", F,
  "        fiber = copy.deepcopy(self)\n\n        if depth == 0:\n            return fiber._splitFiber(splitter)",
  "        fiber = self\n\n        if depth == 0:\n            return fiber._splitFiber(splitter)", "C08.R2")
v("C08", "splitGeneric-descends-self", "fire", F,
  "        fiber.updatePayloadsBelow(Fiber._splitFiber, splitter, depth=depth-1)",
  "        self.updatePayloadsBelow(Fiber._splitFiber, splitter, depth=depth-1)", "C08.R2")
v("C08", "updatePayloads-ordinal-index", "fire", F,
  "            for i, (c, p) in enumerate(zip(self.coords, self.payloads)):\n                if Payload.isEmpty(p, default=default):\n                    continue\n                self.payloads[i] = Payload.maybe_box(func(i, c, p))",
  "            for i, (c, p) in enumerate(self.iterOccupancy(tick=False)):\n                self.payloads[i] = Payload.maybe_box(func(i, c, p))", "C08.R3")
v("C08", "splitEqual-ignores-rankid", "fire", F,
  "        if rankid is not None:\n            depth = self._rankid2depth(rankid)\n\n        splitter = lambda f: _SplitterEqual(",
  "        splitter = lambda f: _SplitterEqual(", "C08.R1")
v("C08", "truediv-floor", "fire", F,
  "        return self.splitUniform((shape+partitions-1)//partitions)",
  "        return self.splitUniform(shape//partitions)", "C08.R1")
v("C08", "tensor-splitEqual-wrong-method", "fire", T,
  "        return self._splitGeneric(Fiber.splitEqual,", "        return self._splitGeneric(Fiber.splitUnEqual,", "C08.R1")
v("C08", "uniform-payload-copied", "fire", F,
  "                        inds.append(i)\n                        lower_coords[i].append(c)\n                        lower_payloads[i].append(p)\n",
  "                        inds.append(i)\n                        lower_coords[i].append(c)\n                        lower_payloads[i].append(copy.deepcopy(p) * 1)\n", "C08.R4", count=2)
v("C08", "relative-adds", "fire", F,
  "                    coords = [c - part for c in coords]", "                    coords = [c + part for c in coords]", "C08.R4")
v("C08", "splitFiber-default-zero", "fire", F,
  "                          active_range=active_range,\n                          default=self.getDefault(),",
  "                          active_range=active_range,\n                          default=0,", "C08.R4")
v("C08", "splitFiber-upper-coord-first-elem", "fire", F,
  "            upper.coords.append(part)", "            upper.coords.append(coords[0])", "C08.R4")
v("C08", "silent-splitGeneric-rename", "silent", F,
  "        fiber = copy.deepcopy(self)\n\n        if depth == 0:\n            return fiber._splitFiber(splitter)\n\n        fiber.updatePayloadsBelow(Fiber._splitFiber, splitter, depth=depth-1)\n\n        # Only clear the owner after the split so that the fiber has the full\n        # shape information\n        fiber.setOwner(None)\n        return fiber",
  "        dup = copy.deepcopy(self)\n\n        if depth == 0:\n            return dup._splitFiber(splitter)\n\n        dup.updatePayloadsBelow(Fiber._splitFiber, splitter, depth=depth-1)\n\n        dup.setOwner(None)\n\n        return dup")

# ---------------------------------------------------------------- C09
v("C09", "updateCoords-return-in-loop", "fire", F,
  "                p.updateCoords(func, depth=depth - 1, new_shape=new_shape)\n\n            return None",
  "                p.updateCoords(func, depth=depth - 1, new_shape=new_shape)\n                return None", "C09.R1")
v("C09", "updatePayloads-break-in-descent", "fire", F,
  "            for p in self.payloads:\n                p.updatePayloads(func, depth=depth - 1)\n",
  "            for p in self.payloads:\n                p.updatePayloads(func, depth=depth - 1)\n                break\n", "C09.R1")
v("C09", "updatePayloads-ordinal-index", "fire", F,
  "            for i, (c, p) in enumerate(zip(self.coords, self.payloads)):\n                if Payload.isEmpty(p, default=default):\n                    continue\n                self.payloads[i] = Payload.maybe_box(func(i, c, p))",
  "            for i, (c, p) in enumerate(self.iterOccupancy(tick=False)):\n                self.payloads[i] = Payload.maybe_box(func(i, c, p))", "C09.R2")
v("C09", "flattenCoords-style-typo", "fire", F,
  "        elif style == \"relative\":\n            c1_c0 = c1 + c0", "        elif style == \"relativ\":\n            c1_c0 = c1 + c0", "C09.R3")
v("C09", "merge-shape-drops-pair", "fire", F,
  "            elif style == \"pair\":\n                shape = (up_shape, low_shape)\n", "", "C09.R3")
v("C09", "tensor-shape-drops-linear", "fire", T,
  "                elif coord_style == \"linear\":\n                    if i == depth:\n                        new_shape.append(shape)\n                    else:\n                        new_shape[-1] *= shape\n", "", "C09.R3")
v("C09", "swizzle-filtered-dfs", "fire", T,
  "            for c, p in zip(head.coords, head.payloads):\n                frontier.append((p, head, c, depth + 1))",
  "            for c, p in head:\n                frontier.append((p, head, c, depth + 1))", "C09.R4")
v("C09", "swizzle-guide-identity", "fire", T,
  "            guide.append(old_rank_ids.index(rank_id))", "            guide.append(rank_ids.index(rank_id))", "C09.R4")
v("C09", "swizzle-descending", "fire", T,
  "        coords.sort(reverse=True)", "        coords.sort()", "C09.R4")
v("C09", "swapRanks-no-reverse", "fire", F,
  "        sorted_cp = sorted([(c[::-1], p) for c, p in flattened])", "        sorted_cp = sorted([(c, p) for c, p in flattened])", "C09.R4")
v("C09", "swapRanks-tuple-style", "fire", F,
  "        flattened = self.flattenRanks(style=\"pair\")", "        flattened = self.flattenRanks(style=\"tuple\")", "C09.R4")
v("C09", "silent-updateCoords-while", "silent", F,
  "        for i in range(len(self.coords)):\n            new_coord = func(i, self.coords[i], self.payloads[i])",
  "        for i in range(0, len(self.coords)):\n            new_coord = func(i, self.coords[i], self.payloads[i])")

# ---------------------------------------------------------------- C14
v("C14", "split-drops-default", "fire", T,
  "        tensor.setName(self.getName() + \"+split\")\n        tensor.setColor(self.getColor())\n        tensor.setMutable(self.isMutable())\n        tensor.setDefault(self.getDefault())",
  "        tensor.setName(self.getName() + \"+split\")\n        tensor.setColor(self.getColor())\n        tensor.setMutable(self.isMutable())", "C14.R1")
v("C14", "flatten-drops-mutable", "fire", T,
  "        tensor.setName(self.getName() + \"+flattened\")\n        tensor.setColor(self.getColor())\n        tensor.setMutable(self.isMutable())",
  "        tensor.setName(self.getName() + \"+flattened\")\n        tensor.setColor(self.getColor())", "C14.R1")
v("C14", "merge-drops-formats", "fire", T,
  "        tensor.setName(self.getName() + \"+merged\")", "        return tensor\n        tensor.setName(self.getName() + \"+merged\")", "C14.R1")
v("C14", "swap-formats-all-C", "fire", T,
  "        for rank_id in tensor.getRankIds():\n            tensor.setFormat(rank_id, self.getFormat(rank_id))\n\n        return tensor\n",
  "        for rank_id in tensor.getRankIds():\n            tensor.setFormat(rank_id, \"C\")\n\n        return tensor\n", "C14.R1")
v("C14", "swizzle-drops-color", "fire", T,
  "                  \"fiber\": root,\n                  \"color\": self.getColor()\n", "                  \"fiber\": root\n", "C14.R1")
v("C14", "swap-shape-none", "fire", T,
  "        shape = copy.deepcopy(self.getShape(authoritative=True))\n        if shape:\n            shape[depth], shape[depth + 1] = shape[depth + 1], shape[depth]",
  "        shape = None", "C14.R1")
v("C14", "split-shape-estimated", "fire", T,
  "        shape = copy.deepcopy(self.getShape(authoritative=True))\n        if shape:\n            shape.insert(depth + 1, shape[depth])",
  "        shape = copy.deepcopy(self.getShape())\n        if shape:\n            shape.insert(depth + 1, shape[depth])", "C14.R1")
v("C14", "split-rename-swapped", "fire", T,
  "        rank_ids[depth] = f\"{id}.1\"\n        rank_ids.insert(depth + 1, f\"{id}.0\")",
  "        rank_ids[depth] = f\"{id}.0\"\n        rank_ids.insert(depth + 1, f\"{id}.1\")", "C14.R1")
v("C14", "and-active-from-other", "fire", I,
  "    fiber = self.fromIterator(and_iterator, active_range=self.getActive())",
  "    fiber = self.fromIterator(and_iterator, active_range=other.getActive())", "C14.R2")
v("C14", "or-id-from-other", "fire", I,
  "    result._setDefault((\"\", self.getDefault(), other.getDefault()))\n    result.getRankAttrs().setId(self.getRankAttrs().getId())\n\n    return result\n\n\ndef __xor__",
  "    result._setDefault((\"\", self.getDefault(), other.getDefault()))\n    result.getRankAttrs().setId(other.getRankAttrs().getId())\n\n    return result\n\n\ndef __xor__", "C14.R2")
v("C14", "sub-no-default", "fire", I,
  "    result._setDefault(self.getDefault())\n    result.getRankAttrs().setId(self.getRankAttrs().getId())\n\n    return result\n",
  "    result.getRankAttrs().setId(self.getRankAttrs().getId())\n\n    return result\n", "C14.R2")
v("C14", "union-default-no-mask-slot", "fire", I,
  "    fiber._setDefault(tuple([\"\"]+[arg.getDefault() for arg in args]))",
  "    fiber._setDefault(tuple([arg.getDefault() for arg in args]))", "C14.R2")
v("C14", "project-open-end", "fire", F,
  "            max_ = Fiber._transCoord(max(start, end), lambda c: c + 1)",
  "            max_ = Fiber._transCoord(max(start, end), lambda c: c)", "C14.R2")
v("C14", "coiter-active-shape", "fire", I,
  "    fiber = fibers[0].fromIterator(coiter_range_shape_iterator, active_range=(start, end))",
  "    fiber = fibers[0].fromIterator(coiter_range_shape_iterator, active_range=fibers[0].getActive())", "C14.R2")
v("C14", "getDefault-ignores-owner", "fire", F,
  "        owner = self.getOwner()\n\n        if owner is not None:\n            return owner.getDefault()\n",
  "        owner = None\n\n        if owner is not None:\n            return owner.getDefault()\n", "C14.R3")
v("C14", "rank-getShape-estimated-authoritative", "fire", R,
  "            if authoritative and self._attrs.getEstimatedShape():\n                #\n                # We do not know the shape authoritatively\n                #\n                return None\n",
  "", "C14.R4")
v("C14", "silent-flatten-reorder-setters", "silent", T,
  "        tensor.setName(self.getName() + \"+flattened\")\n        tensor.setColor(self.getColor())\n        tensor.setMutable(self.isMutable())\n        tensor.setDefault(self.getDefault())",
  "        tensor.setDefault(self.getDefault())\n        tensor.setMutable(self.isMutable())\n        tensor.setColor(self.getColor())\n        tensor.setName(self.getName() + \"+flattened\")")

# ---------------------------------------------------------------- C15
v("C15", "and-index-by-metrics-counter", "fire", I,
  "                    yield succ_yield(a_coord, b_coord), (a_payload, b_payload)\n",
  "                    if a_traced:\n                        a_payload = self.a_fiber.payloads[a_pos]\n                    yield succ_yield(a_coord, b_coord), (a_payload, b_payload)\n", "C15.R1")
v("C15", "collecting-branch-advances-iterator", "fire", I,
  "                    if is_collecting:\n                        Metrics.incIter(rank)\n\n                    a_coord, a_payload = _get_next(a)\n\n                    continue\n\n                if a_coord > b_coord:",
  "                    if is_collecting:\n                        Metrics.incIter(rank)\n                        a_coord, a_payload = _get_next(a)\n\n                    a_coord, a_payload = _get_next(a)\n\n                    continue\n\n                if a_coord > b_coord:", "C15.R1")
v("C15", "yield-under-traced", "fire", I,
  "                    yield a_coord, (\"AB\", a_payload, b_payload)\n",
  "                    if not a_traced:\n                        yield a_coord, (\"AB\", a_payload, b_payload)\n", "C15.R1")
v("C15", "iterRange-break-when-collecting", "fire", I,
  "                if is_collecting and tick:\n                    Metrics.incIter(rank)\n\n        # Otherwise continue",
  "                if is_collecting and tick:\n                    Metrics.incIter(rank)\n                    if coord > 1000000:\n                        break\n\n        # Otherwise continue", "C15.R1")
v("C15", "getPayload-traced-inserts", "fire", F,
  "        if Metrics.isCollecting() and trace is not None:\n            Metrics.addUse(self.getRankAttrs().getId(), coords[0], index, type_=trace)",
  "        if Metrics.isCollecting() and trace is not None:\n            Metrics.addUse(self.getRankAttrs().getId(), coords[0], index, type_=trace)\n            self.setActive(None)", "C15.R1")
v("C15", "payload-add-result-depends", "fire", P,
  "        if Metrics.isCollecting():\n            Metrics.incCount(\"Compute\", \"payload_add\", 1)\n\n        return Payload(ans)",
  "        if Metrics.isCollecting():\n            Metrics.incCount(\"Compute\", \"payload_add\", 1)\n            ans = ans + 0.0\n\n        return Payload(ans)", "C15.R1")
v("C15", "unguarded-incIter", "fire", I,
  "        if is_collecting and tick:\n            Metrics.incIter(rank)\n\n    if is_collecting and tick:\n        Metrics.endIter(rank)\n\ndef iterRangeShapeRef",
  "        if tick:\n            Metrics.incIter(rank)\n\n    if is_collecting and tick:\n        Metrics.endIter(rank)\n\ndef iterRangeShapeRef", "C15.R2")
v("C15", "unguarded-getLabel", "fire", I,
  "            if is_collecting:\n                rank = self.a_fiber.getRankAttrs().getId()\n                a_label = str(Metrics.getLabel(rank))\n                b_label = str(Metrics.getLabel(rank))\n\n                a_trace = \"union_\" + a_label",
  "            rank = self.a_fiber.getRankAttrs().getId()\n            a_label = str(Metrics.getLabel(rank))\n            if is_collecting:\n                b_label = str(Metrics.getLabel(rank))\n\n                a_trace = \"union_\" + a_label", "C15.R2")
v("C15", "mul-counts-add", "fire", P,
  "            Metrics.incCount(\"Compute\", \"payload_mul\", 1)\n\n        return Payload(ans)",
  "            Metrics.incCount(\"Compute\", \"payload_add\", 1)\n\n        return Payload(ans)", "C15.R3")
v("C15", "iadd-always-counts-add", "fire", P,
  "            if old != 0:\n                Metrics.incCount(\"Compute\", \"payload_add\", 1)",
  "            Metrics.incCount(\"Compute\", \"payload_add\", 1)", "C15.R3")
v("C15", "sub-counts-add", "fire", P,
  "            ans = self.value - other\n\n        return Payload(ans)",
  "            ans = self.value - other\n\n        if Metrics.isCollecting():\n            Metrics.incCount(\"Compute\", \"payload_add\", 1)\n\n        return Payload(ans)", "C15.R3")
v("C15", "imul-counts-twice", "fire", P,
  "            Metrics.incCount(\"Compute\", \"payload_mul\", 1)\n            Metrics.incCount(\"Compute\", \"payload_update\", 1)",
  "            Metrics.incCount(\"Compute\", \"payload_mul\", 2)\n            Metrics.incCount(\"Compute\", \"payload_update\", 1)", "C15.R3")
v("C15", "beginCollect-forgets-rank_matches", "fire", M,
  "        cls.rank_matches = {}\n        cls.rank_flatten = {}\n        cls.traces = {}\n\n    @classmethod\n    def dump",
  "        cls.rank_flatten = {}\n        cls.traces = {}\n\n    @classmethod\n    def dump", "C15.R4")
v("C15", "beginCollect-keeps-metrics-dict", "fire", M,
  "        cls.metrics = {}\n", "        cls.metrics = cls.metrics or {}\n", "C15.R4")
v("C15", "new-cache-attr-not-reset", "fire", M,
  "        cls.fiber_label[iter_rank] += 1\n",
  "        cls.fiber_label[iter_rank] += 1\n        cls.label_cache[rank] = iter_rank\n", "C15.R4")
v("C15", "iterRange-double-tick", "fire", I,
  "                if is_collecting and tick:\n                    Metrics.incIter(rank)\n\n        # Otherwise continue",
  "                if is_collecting and tick:\n                    Metrics.incIter(rank)\n                    Metrics.incIter(rank)\n\n        # Otherwise continue", "C15.R6")
v("C15", "iterRangeShape-no-endIter", "fire", I,
  "        if is_collecting and tick:\n            Metrics.incIter(rank)\n\n    if is_collecting and tick:\n        Metrics.endIter(rank)\n\ndef iterRangeShapeRef",
  "        if is_collecting and tick:\n            Metrics.incIter(rank)\n\ndef iterRangeShapeRef", "C15.R6")
v("C15", "silent-payload-add-guard-var", "silent", P,
  "        if Metrics.isCollecting():\n            Metrics.incCount(\"Compute\", \"payload_add\", 1)\n\n        return Payload(ans)",
  "        collecting = Metrics.isCollecting()\n        if collecting:\n            Metrics.incCount(\"Compute\", \"payload_add\", 1)\n\n        return Payload(ans)")
v("C15", "silent-or-extra-metrics-local", "silent", I,
  "                a_trace = \"union_\" + a_label\n", "                prefix_ = \"union_\"\n                a_trace = prefix_ + a_label\n")

# ---------------------------------------------------------------- C16
v("C16", "row-drops-pos", "fire", M,
  "        data = iteration + point + [pos]", "        data = iteration + point", "C16.R1")
v("C16", "row-short-iteration", "fire", M,
  "        iteration = iteration_num[:(i + 1)]", "        iteration = iteration_num[:i]", "C16.R1")
v("C16", "header-extra-column", "fire", M,
  "            cls.loop_order[:end] + [\"fiber_pos\"]", "            cls.loop_order[:end] + [\"fiber_pos\", \"extra\"]", "C16.R1")
v("C16", "writeTrace-overwrites", "fire", M,
  "        with open(cls.prefix + \"-\" + rank + \"-\" + type_ + \".csv\", \"a\") as f:",
  "        with open(cls.prefix + \"-\" + rank + \"-\" + type_ + \".csv\", \"w\") as f:", "C16.R2")
v("C16", "writeTrace-no-reset", "fire", M,
  "        cls.traces[rank][type_] = ([], mem_trace, True)\n", "        cls.traces[rank][type_] = (file_trace, mem_trace, True)\n", "C16.R2")
v("C16", "endCollect-clears-before-flush", "fire", M,
  "        for rank, dicts in cls.traces.items():\n            for type_, (file_trace, mem_trace, _) in dicts.items():\n                if file_trace is not None:\n                    cls._writeTrace(rank, type_)",
  "        for rank, dicts in cls.traces.items():\n            for type_, (file_trace, mem_trace, _) in dicts.items():\n                if file_trace is not None and len(file_trace) > 1:\n                    cls._writeTrace(rank, type_)", "C16.R2")
v("C16", "addUse-mem-gets-copy-without-pos", "fire", M,
  "        if mem_trace is not None:\n            mem_trace.append(data)\n\n        # If we are at the limit",
  "        if mem_trace is not None:\n            mem_trace.append(data[:-1])\n\n        # If we are at the limit", "C16.R2")
v("C16", "addUse-flush-greater", "fire", M,
  "        if file_trace is not None and len(file_trace) == cls.num_cached_uses:",
  "        if file_trace is not None and len(file_trace) > cls.num_cached_uses + 7:", "C16.R2")
v("C16", "iterRange-position-is-ordinal", "fire", I,
  "                if is_collecting and tick:\n                    Metrics.addUse(rank, coord, i + j)",
  "                if is_collecting and tick:\n                    Metrics.addUse(rank, coord, j)", "C16.R3")
v("C16", "getPayloadRef-position-constant-drift", "fire", F,
  "            Metrics.addUse(self.getRankAttrs().getId(), coords[0], index, type_=trace)\n\n        if len(coords) > 1:\n            # Recurse to the next level's fiber\n            assert Payload.contains(payload, Fiber), \"Too many coordinates\"",
  "            Metrics.addUse(self.getRankAttrs().getId(), coords[0], len(self.coords), type_=trace)\n\n        if len(coords) > 1:\n            # Recurse to the next level's fiber\n            assert Payload.contains(payload, Fiber), \"Too many coordinates\"", "C16.R3")
v("C16", "silent-addUse-temp-row", "silent", M,
  "        data = iteration + point + [pos]", "        tail = [pos]\n        data = iteration + point + tail")

# ---------------------------------------------------------------- C18
FM = "model/format.py"
v("C18", "default-bits-one", "fire", FM,
  "            self.spec[rank][field] = 0", "            self.spec[rank][field] = 1", "C18.R1")
v("C18", "default-format-U", "fire", FM,
  "self._checkFillStrField(rank, \"format\", \"C\", [\"C\", \"U\"])",
  "self._checkFillStrField(rank, \"format\", \"U\", [\"C\", \"U\"])", "C18.R1")
v("C18", "footprint-forgets-coords", "fire", FM,
  "            + self.spec[rank][\"pbits\"] * num_elems \\\n            + self.spec[rank][\"cbits\"] * num_elems", "            + self.spec[rank][\"pbits\"] * num_elems", "C18.R2")
v("C18", "footprint-header-per-element", "fire", FM,
  "        return self.spec[rank][\"fhbits\"] \\", "        return self.spec[rank][\"fhbits\"] * num_elems \\", "C18.R2")
v("C18", "footprint-swapped-count", "fire", FM,
  "        if self.spec[rank][\"format\"] == \"C\":\n            num_elems = len(fiber)",
  "        if self.spec[rank][\"format\"] == \"U\":\n            num_elems = len(fiber)", "C18.R2")
v("C18", "rank-no-header", "fire", FM,
  "        total = self.spec[rank_id][\"rhbits\"]", "        total = 0", "C18.R3")
v("C18", "tensor-no-root", "fire", FM,
  "        total = self.getRoot()", "        total = 0", "C18.R3")
v("C18", "subtree-always-occupancy", "fire", FM,
  "                iter_ = fiber.iterShape()", "                iter_ = fiber.iterOccupancy()", "C18.R3")
v("C18", "subtree-full-point-only-payload", "fire", FM,
  "            return self.spec[self.tensor.getRankIds()[-1]][\"cbits\"] + \\\n                self.spec[self.tensor.getRankIds()[-1]][\"pbits\"]",
  "            return self.spec[self.tensor.getRankIds()[-1]][\"pbits\"]", "C18.R3")
v("C18", "subtree-ref-iteration", "fire", FM,
  "                iter_ = fiber.iterShape()", "                iter_ = fiber.iterShapeRef()", "C18.R3")
v("C18", "silent-footprint-factored", "silent", FM,
  "        return self.spec[rank][\"fhbits\"] \\\n            + self.spec[rank][\"pbits\"] * num_elems \\\n            + self.spec[rank][\"cbits\"] * num_elems",
  "        return self.spec[rank][\"fhbits\"] \\\n            + (self.spec[rank][\"pbits\"] + self.spec[rank][\"cbits\"]) * num_elems")

# ---------------------------------------------------------------- C13
v("C13", "dump-renames-shape-key", "fire", T,
  "                'shape': self.getShape(),", "                'shapes': self.getShape(),", "C13.R1")
v("C13", "dump-root-not-list", "fire", T,
  "                'root': [root_dict]", "                'root': root_dict", "C13.R1")
v("C13", "fiber2dict-renames-payloads", "fire", F,
  "              'payloads': [Payload.payload2dict(p) for p in self.payloads]}}",
  "              'values': [Payload.payload2dict(p) for p in self.payloads]}}", "C13.R1")
v("C13", "makeFiber-literal-zero", "fire", F,
  "        zipped = [(c, p) for c, p in enumerate(payload_list) if p != default]",
  "        zipped = [(c, p) for c, p in enumerate(payload_list) if p != 0]", "C13.R2")
v("C13", "makeFiber-recursion-drops-default", "fire", F,
  "                real_p = Fiber._makeFiber(p, default=default)", "                real_p = Fiber._makeFiber(p)", "C13.R2")
v("C13", "fromUncompressed-empty-no-shape", "fire", F,
  "            return Fiber([], [], shape=len(payload_list), default=default)",
  "            return Fiber([], [], default=default)", "C13.R2")
v("C13", "tensor-fromUncompressed-drops-default", "fire", T,
  "        fiber = Fiber.fromUncompressed(root, default=default)", "        fiber = Fiber.fromUncompressed(root)", "C13.R2")
v("C13", "fromRandom-reseeds-recursion", "fire", F,
  "                    payload = Fiber.fromRandom(shape[1:],\n                                               density[1:],\n                                               interval,\n                                               default=default)",
  "                    payload = Fiber.fromRandom(shape[1:],\n                                               density[1:],\n                                               interval,\n                                               seed=seed,\n                                               default=default)", "C13.R3")
v("C13", "fromRandom-seed-after-draw", "fire", F,
  "        if seed is not None:\n            random.seed(seed)\n\n        coords = []\n        payloads = []\n\n        for c in range(shape[0]):",
  "        coords = []\n        payloads = []\n\n        for c in range(shape[0]):\n            if seed is not None and c == 1:\n                random.seed(seed)", "C13.R3")
v("C13", "fromRandom-uses-sample", "fire", F,
  "            if random.random() < density[0]:", "            if random.SystemRandom().random() < density[0]:", "C13.R3")
v("C13", "silent-makeFiber-flip", "silent", F,
  "        zipped = [(c, p) for c, p in enumerate(payload_list) if p != default]",
  "        zipped = [(c, p) for c, p in enumerate(payload_list) if default != p]")

# ---------------------------------------------------------------- C17
TR = "model/traffic.py"
v("C17", "stale-tensor-in-shapes-loop", "fire", TR,
  "        for i, info in enumerate(bind_info):\n            tensor, rank = info[:2]\n            if pin_intermediate_writes(info):",
  "        for i, info in enumerate(bind_info):\n            if pin_intermediate_writes(info):", "C17.R3")
v("C17", "stale-rank-in-masks-loop", "fire", TR,
  "            tensor, rank = info[:2]\n            end = order.index(loop_ranks[rank]) + 1",
  "            tensor = info[0]\n            end = order.index(loop_ranks[rank]) + 1", "C17.R3")
v("C17", "next-traces-not-removed", "fire", TR,
  "        for fn in next_use_traces.values():\n            os.remove(fn)\n", "", "C17.R1")
v("C17", "early-return-skips-cleanup", "fire", TR,
  "        # Close all files\n", "        if overflows > 10 ** 9:\n            return traffic, overflows\n        # Close all files\n", "C17.R1")
v("C17", "combine-leaves-read-open", "fire", TR,
  "            if f_read:\n                f_read.close()\n", "", "C17.R1")
v("C17", "combine-ties-to-write", "fire", TR,
  "                if write_line[0] < read_line[0]:", "                if write_line[0] <= read_line[0]:", "C17.R4")
v("C17", "filter-advances-filter-on-less", "fire", TR,
  "                elif data_in < data_fil:\n                    line_in = f_in.readline()\n                    data_in = get_data(line_in)",
  "                elif data_in < data_fil:\n                    line_fil = f_fil.readline()\n                    data_fil = get_data(line_fil)[:len(data_in)]", "C17.R4")
v("C17", "cache-add_elem-returns-four", "fire", TR,
  "            sim_info = next_evict, pinned, None\n            return objs, occupancy, overflows, sim_info, traffic",
  "            sim_info = next_evict, pinned, None\n            return objs, occupancy, sim_info, traffic", "C17.R2")
v("C17", "buffet-callbacks-swapped", "fire", TR,
  "            pre_sim_hook, to_be_buffered, add_elem, evict_elem)\n\n    @staticmethod\n    def _bufferTraffic",
  "            pre_sim_hook, to_be_buffered, evict_elem, add_elem)\n\n    @staticmethod\n    def _bufferTraffic", "C17.R2")
v("C17", "silent-shapes-loop-unpack3", "silent", TR,
  "        for i, info in enumerate(bind_info):\n            tensor, rank = info[:2]\n            if pin_intermediate_writes(info):",
  "        for i, info in enumerate(bind_info):\n            tensor, rank, _type = info[:3]\n            if pin_intermediate_writes(info):")

# ---------------------------------------------------------------- C19
IXF = "model/intersect.py"
CPF = "model/compute.py"
v("C19", "twofinger-gt-no-forwarding", "fire", IXF,
  "                if point1 is None or fiber != point1[:-1]:\n                    point0, i0 = get_next(trace0, i0)\n\n            if point0:\n                fiber = point0[:-1]\n            else:\n                fiber = None\n",
  "                if point1 is None:\n                    point0, i0 = get_next(trace0, i0)\n\n            if point0:\n                fiber = point0[:-1]\n            else:\n                fiber = None\n", "C19.R1", count=1)
v("C19", "twofinger-counts-only-mismatch", "fire", IXF,
  "        while point0 and point1:\n            self.num_intersects += 1\n\n            if point0 == point1:\n                point0, i0 = get_next(trace0, i0)\n                point1, i1 = get_next(trace1, i1)\n\n            elif point0 < point1:\n                point0, i0 = get_next(trace0, i0)\n",
  "        while point0 and point1:\n            if point0 == point1:\n                point0, i0 = get_next(trace0, i0)\n                point1, i1 = get_next(trace1, i1)\n\n            elif point0 < point1:\n                self.num_intersects += 1\n                point0, i0 = get_next(trace0, i0)\n", "C19.R1")
v("C19", "leaderfollower-header-every-call", "fire", IXF,
  "        if not self.started:\n            self.started = True\n            new_intersects -= 1",
  "        if True:\n            self.started = True\n            new_intersects -= 1", "C19.R1")
v("C19", "swaps-depend-on-payload", "fire", CPF,
  "            coords.append(sorted([-c for c in payload.getCoords()]))",
  "            coords.append(sorted([-c for c, p in payload if p != 0]))", "C19.R2")
v("C19", "merge-latency-per-element-only", "fire", CPF,
  "            return next_latency * (len(coords) + len(merged)), merged",
  "            return next_latency * len(merged), merged", "C19.R2")
v("C19", "silent-merge-latency-expanded", "silent", CPF,
  "            return next_latency * (len(coords) + len(merged)), merged",
  "            return next_latency * len(coords) + next_latency * len(merged), merged")

# ---------------------------------------------------------------- C20
v("C20", "bitvector-drops-shape", "fire", "codec/formats/bitvector.py",
  "codec.encode(depth + 1, val, ranks, output, output_tensor, shape=shape)",
  "codec.encode(depth + 1, val, ranks, output, output_tensor)", "C20.R1")
v("C20", "coordlist-drops-shape", "fire", "codec/formats/coord_list.py",
  "codec.encode(depth + 1, val, ranks, output, output_tensor,shape=shape)",
  "codec.encode(depth + 1, val, ranks, output, output_tensor)", "C20.R1")
v("C20", "codec-encode-drops-shape", "fire", "codec/tensor_codec.py",
  "fiber.encodeFiber(a, dim_len, self, depth, ranks, output, output_tensor, shape=shape)",
  "fiber.encodeFiber(a, dim_len, self, depth, ranks, output, output_tensor)", "C20.R1")
v("C20", "registry-B-is-coordlist", "fire", "codec/compression_types.py",
  "\"C\":CoordinateList, \"B\": Bitvector, \"T\"", "\"C\":CoordinateList, \"B\": CoordinateList, \"T\"", "C20.R2")
v("C20", "uncompressed-handmade-keys", "fire", "codec/formats/uncompressed.py",
  "        coords_key, payloads_key = codec.get_keys(ranks, depth)\n        \n        # init vars",
  "        coords_key, payloads_key = \"coords_\" + ranks[depth], \"payloads_\" + ranks[depth]\n        \n        # init vars", "C20.R3")
v("C20", "silent-bitvector-positional-shape", "silent", "codec/formats/bitvector.py",
  "codec.encode(depth + 1, val, ranks, output, output_tensor, shape=shape)",
  "codec.encode(depth + 1, val, ranks, output, output_tensor, shape)")


# ---------------------------------------------------------------- seeded changes
# Changes written by independent sub-agents that saw only the property text
# (/verif/seeded/<id>/: patch.diff, demo.py, meta.json).  Each is a must-fire
# variant of every check that is expected to report it.

def seed(prop, sid, rule):
    VARIANTS.setdefault(prop, []).append(
        {"name": "seeded-" + sid, "kind": "fire", "patch": "seeded/%s/patch.diff" % sid,
         "file": None, "old": None, "new": None, "expect_rule": rule, "count": 1})


seed("C01", "C01-a", "C01.R4")
seed("C02", "C02-a", "C02.R3")
seed("C05", "C02-a", "C05.R3")
seed("C03", "C03-a", "C03.R5")
seed("C12", "C03-a", "C12.R1")
seed("C04", "C04-a", "C04.R7")
seed("C05", "C05-a", "C05.R3")
seed("C07", "C07-a", "C07.R5")
seed("C08", "C08-a", "C08.R4")
seed("C09", "C09-a", "C09.R4")
seed("C10", "C10-a", "C10.R3")
seed("C11", "C11-a", "C11.R5")
seed("C12", "C12-a", "C12.R2")
seed("C13", "C13-a", "C13.R2")
seed("C14", "C14-a", "C14.R5")
seed("C15", "C15-a", "C15.R6")
seed("C16", "C16-a", "C16.R3")
seed("C17", "C17-a", "C17.R5")
seed("C18", "C18-a", "C18.R3")
seed("C19", "C19-a", "C19.R1")
seed("C20", "C20-a", "C20.R4")

# ---------------------------------------------------------------- rules added for the seeds
v("C04", "padding-tuple-one-too-many", "fire", I,
  "                    extra = (ANY,) * (len_b - len_a)", "                    extra = (ANY,) * (len_b - len_a + 1)", "C04.R7")
v("C04", "padding-int-uses-difference", "fire", I,
  "                    extra = (ANY,) * (len_a - 1)", "                    extra = (ANY,) * (len_a - len_b - 1)", "C04.R7")
v("C04", "padding-width-temp", "silent", I,
  "                    extra = (ANY,) * (len_b - 1)", "                    n_pad = len_b - 1\n                    extra = (ANY,) * n_pad")
v("C04", "padding-prepend-commuted", "silent", I,
  "a = self.a_fiber.project(trans_fn=lambda c: c + extra,", "a = self.a_fiber.project(trans_fn=lambda c: c + (extra),")
v("C05", "removal-disjuncts-swapped", "silent", I,
  """                if maybe_remove and (isinstance(a_payload, type(self.a_fiber)) and \\
                        len(a_payload) == 0) or \\
                        (not isinstance(a_payload, type(self.a_fiber)) and \\
                        a_payload == self.a_fiber.getDefault()):""",
  """                if (not isinstance(a_payload, type(self.a_fiber)) and
                        a_payload == self.a_fiber.getDefault()) or \\
                        (len(a_payload) == 0 and isinstance(a_payload, type(self.a_fiber))
                         and maybe_remove):""")
v("C05", "removal-leaf-needs-new", "fire", I,
  "                        a_payload == self.a_fiber.getDefault()):\n                    # Clear the fiber",
  "                        a_payload == self.a_fiber.getDefault() and new_a_payload):\n                    # Clear the fiber", "C05.R3")
v("C09", "swizzle-noncumulative-flag", "fire", T,
  "                same = same and c == last_coord[i]", "                same = c == last_coord[i]", "C09.R4")
v("C09", "swizzle-prefix-slices", "silent", T,
  """            same = True
            for i, c in enumerate(coord[:-1]):
                same = same and c == last_coord[i]

                # Get a new payload if we are on a new tree
                if not same:""",
  """            for i, c in enumerate(coord[:-1]):
                if coord[:i + 1] != last_coord[:i + 1]:""")
v("C14", "swizzle-end-not-strict", "fire", T,
  "range_[1] > fiber.coords[-1]]", "range_[1] >= fiber.coords[-1]]", "C14.R5")
v("C14", "swizzle-start-from-last", "fire", T,
  "if range_[0] <= fiber.coords[0] and range_[1] > fiber.coords[0]]", "if range_[0] <= fiber.coords[-1] and range_[1] > fiber.coords[-1]]", "C14.R5")
v("C14", "swizzle-first-last-temps", "silent", T,
  "                starts = [range_[0] for range_ in rank_ranges if range_[0] <= fiber.coords[0] and range_[1] > fiber.coords[0]]",
  "                first_c = fiber.coords[0]\n                starts = [range_[0] for range_ in rank_ranges if range_[0] <= first_c and first_c < range_[1]]")
v("C15", "iter-row-dropped", "fire", I,
  """                if is_collecting and tick:
                    Metrics.addUse(rank, coord, i + j)

                yield CoordPayload(coord, payload)""",
  """                yield CoordPayload(coord, payload)""", "C15.R6")
v("C17", "buffet-window-excludes-evict-rank", "fire", "model/traffic.py",
  "                evict_end = order.index(loop_ranks[evict_on]) + 1", "                evict_end = order.index(loop_ranks[evict_on])", "C17.R5")
v("C17", "buffet-window-next-misaligned", "fire", "model/traffic.py",
  "next_stamp = trace[num_ranks * 2 + 2:num_ranks * 2 + 2 + evict_end]", "next_stamp = trace[num_ranks * 2 + 2:num_ranks * 2 + 1 + evict_end]", "C17.R5")
v("C17", "buffet-window-base-temp", "silent", "model/traffic.py",
  "            next_stamp = trace[num_ranks * 2 + 2:num_ranks * 2 + 2 + evict_end]\n\n            return curr_stamp == next_stamp and trace[num_ranks * 2 + 2] is not None, sim_info",
  "            base = 2 * num_ranks + 2\n            next_stamp = trace[base:base + evict_end]\n\n            return trace[base] is not None and curr_stamp == next_stamp, sim_info")
v("C20", "C-occupancy-only-leaves", "fire", "codec/formats/coord_list.py",
  "            fiber_occupancy = fiber_occupancy + 1\n\n            # if at leaves, store payloads directly\n            if depth == len(ranks) - 1:\n",
  "            # if at leaves, store payloads directly\n            if depth == len(ranks) - 1:\n                fiber_occupancy = fiber_occupancy + 1\n", "C20.R4")
v("C20", "C-occupancy-augassign", "silent", "codec/formats/coord_list.py",
  "            fiber_occupancy = fiber_occupancy + 1", "            fiber_occupancy += 1")
v("C03", "getPayloadRef-presence-from-value", "fire", F,
  "        if self._coordExists(coords[0], index):\n            payload = self.payloads[index]\n        else:\n            payload = self._create_payload(coords[0])",
  "        if self._coordExists(coords[0], index) and not Payload.isEmpty(self.payloads[index], default=self.getDefault()):\n            payload = self.payloads[index]\n        else:\n            payload = self._create_payload(coords[0])", "C03.R5")

# round 2
seed("C01", "C01-b", "C01.R4")
seed("C05", "C01-b", "C05.R3")
seed("C02", "C02-b", "C02.R4")
seed("C03", "C03-b", "C03.R6")
seed("C04", "C04-b", "C04.R5")
seed("C05", "C05-b", "C05.R3")
seed("C07", "C07-b", "C07.R4")
seed("C08", "C08-b", "C08.R5")
seed("C09", "C09-b", "C09.R4")
seed("C10", "C10-b", "C10.R6")
seed("C11", "C11-b", "C11.R1")
seed("C12", "C12-b", "C12.R1")
seed("C13", "C13-b", "C13.R2")
seed("C14", "C14-b", "C14.R1")
seed("C15", "C15-b", "C15.R4")
seed("C16", "C16-b", "C16.R4")
seed("C17", "C17-b", "C17.R6")
seed("C18", "C18-b", "C18.R1")
seed("C19", "C19-b", "C19.R2")
seed("C20", "C20-b", "C20.R5")

v("C16", "iterRangeShape-drops-point-refresh", "fire", I,
  "        if is_collecting and tick:\n            Metrics.addUse(rank, c, c, type_=None)\n\n", "", "C16.R4")
v("C16", "iterRange-point-refresh-conditional", "fire", I,
  "                if is_collecting and tick:\n                    Metrics.addUse(rank, coord, i + j)",
  "                if is_collecting and tick and start_pos is None:\n                    Metrics.addUse(rank, coord, i + j)", "C16.R4")

# round 3
seed("C01", "C01-c", "C01.R4")
seed("C02", "C02-c", "C02.R2")
seed("C01", "C03-c", "C01.R4")
seed("C04", "C04-c", "C04.R8")
seed("C05", "C05-c", "C05.R4")
seed("C14", "C07-c", "C14.R2")
seed("C10", "C07-c", "C10.R1")
seed("C08", "C08-c", "C08.R6")
seed("C09", "C09-c", "C09.R4")
seed("C11", "C11-c", "C11.R2")
seed("C04", "C12-c", "C04.R6")
seed("C13", "C13-c", "C13.R2")
seed("C14", "C14-c", "C14.R1")
seed("C15", "C15-c", "C15.R1")
seed("C16", "C16-c", "C16.R4")
seed("C17", "C17-c", "C17.R7")
seed("C18", "C18-c", "C18.R2")
seed("C19", "C19-c", "C19.R2")
seed("C20", "C20-c", "C20.R6")
seed("C10", "C10-c", "C10.R2")
seed("C03", "C03-c", "C03.R7")
seed("C07", "C07-c", "C07.R6")

# round 4
seed("C01", "C01-d", "C01.R5")
seed("C10", "C02-d", "C10.R2")
seed("C03", "C03-d", "C03.R1")
seed("C04", "C04-d", "C04.R6")
seed("C07", "C05-d", "C07.R3")
seed("C07", "C07-d", "C07.R4")
seed("C08", "C08-d", "C08.R7")
seed("C09", "C09-d", "C09.R4")
seed("C10", "C10-d", "C10.R1")
seed("C11", "C11-d", "C11.R5")
seed("C12", "C12-d", "C12.R2")
seed("C13", "C13-d", "C13.R1")
seed("C14", "C14-d", "C14.R1")
seed("C15", "C15-d", "C15.R3")
seed("C07", "C16-d", "C07.R4")
seed("C17", "C17-d", "C17.R8")
seed("C18", "C18-d", "C18.R3")
seed("C19", "C19-d", "C19.R1")
seed("C20", "C20-d", "C20.R1")

v("C13", "fillempty-skips-a-level", "fire", F,
  "        for i in range(shape[level]):\n            f.append(self._fillempty(shape, level + 1))", "        for i in range(shape[level]):\n            f.append(self._fillempty(shape, level + 2))", "C13.R2")
v("C09", "updatePayloads-depth-step-2", "fire", F,
  "p.updatePayloads(func, depth=depth - 1)", "p.updatePayloads(func, depth=depth - 2)", "C09.R4")
v("C20", "codec-encode-depth-step-2", "fire", "codec/tensor_codec.py",
  "self.encode(depth + 1, a, ranks, output, output_tensor, shape=shape)", "self.encode(depth + 2, a, ranks, output, output_tensor, shape=shape)", "C20.R1")
v("C02", "addFiber-level-step-0", "fire", T,
  "self._addFiber(Payload.get(p), level + 1)", "self._addFiber(Payload.get(p), level + 0)", "C02.R5")

v("C20", "C-coords-not-written-to-output", "fire", "codec/formats/coord_list.py",
  "            output[coords_key].extend(coords)\n", "", "C20.R8")
v("C20", "C-leaf-payload-extend", "fire", "codec/formats/coord_list.py",
  "                self.payloads.append(val.value)", "                self.payloads.extend([val.value, val.value])", "C20.R8")
v("C20", "U-occupancy-not-kept-on-object", "fire", "codec/formats/uncompressed.py",
  "                    self.occupancies.append(cumulative_occupancy)\n", "", "C20.R8")


# -- behaviour-preserving refactorings written by sub-agents (refactored/<id>/,
# DESIGN.md 10.8): whole patches that every check must stay silent on
def refactored(rid):
    for prop in ["C%02d" % i for i in range(1, 21) if i != 6]:
        VARIANTS.setdefault(prop, []).append(
            {"name": "refactored-" + rid, "kind": "silent",
             "patch": "refactored/%s/patch.diff" % rid,
             "file": None, "old": None, "new": None, "expect_rule": None, "count": 1})


for _rid in ("C01-r", "C02-r", "C03-r", "C04-r", "C05-r", "C07-r", "C08-r", "C09-r",
             "C10-r", "C11-r", "C12-r", "C13-r", "C14-r", "C15-r", "C16-r", "C17-r",
             "C18-r", "C19-r", "C20-r",
             "C01-s", "C02-s", "C03-s", "C04-s", "C05-s", "C07-s", "C08-s", "C09-s",
             "C10-s", "C11-s", "C12-s", "C13-s", "C14-s", "C15-s", "C16-s", "C17-s",
             "C18-s", "C19-s", "C20-s",
             "C01-t", "C02-t", "C03-t", "C04-t", "C05-t", "C07-t", "C08-t", "C09-t",
             "C10-t", "C11-t", "C12-t", "C13-t", "C14-t", "C15-t", "C16-t", "C17-t",
             "C18-t", "C19-t", "C20-t",
             "C13-u", "C18-u", "C20-u", "C20-v"):
    refactored(_rid)


# -- rules derived from the mutation study, round 2 (DESIGN.md 10.7)
v("C14", "unflatten-shape-keeps-whole-entry", "fire", T,
  "            shape[depth + d] = s[0]", "            shape[depth + d] = s[1]", "C14.R1")
v("C14", "unflatten-shape-len-test", "fire", T,
  "            if len(s) == 2:", "            if len(s) == 1:", "C14.R1")
v("C09", "modifyRoot-below-depth-2", "fire", T,
  "funcBelow(root, depth=depth - 1, **kwargs)", "funcBelow(root, depth=depth - 2, **kwargs)", "C09.R4")
v("C13", "uncompress-filler-level-2", "fire", F,
  "                f.append(self._fillempty(shape, level + 1))", "                f.append(self._fillempty(shape, level + 2))", "C13.R2")
v("C13", "uncompress-leaf-not-appended", "fire", F,
  "                else:\n                    f.append(Payload.get(p))\n", "                else:\n                    pass\n", "C13.R2")
v("C13", "silent-uncompress-elif", "silent", F,
  "            if (mask == \"B\"):\n                f.append(self._fillempty(shape, level + 1))",
  "            elif (mask == \"B\"):\n                f.append(self._fillempty(shape, level + 1))", None)
v("C20", "codec-ctor-drops-cumulative-payloads", "fire", "codec/tensor_codec.py",
  "        self.cumulative_payloads = cumulative_payloads\n", "", "C20.R9")
v("C20", "bitvector-ctor-no-base-init", "fire", "codec/formats/bitvector.py",
  "    def __init__(self):\n        CompressionFormat.__init__(self)\n        self.occupancies = list()",
  "    def __init__(self):\n        self.occupancies = list()", "C20.R9")
v("C20", "silent-ctor-super-init", "silent", "codec/formats/bitvector.py",
  "    def __init__(self):\n        CompressionFormat.__init__(self)\n        self.occupancies = list()",
  "    def __init__(self):\n        super().__init__()\n        self.occupancies = list()", None)


# D11 (fix 5b8e760): the empty-operand escape of the two-operand intersection
v("C04", "and-empty-operand-escape-removed", "fire", I,
  "            if len_a == len_b or a_coord is None or b_coord is None:",
  "            if len_a == len_b:", "C04.R7")
v("C04", "silent-and-empty-escape-reordered", "silent", I,
  "            if len_a == len_b or a_coord is None or b_coord is None:",
  "            if a_coord is None or b_coord is None or len_a == len_b:", None)


# D12 / D13 (fixes 8c55801, 56bbf0d): collecting-only precondition of project
v("C15", "and-padding-drops-rank-id", "fire", I,
  "                    a = self.a_fiber.project(trans_fn=lambda c: c + extra,\n                                             rank_id=a_rank_id).__iter__(tick=False)",
  "                    a = self.a_fiber.project(trans_fn=lambda c: c + extra).__iter__(tick=False)", "C15.R7")
v("C15", "getRange-drops-rank-id", "fire", F,
  "                            rank_id=self.getRankAttrs().getId(), start_pos=start_pos)",
  "                            start_pos=start_pos)", "C15.R7")


# D14 (fix: getShape ticking) and seed C15-e
v("C15", "getShape-default-traversal", "fire", F,
  "                for _, p in self.__iter__(tick=False):\n                    if not isinstance(p, Fiber):",
  "                for _, p in self:\n                    if not isinstance(p, Fiber):", "C15.R8")
v("C15", "silent-len-lazy-loop-spelled-sum", "silent", F,
  "            len_ = 0\n            for _ in self.iterOccupancy(tick=False):\n                len_ += 1\n            return len_",
  "            return sum(1 for _ in self.iterOccupancy(tick=False))", None)


# round e (seeded/<id>-e): breaks of a different kind (stale caches, hoisted
# conditions, helpers reused under a different condition, shared state)
seed("C01", "C01-e", "C01.R4")
seed("C02", "C02-e", "C02.R3")
seed("C05", "C02-e", "C05.R3")
seed("C04", "C04-e", "C04.R5")
seed("C05", "C05-e", "C05.R1")
seed("C07", "C07-e", "C07.R5")
seed("C08", "C08-e", "C08.R5")
seed("C09", "C09-e", "C09.R4")
seed("C10", "C10-e", "C10.R2")
seed("C11", "C11-e", "C11.R5")
seed("C12", "C12-e", "C12.R2")
seed("C13", "C13-e", "C13.R2")
seed("C14", "C14-e", "C14.R1")
seed("C15", "C15-e", "C15.R8")
seed("C16", "C16-e", "C16.R5")
seed("C17", "C17-e", "C17.R9")
seed("C18", "C18-e", "C18.R3")
seed("C19", "C19-e", "C19.R2")
seed("C20", "C20-e", "C20.R9")


# D15 (fix: negative position in __setitem__)
v("C01", "setitem-negative-position-unnormalised", "fire", F,
  "        if position < 0:\n            position += len(self.coords)\n            if position < 0:\n                raise IndexError(\"Fiber position out of range\")\n",
  "", "C01.R4")


# D16 (fix: _fillempty on an empty fiber)
v("C13", "fillempty-descent-unguarded", "fire", F,
  "            while len(f.payloads) > 0 and isinstance(f.payloads[0], Fiber):",
  "            while isinstance(f.payloads[0], Fiber):", "C13.R2")
v("C13", "silent-fillempty-guard-truthiness", "silent", F,
  "            while len(f.payloads) > 0 and isinstance(f.payloads[0], Fiber):",
  "            while f.payloads and isinstance(f.payloads[0], Fiber):", None)


# D17 (fix: absolute-style merge active range)
v("C14", "merge-absolute-range-from-upper", "fire", F,
  "            active_range = (range_start, range_end)\n        elif style == \"linear\":",
  "            active_range = self.getActive()\n        elif style == \"linear\":", "C14.R5")


# D18 (fix: fromYAMLfile name)
v("C13", "fromYAMLfile-drops-name", "fire", T,
  "        return Tensor.fromFiber(rank_ids, root, shape=shape, name=name)",
  "        return Tensor.fromFiber(rank_ids, root, shape=shape)", "C13.R1")


# D19 (fix: yaml reader matches writer)
v("C13", "tensor-parse-safe-load", "fire", T,
  "                y_file = yaml.full_load(stream)", "                y_file = yaml.safe_load(stream)", "C13.R1")
v("C13", "silent-tensor-dump-parse-both-safe", "silent", T,
  "            yaml.dump(tensor_dict, file)", "            yaml.dump(tensor_dict, file, Dumper=yaml.Dumper)", None)


# -- rules derived from the second mutation study (DESIGN.md 10.9)
_U = "codec/formats/uncompressed.py"
_C = "codec/formats/coord_list.py"
_B = "codec/formats/bitvector.py"
_TC = "codec/tensor_codec.py"
v("C20", "U-level-test-le", "fire", _U,
  "            if depth < len(ranks) - 1:\n                fiber, child_occupancy",
  "            if depth <= len(ranks) - 1:\n                fiber, child_occupancy", "C20.R10")
v("C20", "B-level-test-minus-2", "fire", _B,
  "        if depth < len(ranks) - 1:\n            if codec.format_descriptor",
  "        if depth < len(ranks) - 2:\n            if codec.format_descriptor", "C20.R10")
v("C20", "C-level-test-ge-spelling", "silent", _C,
  "            if depth == len(ranks) - 1:", "            if depth >= len(ranks) - 1:")
v("C20", "C-running-sum-starts-at-1", "fire", _C,
  "        cumulative_occupancy = 0\n", "        cumulative_occupancy = 1\n", "C20.R10")
v("C20", "C-running-sum-subtracts", "fire", _C,
  "                    cumulative_occupancy = cumulative_occupancy + child_occupancy",
  "                    cumulative_occupancy = cumulative_occupancy - child_occupancy", "C20.R10")
v("C20", "U-isinstance-swapped", "fire", _U,
  "                if isinstance(cumulative_occupancy, int):",
  "                if isinstance(int, cumulative_occupancy):", "C20.R10")
v("C20", "B-next-fmt-dropped", "fire", _B,
  "        if depth < len(ranks) - 1:\n            self.next_fmt = codec.fmts[depth + 1]        \n",
  "", "C20.R10")
v("C20", "B-descriptor-two-below", "fire", _B,
  'if codec.format_descriptor[depth + 1] == "Hf" or',
  'if codec.format_descriptor[depth + 2] == "Hf" or', "C20.R10")
v("C20", "B-mask-of-ones", "fire", _B,
  "        self.coords = [0]*dim_len", "        self.coords = [1]*dim_len", "C20.R10")
v("C20", "encode-slot-depth-plus-2", "fire", _TC,
  "        output_tensor[depth+1].append(fiber)", "        output_tensor[depth+2].append(fiber)",
  "C20.R11")
v("C20", "encode-root-last-format", "fire", _TC,
  "            if self.fmts[0].encodeUpperPayload():",
  "            if self.fmts[-1].encodeUpperPayload():", "C20.R11")
v("C20", "encode-root-extend", "fire", _TC,
  "                output[payloads_key].append(size)",
  "                output[payloads_key].extend(size)", "C20.R11")
v("C20", "B-setupSlice-no-chain", "fire", _B,
  "        super().setupSlice(base, bound, max_num)\n", "", "C20.R12")
v("C20", "B-limit-test-eq-none", "fire", _B,
  "        if self.num_to_ret != None and self.num_to_ret < self.num_ret_so_far:\n            return None\n        # move to the next nonzero",
  "        if self.num_to_ret == None and self.num_to_ret < self.num_ret_so_far:\n            return None\n        # move to the next nonzero",
  "C20.R12")
v("C20", "B-scan-stops-at-zero", "fire", _B,
  "self.coords[self.iter_handle.coords_handle] != 1:",
  "self.coords[self.iter_handle.coords_handle] != 0:", "C20.R12")
v("C20", "B-handle-pair-swapped", "fire", _B,
  "TwoHandle(self.iter_handle.coords_handle, self.iter_handle.payloads_handle)",
  "TwoHandle(self.iter_handle.payloads_handle, self.iter_handle.coords_handle)", "C20.R12")
v("C20", "C-lookup-empty-test-inverted", "fire", _C,
  "        if len(self.coords) == 0:\n            return None\n        \n        elif coord > self.coords[-1]",
  "        if len(self.coords) != 0:\n            return None\n        \n        elif coord > self.coords[-1]",
  "C20.R13")
v("C20", "C-lookup-front-answers-minus-1", "fire", _C,
  "            self.stats[self.coords_read_key] += 1; # add to num accesses in binary search\n            return 0",
  "            self.stats[self.coords_read_key] += 1; # add to num accesses in binary search\n            return -1",
  "C20.R13")
v("C20", "C-lookup-front-second-coordinate", "fire", _C,
  "        elif coord <= self.coords[0]: # short path to beginning",
  "        elif coord <= self.coords[1]: # short path to beginning", "C20.R13")
v("C20", "U-lookup-lower-bound-1", "fire", _U,
  "        if coord < 0 or coord >= self.shape:", "        if coord < 1 or coord >= self.shape:",
  "C20.R13")
v("C13", "parse-isinstance-swapped", "fire", T,
  "        if not isinstance(y_file, dict) or 'tensor' not in y_file:",
  "        if not isinstance(dict, y_file) or 'tensor' not in y_file:", "C13.R1")
v("C13", "dict2fiber-truthiness-of-coords", "fire", F,
  "            if 'coords' not in y_fiber:", "            if not y_fiber.get('coords'):", "C13.R1")
v("C13", "uncompress-recursion-args-swapped", "fire", F,
  "f.append(Payload.get(p).uncompress(shape, level + 1))",
  "f.append(Payload.get(p).uncompress(level + 1, shape))", "C13.R2")
v("C18", "subtree-sum-starts-at-1", "fire", FM,
  "        total = 0\n\n        while len(fibers) > 0:", "        total = 1\n\n        while len(fibers) > 0:",
  "C18.R3")
v("C18", "subtree-loop-ge-0", "fire", FM,
  "        while len(fibers) > 0:", "        while len(fibers) >= 0:", "C18.R3")
v("C18", "subtree-loop-truthiness", "silent", FM,
  "        while len(fibers) > 0:", "        while fibers:")
v("C07", "iter-format-source-under-is-none", "fire", I,
  "    elif self.getRankAttrs() is not None:\n        fmt = self.getRankAttrs().getFormat()",
  "    elif self.getRankAttrs() is None:\n        fmt = self.getRankAttrs().getFormat()", "C07.R3")
v("C18", "getElem-elem-case-inverted", "fire", FM,
  '        elif type_ == "elem":', '        elif type_ != "elem":', "C18.R3")
v("C18", "getElem-coord-gives-pbits", "fire", FM,
  '        if type_ == "coord":\n            return self.spec[rank]["cbits"]',
  '        if type_ == "coord":\n            return self.spec[rank]["pbits"]', "C18.R3")
v("C11", "fiber-ilshift-clears-only-when-empty", "fire", F,
  "        if len(self.coords) != 0:\n            #\n            # Clear out any existing data",
  "        if len(self.coords) == 0:\n            #\n            # Clear out any existing data", "C11.R5")
v("C11", "fiber-ilshift-clears-unconditionally", "silent", F,
  "        if len(self.coords) != 0:\n            #\n            # Clear out any existing data",
  "        if True:\n            #\n            # Clear out any existing data")
