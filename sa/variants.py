"""Self-validation of the checkers on variants of the current tree
(DESIGN.md section 5): must-fire mutants and must-stay-silent refactorings.

A variant is a textual edit (old -> new, exactly one occurrence) of one file
of /repo/fibertree, applied to a scratch copy under $TMPDIR (removed
afterwards).  Variants are declared per property in sa/variant_defs.py.
The kill matrix goes into the evidence of the thorough tier; a surviving
must-fire variant is a weakness of the checker (SELFTEST-SURVIVOR), a report
on a must-silent variant is a checker bug (SELFTEST-FALSE-ALARM, exit 2).
"""

import concurrent.futures as cf
import json
import os
import shutil
import subprocess
import sys
import tempfile

from .model import AnalysisError

PY = sys.executable


def _apply(repo_src, v, dst):
    shutil.copytree(os.path.join(repo_src, "fibertree"),
                    os.path.join(dst, "fibertree"),
                    ignore=shutil.ignore_patterns("__pycache__", "*.pyc"))
    if v.get("patch"):
        verif = os.path.dirname(os.path.dirname(os.path.abspath(__file__)))
        r = subprocess.run(["patch", "-p1", "-s", "-d", dst, "-i",
                            os.path.join(verif, v["patch"])],
                           stdout=subprocess.PIPE, stderr=subprocess.STDOUT, text=True)
        if r.returncode != 0:
            return "patch-does-not-apply: %s" % r.stdout[-200:]
        return None
    path = os.path.join(dst, "fibertree", v["file"])
    with open(path, encoding="utf-8") as f:
        src = f.read()
    n = src.count(v["old"])
    if n != v.get("count", 1):
        return "anchor-missing (%d occurrences)" % n
    src = src.replace(v["old"], v["new"])
    try:
        compile(src, path, "exec")
    except SyntaxError as e:
        return "does-not-compile: %s" % e
    with open(path, "w", encoding="utf-8") as f:
        f.write(src)
    return None


def run_variant(prop, v, repo_src):
    """Returns dict(name, kind, status, exit, lines)."""
    tmp = tempfile.mkdtemp(prefix="sa-variant-")
    try:
        err = _apply(repo_src, v, tmp)
        if err:
            return {"name": v["name"], "kind": v["kind"], "status": "skipped",
                    "why": err}
        env = dict(os.environ)
        env["VERIF_REPO"] = tmp
        env["VERIF_NO_EVIDENCE"] = "1"
        verif = os.path.dirname(os.path.dirname(os.path.abspath(__file__)))
        r = subprocess.run([PY, "-m", "sa.variant_runner", prop], cwd=verif,
                           env=env, stdout=subprocess.PIPE,
                           stderr=subprocess.STDOUT, text=True, timeout=600)
        out = r.stdout
        try:
            res = json.loads(out.strip().splitlines()[-1])
        except Exception:
            return {"name": v["name"], "kind": v["kind"], "status": "error",
                    "why": out[-500:]}
        new = res["new_findings"]
        want = v.get("expect_rule")
        if v["kind"] == "fire":
            hit = [f for f in new if (want is None or f["rule"] == want)]
            if res.get("error"):
                status = "killed-by-analysis-error"
            elif hit:
                status = "killed"
            else:
                status = "survived"
        else:
            status = "silent" if not new and not res.get("error") else "false-alarm"
        return {"name": v["name"], "kind": v["kind"], "status": status,
                "findings": [(f["rule"], f["function"], f["construct"][:80])
                             for f in new][:5],
                "keys": [(f["property"], f["rule"], f["function"], f["construct"])
                         for f in new],
                "error": res.get("error")}
    finally:
        shutil.rmtree(tmp, ignore_errors=True)


def run_all(prop, repo_src, jobs=None):
    from . import variant_defs
    vs = variant_defs.VARIANTS.get(prop, [])
    if not vs:
        return []
    jobs = jobs or min(16, os.cpu_count() or 4)
    with cf.ThreadPoolExecutor(max_workers=jobs) as ex:
        return list(ex.map(lambda v: run_variant(prop, v, repo_src), vs))


def attach(ctx, mod):
    """Thorough tier: run the variants and put the kill matrix into the
    evidence; a false alarm on a behaviour-preserving variant is fatal."""
    res = run_all(ctx.prop, ctx.prog.repo)
    # findings the analysed tree already has are not the variant's doing
    base = {f.key() for f in ctx.findings}
    for r in res:
        keys = [tuple(k) for k in r.pop("keys", [])]
        extra = [k for k in keys if k not in base]
        if r["kind"] == "silent" and r["status"] == "false-alarm" and \
                not extra and (not r.get("error") or ctx.errors):
            r["status"] = "silent"
        if r["kind"] == "fire" and r["status"] == "killed" and not extra:
            r["status"] = "survived"
    fire = [r for r in res if r["kind"] == "fire"]
    silent = [r for r in res if r["kind"] == "silent"]
    ctx.extra["selftest"] = {
        "must_fire": len(fire),
        "killed": sum(r["status"].startswith("killed") for r in fire),
        "survivors": [r["name"] for r in fire if r["status"] == "survived"],
        "skipped": [(r["name"], r.get("why")) for r in res if r["status"] == "skipped"],
        "must_stay_silent": len(silent),
        "silent": sum(r["status"] == "silent" for r in silent),
        "matrix": res,
    }
    for r in fire:
        if r["status"] == "survived":
            ctx.info("SELFTEST-SURVIVOR %s: the checker does not notice this "
                     "breaking edit" % r["name"])
    fa = [r for r in silent if r["status"] == "false-alarm"]
    errs = [r for r in res if r["status"] == "error"]
    if fa:
        ctx.errors.append("SELFTEST-FALSE-ALARM on behaviour-preserving "
                          "variant(s): %s" % [(r["name"], r.get("findings"),
                                               r.get("error")) for r in fa])
    if errs:
        ctx.errors.append("selftest harness error: %s" % errs[:2])
