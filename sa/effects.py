"""Write-effect, return-alias and holds summaries (DESIGN.md 2.3, 2.5, 2.6).

Every function gets, to a fix-point over the whole call graph:

* ``writes``  {(location, root, condition)}: abstract fields it may write,
  which object the written object is (or is part of), and under which
  tests on its own never-rebound flag parameters (``addtorank``,
  ``preserve_owner`` ...) -- constant propagation of flags through calls;
* ``rets``    roots the returned value may be (or be part of);
* ``hrets``   roots of objects a returned / yielded value may hold.

Roots
  ('p', name)      the object bound to parameter `name`
  ('fresh',)       allocated in this function (or a deep copy)
  ('glob', name)   class-level / module-level state
  ('unk',)         unknown
  ('o', key, r)    root `r` of the enclosing function `key`, captured by a
                   closure or by the class body of a nested iterator class
  ('sub', r)       some object reachable from (held by) r, not r itself
"""

import ast

from .model import text, own_nodes, lineno, construct, stmt_of
from . import types as T

FRESH = ("fresh",)
UNK = ("unk",)

MUTATORS = {"append", "insert", "extend", "pop", "remove", "clear", "sort",
            "reverse", "update", "add", "discard", "setdefault", "popitem",
            "__setitem__", "__delitem__", "appendleft", "popleft"}
VIEW_BUILTINS = {"list", "sorted", "reversed", "tuple", "zip", "enumerate",
                 "iter", "map", "filter", "set", "frozenset", "dict"}
PURE_BUILTINS = {"len", "int", "str", "float", "bool", "abs", "id", "range",
                 "isinstance", "issubclass", "callable", "all", "any", "repr",
                 "type", "chr", "ord", "print", "hasattr", "round", "format",
                 "divmod", "pow", "hash", "super", "exit", "sum"}
ELEM_BUILTINS = {"next", "min", "max", "getattr"}
COPY_BARRIERS = {"copy.deepcopy", "deepcopy", "pickle.loads"}
INPLACE = {ast.Add: "__iadd__", ast.Sub: "__isub__", ast.Mult: "__imul__",
           ast.Div: "__itruediv__", ast.LShift: "__ilshift__",
           ast.FloorDiv: "__ifloordiv__", ast.BitAnd: "__iand__",
           ast.BitOr: "__ior__", ast.BitXor: "__ixor__", ast.Mod: "__imod__",
           ast.RShift: "__irshift__", ast.Pow: "__ipow__"}
BINOPS = {ast.Add: ("__add__", "__radd__"), ast.Sub: ("__sub__", "__rsub__"),
          ast.Mult: ("__mul__", "__rmul__"),
          ast.Div: ("__truediv__", "__rtruediv__"),
          ast.FloorDiv: ("__floordiv__", "__rfloordiv__"),
          ast.BitAnd: ("__and__", "__rand__"), ast.BitOr: ("__or__", "__ror__"),
          ast.BitXor: ("__xor__", "__rxor__"),
          ast.LShift: ("__lshift__", "__rlshift__")}
OBJ_TYPES = {"Fiber", "Tensor", "Rank", "RankAttrs", "Payload", "CoordPayload"}
BOX_TYPES = {"Payload", "Fiber", "CoordPayload"}

IMM_ELEM_FIELDS = {"coords"}
IMM_FIELDS = {"_saved_pos", "_saved_count", "_saved_dist", "_ordered",
              "_unique", "_is_lazy", "_max_coord", "_id", "_fmt",
              "_estimated_shape", "_default_is_set", "_name", "_color",
              "_mutable", "coord", "_active_range", "yamlfile", "_shape"}

ATTR_OWNER = {
    "coords": "Fiber", "payloads": "Fiber", "_owner": "Fiber",
    "_rank_attrs": "Fiber", "_active_range": "Fiber", "_saved_pos": "Fiber",
    "_saved_count": "Fiber", "_saved_dist": "Fiber", "_ordered": "Fiber",
    "_unique": "Fiber", "_is_lazy": "Fiber", "iter": "Fiber",
    "_max_coord": "Fiber",
    "fibers": "Rank", "next_rank": "Rank", "_attrs": "Rank",
    "_id": "RankAttrs", "_shape": "RankAttrs", "_estimated_shape": "RankAttrs",
    "_fmt": "RankAttrs", "_default": "RankAttrs", "_default_is_set": "RankAttrs",
    "value": "Payload", "coord": "CoordPayload", "payload": "CoordPayload",
    "_root": "Tensor", "ranks": "Tensor", "_name": "Tensor", "_color": "Tensor",
    "_mutable": "Tensor", "yamlfile": "Tensor",
}
TREE_LOCS = {
    "Fiber.coords", "Fiber.payloads", "Fiber._owner", "Fiber._active_range",
    "Fiber._rank_attrs", "Fiber._ordered", "Fiber._unique", "Fiber._is_lazy",
    "Fiber.iter", "Fiber._max_coord",
    "Rank.fibers", "Rank.next_rank", "Rank._attrs",
    "RankAttrs._id", "RankAttrs._shape", "RankAttrs._estimated_shape",
    "RankAttrs._fmt", "RankAttrs._default", "RankAttrs._default_is_set",
    "Payload.value", "CoordPayload.coord", "CoordPayload.payload",
    "Tensor._root", "Tensor.ranks", "Tensor._name", "Tensor._color",
    "Tensor._mutable", "Tensor.yamlfile",
}
STATS_LOCS = {"Fiber._saved_pos", "Fiber._saved_count", "Fiber._saved_dist"}


def strip(r):
    while r[0] in ("sub", "hf"):
        r = r[1] if r[0] == "sub" else r[2]
    return r


def sub(roots, field=None):
    """Sub-objects of `roots`; `field` = first-level attribute through which
    they are reached (None = unknown / any)."""
    fs = frozenset([field]) if field else None
    out = set()
    for r in roots:
        if r == FRESH:
            out.add(FRESH)
        elif r[0] == "sub":
            out.add(r)
        else:
            out.add(("sub", r, fs))
    return out


def fields_of(r):
    """Field tag of a sub root (None = any), or () for an identity root."""
    if r[0] == "sub":
        return r[2]
    return ()


def plain(roots):
    return {strip(r) for r in roots}


def untag(h):
    """('hf', field, root) -> root"""
    while h[0] == "hf":
        h = h[2]
    return h


def untag_all(hs, field=None):
    """Drop held roots known to sit under a different field; untag the rest."""
    out = set()
    for h in hs:
        if h[0] == "hf":
            if field is not None and h[1] != field:
                continue
            out.add(untag(h))
        else:
            out.add(h)
    return out


def is_tree_loc(loc):
    if loc in TREE_LOCS:
        return True
    if loc.startswith("?."):
        a = loc[2:]
        return a in ATTR_OWNER and "%s.%s" % (ATTR_OWNER[a], a) in TREE_LOCS
    return False


class Witness:
    __slots__ = ("frames", "uncertain")

    def __init__(self, frames, uncertain=False):
        self.frames = frames        # [(func key, line, text)] outermost first
        self.uncertain = uncertain  # reached through an ambiguous edge

    def extend(self, frame, uncertain=False):
        fr = self.frames if len(self.frames) <= 12 else self.frames[-12:]
        return Witness([frame] + fr, self.uncertain or uncertain)

    def render(self):
        return " -> ".join("%s:%d `%s`" % (k, l, t) for k, l, t in self.frames)

    def site(self):
        """(function key, construct) of the statement that finally writes."""
        k, l, t = self.frames[-1]
        return k, t

    def entry(self):
        return self.frames[0]


class Summary:
    def __init__(self):
        self.writes = {}     # (loc, root, cond) -> Witness
        self.rets = set()
        self.hrets = set()
        # (container parameter, value parameter): the function stores (part
        # of) the object bound to the second into an object rooted at the first
        self.pstores = set()

    def sig(self):
        return (frozenset((k, w.uncertain) for k, w in self.writes.items()),
                frozenset(self.rets), frozenset(self.hrets),
                frozenset(self.pstores))


class Effects:
    SKIP_PREFIX = ("codec/", "notebook/")

    def __init__(self, prog):
        self.prog = prog
        self.ty = T.typing_of(prog)
        self.sum = {f: Summary() for f in prog.funcs.values()}
        self.lazy_iters = {}
        self._local = {}
        self._reading = set()
        self._cb = {}
        self.call_sites = {}      # callee -> [(caller, call node, target)]
        self._index_calls()
        self._solve()

    def in_scope(self, f):
        return not f.module.rel.startswith(self.SKIP_PREFIX)

    # ------------------------------------------------------------------
    def _index_calls(self):
        self.stats = {"resolved": 0, "byname": 0, "ambiguous": 0,
                      "external": 0, "ctor": 0, "callback": 0}
        self.ambiguous_sites = []
        for f in self.prog.funcs.values():
            if not self.in_scope(f):
                continue
            for n in own_nodes(f):
                if not isinstance(n, ast.Call):
                    continue
                tg = self.ty.resolve(f, n)
                self.stats[tg.kind] = self.stats.get(tg.kind, 0) + 1
                if tg.kind == "ambiguous":
                    self.ambiguous_sites.append((f.key, lineno(n), text(n)[:80]))
                for callee in tg.funcs:
                    self.call_sites.setdefault(callee, []).append((f, n, tg))
                if isinstance(n.func, ast.Attribute) and \
                        n.func.attr == "fromIterator" and n.args and \
                        isinstance(n.args[0], ast.Name):
                    lc = self.ty.local_callable(f, n.args[0].id)
                    if isinstance(lc, tuple):
                        self.lazy_iters.setdefault(f, []).append((n, lc[1]))

    def callback_targets(self, func, pname):
        """Functions that resolved call sites of `func` pass for `pname`."""
        key = (func, pname)
        if key in self._cb:
            return self._cb[key]
        self._cb[key] = []
        out = []
        for caller, call, tg in self.call_sites.get(func, []):
            ctx = FuncCtx(self, caller)
            amap = ctx.argmap(call, func, tg)
            for a in amap.get(pname, []):
                if a is None or isinstance(a, tuple):
                    continue
                refs = self.ty.callable_ref(caller, a)
                if not refs and isinstance(a, ast.Name) and \
                        a.id in caller.all_param_names():
                    refs = self.callback_targets(caller, a.id)
                for r in refs:
                    if r not in out:
                        out.append(r)
        ci = func.cls or getattr(func, "injected_into", None)
        if ci is not None:
            for nm, (target, args) in ci.partial.items():
                if target != func.name:
                    continue
                for p, a in zip(func.params[1:], args):
                    if p == pname and isinstance(a, ast.Name) and \
                            a.id in ci.methods and ci.methods[a.id] not in out:
                        out.append(ci.methods[a.id])
        self._cb[key] = out
        return out

    def _solve(self):
        funcs = [f for f in self.prog.funcs.values() if self.in_scope(f)]
        self.rdeps = {}
        work = list(funcs)
        inwork = set(work)
        self.evals = 0
        while work:
            f = work.pop(0)
            inwork.discard(f)
            self._local = {}
            self._reading = set()
            old = self.sum[f].sig()
            new = FuncCtx(self, f).run()
            self.evals += 1
            for g in self._reading:
                self.rdeps.setdefault(g, set()).add(f)
            new.rets |= self.sum[f].rets
            new.hrets |= self.sum[f].hrets
            if new.sig() != old:
                self.sum[f] = new
                for g in self.rdeps.get(f, ()):
                    if g not in inwork:
                        inwork.add(g)
                        work.append(g)
            if self.evals > 80000:
                raise RuntimeError("effects fix-point does not converge")
        self._local = {}

    def summary(self, callee):
        self._reading.add(callee)
        return self.sum[callee]

    def _ctx(self, func):
        c = self._local.get(func)
        if c is None:
            c = FuncCtx(self, func)
            self._local[func] = c
        self._reading.add(func)
        return c

    # -- query API used by the rules ----------------------------------------
    def writes(self, func, tree_only=True, roots=None):
        """[(loc, plain root, cond, witness)] of `func`'s summary."""
        out = []
        for (loc, r, cond), w in self.sum[func].writes.items():
            if tree_only and not is_tree_loc(loc):
                continue
            pr = strip(r)
            if roots is not None and pr not in roots:
                continue
            out.append((loc, pr, cond, w))
        return out


class FuncCtx:
    def __init__(self, eff, f):
        self.eff = eff
        self.f = f
        self.ty = eff.ty
        self.prog = eff.prog
        self.envR = {}
        self.envH = {}
        # fix-point over mutually dependent locals (worklists: `x = w.pop()`
        # ... `w.append(f(x))`): values computed while a name further out was
        # still a placeholder are re-evaluated, seeded with what is known,
        # until nothing changes
        self._open = set()
        self._touched = []
        self._seed = {}
        self._cyc = False
        self._iterating = False
        self.out = Summary()
        self.facts = self.ty.assignments(f)
        self.store_facts = {}
        self._conds = {}
        self._collect_stores()

    # -- scopes -------------------------------------------------------------
    def _outer_scope(self):
        f = self.f
        if f.outer is not None:
            return f.outer
        if f.cls is not None and f.cls.outer is not None:
            return f.cls.outer
        return None

    @staticmethod
    def _wrap_outer(scope, roots):
        out = set()
        for r in roots:
            issub = r[0] == "sub"
            b = strip(r)
            if b == FRESH:
                b = ("o", scope.key, FRESH)
            elif b[0] not in ("glob", "unk", "o"):
                b = ("o", scope.key, b)
            out.add(("sub", b, r[2]) if issub else b)
        return out

    def _collect_stores(self):
        """local name -> [(first-level field | None, stored value expr)]"""
        sf = self.store_facts
        for n in own_nodes(self.f):
            if isinstance(n, ast.AugAssign) and not isinstance(
                    n.value, (ast.List, ast.ListComp)):
                continue        # in-place arithmetic stores no reference
            if isinstance(n, (ast.Assign, ast.AugAssign, ast.AnnAssign)):
                targets = n.targets if isinstance(n, ast.Assign) else [n.target]
                for t in targets:
                    base, fld = _base_field(t)
                    if base is not None and not isinstance(t, ast.Name) \
                            and n.value is not None:
                        sf.setdefault(base, []).append((fld, n.value))
            elif isinstance(n, ast.Call) and isinstance(n.func, ast.Attribute) \
                    and n.func.attr in ("append", "insert", "extend", "add",
                                        "update", "setdefault", "appendleft"):
                base, fld = _base_field(n.func.value)
                if base is not None:
                    for a in n.args:
                        sf.setdefault(base, []).append((fld, a))
                self._callee_stores(n)
            elif isinstance(n, ast.Call):
                self._callee_stores(n)

    def _callee_stores(self, call):
        """A repo function that stores one of its arguments into another
        (Fiber.append(coord, value): value into self) makes the local the
        container argument is rooted at hold the value argument."""
        tg = self.ty.resolve(self.f, call)
        if tg.kind not in ("resolved", "byname"):
            return
        for callee in tg.funcs:
            if not self.eff.in_scope(callee):
                continue
            ps = self.eff.summary(callee).pstores
            if not ps:
                continue
            amap = self.argmap(call, callee, tg)
            for a, b in ps:
                for ce in amap.get(a, []):
                    if ce is None or isinstance(ce, tuple):
                        continue
                    base, fld = _base_field(ce) if not isinstance(ce, ast.Name) \
                        else (ce.id, None)
                    if base is None:
                        continue
                    holders = {base}
                    if isinstance(ce, ast.Subscript):
                        # an element of a local container: the locals that
                        # were put into that container are the same objects
                        holders |= self._element_names(base)
                    for ve in amap.get(b, []):
                        if ve is None:
                            continue
                        v = ve[1] if isinstance(ve, tuple) else ve
                        for h in holders:
                            self.store_facts.setdefault(h, []).append(("payloads", v))

    def _element_names(self, cname):
        out = set()
        for n in own_nodes(self.f):
            if isinstance(n, ast.Assign):
                for t in n.targets:
                    if isinstance(t, ast.Name) and t.id == cname:
                        for x in ast.walk(n.value):
                            if isinstance(x, ast.List):
                                out |= {e.id for e in x.elts if isinstance(e, ast.Name)}
                    if isinstance(t, ast.Subscript) and isinstance(t.value, ast.Name) \
                            and t.value.id == cname and isinstance(n.value, ast.Name):
                        out.add(n.value.id)
            elif isinstance(n, ast.Call) and isinstance(n.func, ast.Attribute) and \
                    n.func.attr in ("append", "insert") and \
                    isinstance(n.func.value, ast.Name) and n.func.value.id == cname:
                out |= {a.id for a in n.args if isinstance(a, ast.Name)}
        return out

    def reach(self, node):
        return plain(self.R(node)) | self.H(node)

    def reach_t(self, node):
        return plain(self.R(node)) | self.Ht(node)

    # -- identity roots ---------------------------------------------------------
    def R(self, node, path=()):
        f = self.f
        if node is None or isinstance(node, (ast.Constant, ast.JoinedStr,
                                             ast.Compare, ast.Lambda,
                                             ast.UnaryOp)):
            return set()
        if isinstance(node, ast.Name):
            return self._name_R(node.id, path, node)
        if isinstance(node, ast.Attribute):
            return self._attr_R(node)
        if isinstance(node, ast.Subscript):
            if isinstance(node.slice, ast.Slice):
                return self.R(node.value)
            if isinstance(node.value, ast.Attribute) and \
                    node.value.attr in IMM_ELEM_FIELDS:
                return set()
            st = self.ty.expr(f, node)
            if st and st <= T.IMMUTABLE:
                return set()
            return sub(self.R(node.value)) | sub(self.H(node.value))
        if isinstance(node, ast.Starred):
            return self.R(node.value, path)
        if isinstance(node, (ast.Tuple, ast.List, ast.Set)):
            if path and path[0] < len(node.elts):
                return self.R(node.elts[path[0]], path[1:])
            if path:
                out = set()
                for e in node.elts:
                    out |= self.R(e)
                return out
            return {FRESH}
        if isinstance(node, (ast.Dict, ast.ListComp, ast.GeneratorExp,
                             ast.SetComp, ast.DictComp)):
            return {FRESH}
        if isinstance(node, ast.BoolOp):
            out = set()
            for v in node.values:
                out |= self.R(v, path)
            return out
        if isinstance(node, ast.IfExp):
            return self.R(node.body, path) | self.R(node.orelse, path)
        if isinstance(node, ast.BinOp):
            lt = self.ty.expr(f, node.left)
            rt = self.ty.expr(f, node.right)
            if _is_fiber(lt) or _is_fiber(rt):
                return self._binop_value(node)[0]
            if (lt | rt) & {T.LIST, T.TUPLE}:
                return {FRESH}
            return set()
        if isinstance(node, ast.Call):
            return self._call_value(node, path)[0]
        if isinstance(node, ast.NamedExpr):
            return self.R(node.value, path)
        if isinstance(node, (ast.Yield, ast.Await)):
            return {UNK}
        return set()

    # -- held roots -----------------------------------------------------------
    def H(self, node, field=None):
        return untag_all(self.Ht(node), field)

    def Ht(self, node):
        if node is None or isinstance(node, (ast.Constant, ast.JoinedStr,
                                             ast.Compare, ast.Lambda,
                                             ast.UnaryOp)):
            return set()
        if isinstance(node, ast.Name):
            return self._name_Ht(node.id, node)
        if isinstance(node, (ast.Tuple, ast.List, ast.Set)):
            out = set()
            for e in node.elts:
                out |= self.reach(e)
            return out - {FRESH}
        if isinstance(node, ast.Dict):
            out = set()
            for e in node.values:
                if e is not None:
                    out |= self.reach(e)
            return out - {FRESH}
        if isinstance(node, (ast.ListComp, ast.GeneratorExp, ast.SetComp)):
            return self.reach(node.elt) - {FRESH}
        if isinstance(node, ast.DictComp):
            return self.reach(node.value) - {FRESH}
        if isinstance(node, ast.Starred):
            return self.Ht(node.value)
        if isinstance(node, ast.BoolOp):
            out = set()
            for v in node.values:
                out |= self.Ht(v)
            return out
        if isinstance(node, ast.IfExp):
            return self.Ht(node.body) | self.Ht(node.orelse)
        if isinstance(node, ast.BinOp):
            lt = self.ty.expr(self.f, node.left)
            rt = self.ty.expr(self.f, node.right)
            if _is_fiber(lt) or _is_fiber(rt):
                return self._binop_value(node)[1]
            if (lt | rt) & {T.LIST, T.TUPLE}:
                return self.H(node.left) | self.H(node.right)
            return set()
        if isinstance(node, ast.Call):
            return self._call_value(node, ())[1]
        if isinstance(node, ast.Attribute):
            if isinstance(node.value, ast.Name):
                return self._name_H(node.value.id, node.value, node.attr)
            return self.H(node.value, node.attr)
        if isinstance(node, ast.Subscript):
            return self.Ht(node.value)
        if isinstance(node, ast.NamedExpr):
            return self.Ht(node.value)
        return set()

    def _name_R(self, name, path, node=None):
        f = self.f
        facts, is_param = self.ty.facts_at(f, name, node)
        allf = self.facts.get(name, [])
        key = (name, path, frozenset(id(x) for x in facts), is_param)
        if key in self.envR:
            if ("R", key) in self._open:
                self._cyc = True
            return set(self.envR[key])
        outer = not self._open
        out = set(self._seed.get(("R", key), ()))
        self.envR[key] = set(out)
        self._open.add(("R", key))
        self._touched.append(("R", key))
        if is_param:
            pt = T.flat(self.ty.param_shape(f, name))
            if f.kind == "class" and f.params and name == f.params[0] and f.cls:
                out.add(("glob", f.cls.name))
            elif not (pt and pt <= T.IMMUTABLE):
                out.add(("sub", ("p", name), None) if path else ("p", name))
        if not allf and name not in f.all_param_names():
            out |= self._free_R(name, path)
        for _ in range(6):
            before = set(out)
            self.envR[key] = set(out)
            for fa in facts:
                kind, value, fpath = fa
                if isinstance(fa.stmt, ast.AugAssign):
                    continue        # in-place operators return the same object
                full = tuple(fpath) + tuple(path)
                if kind == "expr":
                    out |= self.R(value, full)
                elif kind == "elem":
                    out |= self._elem_R(value, full)
            if out == before:
                break
        vt = self.ty.var(f, name, node)
        if not path and vt and vt <= T.IMMUTABLE:
            out = set()
        self.envR[key] = set(out)
        self._open.discard(("R", key))
        if outer:
            out = self._stabilise(lambda: self._name_R(name, path, node), out)
        return out

    def _stabilise(self, again, out):
        """Outermost name of an evaluation: if a cycle was met, re-evaluate
        everything cached on the way, seeded with the current values, until
        the values no longer grow."""
        if self._iterating:
            return out
        n = 0
        while self._cyc and n < 5:
            n += 1
            self._cyc = False
            seed = {}
            for tag, k in self._touched:
                env = self.envR if tag == "R" else self.envH
                if k in env:
                    seed[(tag, k)] = set(env[k])
                    del env[k]
            self._touched = []
            self._seed = seed
            self._iterating = True
            try:
                out = again()
            finally:
                self._iterating = False
            same = True
            for tag, k in self._touched:
                env = self.envR if tag == "R" else self.envH
                if env.get(k, set()) != seed.get((tag, k), set()):
                    same = False
            if same:
                break
        self._seed = {}
        self._touched = []
        self._cyc = False
        return out

    def _name_H(self, name, node=None, field=None):
        return untag_all(self._name_Ht(name, node, field), field)

    def _name_Ht(self, name, node=None, field=None):
        facts, is_param = self.ty.facts_at(self.f, name, node)
        key = (name, frozenset(id(x) for x in facts), field)
        if key in self.envH:
            if ("H", key) in self._open:
                self._cyc = True
            return set(self.envH[key])
        outer = not self._open
        out = set(self._seed.get(("H", key), ()))
        self.envH[key] = set(out)
        self._open.add(("H", key))
        self._touched.append(("H", key))
        if not self.facts.get(name) and name not in self.f.all_param_names():
            out |= self._free_H(name)
        for _ in range(6):
            before = set(out)
            self.envH[key] = set(out)
            for fa in facts:
                kind, value, fpath = fa
                if isinstance(fa.stmt, ast.AugAssign):
                    continue
                if kind == "expr":
                    out |= self.Ht(value)
                elif kind == "add":
                    out |= self.reach(value)
                elif kind == "elem":
                    if fpath and self._lazy_source(value) is not None:
                        continue    # element roots are path-sensitive (R)
                    et = T.flat(T.project(self.ty.elem_shape(self.f, value),
                                          fpath))
                    if et and et <= T.IMMUTABLE:
                        continue    # e.g. the coordinate of a fiber element
                    out |= self.H(value)
            for fld, v in self.store_facts.get(name, []):
                if field is None or fld is None or fld == field:
                    out |= self.reach(v)
            out.discard(FRESH)
            if out == before:
                break
        self.envH[key] = set(out)
        self._open.discard(("H", key))
        if outer:
            out = self._stabilise(lambda: self._name_Ht(name, node, field), out)
        return out

    def _scopes(self):
        scope = self._outer_scope()
        while scope is not None:
            yield scope
            nxt = scope.outer
            if nxt is None and scope.cls is not None:
                nxt = scope.cls.outer
            scope = nxt

    def _free_R(self, name, path):
        mod = self.f.module
        for scope in self._scopes():
            if name in scope.all_param_names() or \
                    name in self.ty.assignments(scope):
                octx = self.eff._ctx(scope)
                return self._wrap_outer(scope, octx._name_R(name, path))
            if name in scope.inner_funcs or name in scope.inner_classes:
                return set()
        if name in mod.classes:
            return {("glob", name)}
        if name in mod.imports:
            src, nm = mod.imports[name]
            if nm is not None and nm in self.prog.class_by_name:
                return {("glob", nm)}
            return set()
        if name in mod.globals:
            return {("glob", mod.rel + ":" + name)}
        return set()

    def _free_H(self, name):
        for scope in self._scopes():
            if name in scope.all_param_names() or \
                    name in self.ty.assignments(scope):
                octx = self.eff._ctx(scope)
                return plain(self._wrap_outer(scope, octx._name_H(name)))
        return set()

    def _elem_R(self, it, path):
        """Roots of one element of iterable `it`, projected by `path`."""
        f = self.f
        if isinstance(it, ast.Call):
            fn = text(it.func)
            if fn == "enumerate" and it.args:
                if path and path[0] == 0:
                    return set()
                return self._elem_R(it.args[0], path[1:] if path else ())
            if fn == "zip":
                if path and path[0] < len(it.args):
                    return self._elem_R(it.args[path[0]], path[1:])
                out = set()
                for a in it.args:
                    out |= self._elem_R(a, ())
                return out
            if fn in ("reversed", "list", "sorted", "iter", "tuple") and it.args:
                return self._elem_R(it.args[0], path)
            if fn == "range":
                return set()
            if isinstance(it.func, ast.Attribute) and it.func.attr == "getCoords":
                return set()
        if isinstance(it, ast.Attribute) and it.attr in IMM_ELEM_FIELDS:
            return set()
        if path:
            lz = self._lazy_elem(it, path)
            if lz is not None:
                return lz
        es = self.ty.elem_shape(f, it)
        if path and path[0] == 0 and es == T.CP_SHAPE:
            return set()                # the coordinate of a fiber element
        if not isinstance(es, tuple) and es and es <= T.IMMUTABLE:
            return set()
        return sub(self.R(it)) | sub(self.H(it))

    def _lazy_source(self, it, depth=0):
        """(builder function, argmap) when `it` is the lazy fiber built by a
        co-iteration operator / builder call."""
        if depth > 3:
            return None
        if isinstance(it, ast.BinOp):
            lt = self.ty.expr(self.f, it.left)
            rt = self.ty.expr(self.f, it.right)
            if _is_fiber(lt) or _is_fiber(rt):
                m, amap = self._binop_method(it)
                if m is not None and m in self.eff.lazy_iters:
                    return m, amap
            return None
        if isinstance(it, ast.Call):
            tg = self.ty.resolve(self.f, it)
            if tg.kind in ("resolved", "byname") and len(tg.funcs) == 1 and \
                    tg.funcs[0] in self.eff.lazy_iters:
                return tg.funcs[0], self.argmap(it, tg.funcs[0], tg)
            return None
        if isinstance(it, ast.Name):
            facts, is_param = self.ty.facts_at(self.f, it.id, it)
            if not is_param and len(facts) == 1 and facts[0].kind == "expr" \
                    and not facts[0].path:
                return self._lazy_source(facts[0].value, depth + 1)
        return None

    def _lazy_elem(self, it, path):
        """Path-sensitive roots of an element of a lazily built fiber: taken
        from the yield expressions of the iterator class it was built from."""
        src = self._lazy_source(it)
        if src is None:
            return None
        builder, amap = src
        out = set()
        for call, ci in self.eff.lazy_iters.get(builder, []):
            itf = ci.methods.get("__iter__")
            if itf is None:
                return None
            ictx = self.eff._ctx(itf)
            ys = [n for n in own_nodes(itf) if isinstance(n, ast.Yield)
                  and n.value is not None]
            for y in ys:
                for r in ictx.R(y.value, path):
                    issub = r[0] == "sub"
                    b = strip(r)
                    if b == FRESH:
                        out.add(FRESH)
                    elif b[0] == "o" and b[1] == builder.key:
                        inner = b[2]
                        if inner == FRESH:
                            out.add(FRESH)
                            continue
                        rr = ("sub", inner, r[2]) if issub else inner
                        out |= self.map_root(rr, amap)
                    else:
                        out.add(r)
        return out

    def _attr_R(self, node):
        f = self.f
        base = node.value
        bt = self.ty.expr(f, base)
        for t in bt:
            ci = self.ty.cls_of(t) if t.startswith("nested:") else None
            if ci is not None and node.attr in ci.class_attrs and \
                    ci.outer is not None and \
                    not self.ty._instance_attr(ci, node.attr):
                octx = self.eff._ctx(ci.outer) if f is not ci.outer else self
                inner = octx.R(ci.class_attrs[node.attr])
                if f is ci.outer:
                    return inner
                return self._wrap_outer(ci.outer, inner)
        if node.attr in IMM_FIELDS:
            return set()
        at = self.ty.expr(f, node)
        if at and at <= T.IMMUTABLE:
            return set()
        if isinstance(base, ast.Name):
            held = self._name_H(base.id, base, node.attr)
        else:
            held = self.H(base)
        return sub(self.R(base), node.attr) | sub(held)

    # -- calls ------------------------------------------------------------------
    def argmap(self, call, callee, tg):
        m = {}
        params = list(callee.params)
        recv = call.func.value if isinstance(call.func, ast.Attribute) else None
        bound = False
        if callee.kind == "method" or (callee.kind == "function" and
                                       getattr(callee, "injected_into", None)
                                       and recv is not None):
            rt = self.ty.expr(self.f, recv) if recv is not None else set()
            class_recv = bool(rt) and all(t.startswith("class:") for t in rt)
            if recv is not None and not class_recv:
                bound = True
        if tg.kind == "ctor":
            if params:
                m[params[0]] = [None]
                params = params[1:]
        elif callee.kind == "class":
            if params:
                m[params[0]] = []
                params = params[1:]
        elif bound and params:
            m[params[0]] = [recv]
            params = params[1:]
        i = 0
        star, dstar = [], []
        for a in call.args:
            if isinstance(a, ast.Starred):
                star.append(a.value)
                continue
            if i < len(params):
                m.setdefault(params[i], []).append(a)
            elif callee.vararg:
                m.setdefault(callee.vararg, []).append(a)
            i += 1
        for kw in call.keywords:
            if kw.arg is None:
                dstar.append(kw.value)
            elif kw.arg in callee.params or kw.arg in callee.kwonly:
                m.setdefault(kw.arg, []).append(kw.value)
            elif callee.kwarg:
                m.setdefault(callee.kwarg, []).append(kw.value)
        if star:
            for pn in params[i:] + ([callee.vararg] if callee.vararg else []):
                m.setdefault(pn, []).extend(("*", s) for s in star)
        if dstar:
            for pn in params[i:] + callee.kwonly + \
                    ([callee.kwarg] if callee.kwarg else []):
                if pn not in m or pn == callee.kwarg:
                    m.setdefault(pn, []).extend(("*", s) for s in dstar)
        return m

    def _actual_R(self, a):
        if a is None:
            return {FRESH}
        if isinstance(a, tuple):        # element of a *args / **kwargs value
            return sub(self.R(a[1])) | sub(self.H(a[1]))
        return self.R(a)

    def _actual_H(self, a, fields=None):
        if a is None:
            return set()
        if isinstance(a, tuple):
            return self.H(a[1])
        if fields:
            out = set()
            for fld in fields:
                if isinstance(a, ast.Name):
                    out |= self._name_H(a.id, a, fld)
                else:
                    out |= self.H(a, fld)
            return out
        return self.H(a)

    def _retag(self, roots, fs):
        out = set()
        for r in roots:
            if r == FRESH or r[0] == "sub":
                out.add(r)
            else:
                out.add(("sub", r, fs))
        return out

    def map_root(self, r, amap):
        """Callee root -> our roots (identity sense)."""
        issub = r[0] == "sub"
        b = strip(r)
        if b[0] == "p":
            out = set()
            for a in amap.get(b[1], []):
                if issub:
                    fs = r[2]
                    out |= self._retag(self._actual_R(a), fs)
                    out |= sub(self._actual_H(a, fs))
                else:
                    out |= self._actual_R(a)
            return out
        if b[0] == "o" and b[1] == self.f.key:
            return self._retag({b[2]}, r[2]) if issub else {b[2]}
        return {r}

    def map_held(self, r, amap):
        if r[0] == "hf":
            return {("hf", r[1], x) for x in self.map_held(r[2], amap)}
        b = strip(r)
        if b[0] == "p":
            out = set()
            for a in amap.get(b[1], []):
                out |= plain(self._actual_R(a)) | self._actual_H(a)
            out.discard(FRESH)
            return out
        if b[0] == "o" and b[1] == self.f.key:
            return {b[2]} - {FRESH}
        if b == FRESH:
            return set()
        return {b}

    def _summary_value(self, callee, amap):
        s = self.eff.summary(callee)
        Rs, Hs = set(), set()
        for r in s.rets:
            Rs |= {FRESH} if r == FRESH else self.map_root(r, amap)
        for r in s.hrets:
            Hs |= self.map_held(r, amap)
        return Rs, Hs

    @staticmethod
    def _all_args(call):
        return list(call.args) + [k.value for k in call.keywords]

    def _callees(self, call, tg):
        funcs = list(tg.funcs)
        if tg.kind == "callback":
            f = self.f
            if tg.name in f.all_param_names():
                for t in self.eff.callback_targets(f, tg.name):
                    if t not in funcs:
                        funcs.append(t)
            else:
                for sc in self._scopes():
                    if tg.name in sc.all_param_names():
                        for t in self.eff.callback_targets(sc, tg.name):
                            if t not in funcs:
                                funcs.append(t)
                        break
        return funcs

    def _call_value(self, call, path):
        """(identity roots, held roots) of the value of a call."""
        f = self.f
        fn = call.func
        full = text(fn)
        if full in COPY_BARRIERS:
            return {FRESH}, set()
        if isinstance(fn, ast.Name) and not self.facts.get(fn.id) and \
                fn.id not in f.all_param_names():
            if fn.id in PURE_BUILTINS:
                return set(), set()
            if fn.id in ELEM_BUILTINS:
                if fn.id == "next" and call.args:
                    return self._elem_R(call.args[0], path), set()
                out = set()
                for a in call.args:
                    out |= sub(self.R(a)) | sub(self.H(a))
                return out, set()
            if fn.id in VIEW_BUILTINS:
                if path:
                    return self._elem_R(call, path), set()
                held = set()
                for a in call.args:
                    held |= self.reach(a)
                return {FRESH}, held - {FRESH}
        tg = self.ty.resolve(f, call)
        if tg.kind == "ctor":
            held = set()
            for a in self._all_args(call):
                at = self.ty.expr(f, a)
                if at and at <= T.IMMUTABLE:
                    continue
                held |= self.reach(a)
            held.discard(FRESH)
            cname = tg.cls.name
            if cname == "Payload" and call.args:
                at = self.ty.expr(f, call.args[0])
                if not at or "Fiber" in at:
                    return {FRESH} | self.R(call.args[0]), held
                return {FRESH}, set()
            if cname == "CoordPayload" and path:
                if path[0] == 0:
                    return set(), set()
                if path[0] == 1 and len(call.args) > 1:
                    return self.R(call.args[1], path[1:]), self.H(call.args[1])
            return {FRESH}, held
        if tg.kind == "external":
            recv = tg.recv
            if recv is not None:
                rt = self.ty.expr(f, recv)
                is_mod = any(t.startswith(("module:", "ext:")) for t in rt) or \
                    (isinstance(recv, ast.Name) and recv.id in f.module.imports)
                if is_mod:
                    if full.startswith(("bisect.", "random.", "math.", "os.path.")):
                        return set(), set()
                    held = set()
                    for a in self._all_args(call):
                        held |= self.reach(a)
                    return {FRESH}, held - {FRESH}
                if tg.name == "copy":
                    return {FRESH}, self.H(recv) | (plain(self.R(recv)) - {FRESH}
                                                     if False else set())
                if tg.name in ("join", "format", "split", "strip", "index",
                               "count", "startswith", "endswith", "readline",
                               "read", "indices", "lower", "upper", "replace"):
                    return set(), set()
                return sub(self.R(recv)) | sub(self.H(recv)), set()
            held = set()
            for a in self._all_args(call):
                held |= self.reach(a)
            return {FRESH}, held - {FRESH}
        funcs = self._callees(call, tg)
        Rs, Hs = set(), set()
        if path and funcs and tg.kind in ("resolved", "byname") and \
                not any(c.is_generator for c in funcs):
            for callee in funcs:
                amap = self.argmap(call, callee, tg)
                cctx = self.eff._ctx(callee)
                for n in own_nodes(callee):
                    if isinstance(n, ast.Return) and n.value is not None:
                        for r in cctx.R(n.value, path):
                            Rs |= {FRESH} if strip(r) == FRESH else \
                                self.map_root(r, amap)
            return Rs, set()
        for callee in funcs:
            amap = self.argmap(call, callee, tg)
            r, h = self._summary_value(callee, amap)
            Rs |= r
            Hs |= h
        if tg.kind == "callback" and not funcs:
            # opaque user callback: result assumed built from its arguments
            for a in self._all_args(call):
                Rs |= sub(self.R(a)) | sub(self.H(a))
            Rs.add(FRESH)
        if path:
            Rs = sub(Rs) | sub(Hs)
        Hs.discard(FRESH)
        return Rs, Hs

    def _binop_method(self, node):
        names = BINOPS.get(type(node.op))
        if not names:
            return None, {}
        lt = self.ty.expr(self.f, node.left)
        if _is_fiber(lt):
            m = self.prog.maybe_method("Fiber", names[0])
            a, b = node.left, node.right
        else:
            m = self.prog.maybe_method("Fiber", names[1])
            a, b = node.right, node.left
        if m is None:
            return None, {}
        amap = {}
        if m.params:
            amap[m.params[0]] = [a]
        if len(m.params) > 1:
            amap[m.params[1]] = [b]
        return m, amap

    def _binop_value(self, node):
        m, amap = self._binop_method(node)
        if m is None:
            return set(), set()
        return self._summary_value(m, amap)

    # -- flag conditions ---------------------------------------------------------
    def cond_of(self, node):
        from .cfg import atomic_guards
        st = stmt_of(node)
        if st is None:
            return frozenset()
        key = id(st)
        if key in self._conds:
            return self._conds[key]
        out = set()
        params = set(self.f.all_param_names())
        for test, pol in atomic_guards(st):
            atom = self._flag_atom(test, pol, params)
            if atom is not None:
                out.add(atom)
        out = frozenset(out)
        self._conds[key] = out
        return out

    def _flag_atom(self, test, pol, params):
        if isinstance(test, ast.Name) and test.id in params and \
                not self.facts.get(test.id):
            return (test.id, "truthy", pol)
        if isinstance(test, ast.Compare) and len(test.ops) == 1 and \
                isinstance(test.left, ast.Name) and test.left.id in params and \
                not self.facts.get(test.left.id) and \
                isinstance(test.comparators[0], ast.Constant) and \
                test.comparators[0].value is None:
            if isinstance(test.ops[0], ast.Is):
                return (test.left.id, "none", pol)
            if isinstance(test.ops[0], ast.IsNot):
                return (test.left.id, "none", not pol)
        return None

    @staticmethod
    def _consistent(cond):
        d = {}
        for name, kind, pol in cond:
            if d.setdefault((name, kind), pol) != pol:
                return False
        for (n, k), p in d.items():
            if k == "none" and p and d.get((n, "truthy")) is True:
                return False
        return True

    def _translate_cond(self, cond, amap, callee):
        out = set()
        params = set(self.f.all_param_names())
        for name, kind, pol in cond:
            actuals = amap.get(name)
            from_default = False
            if not actuals:
                d = callee.defaults.get(name)
                if d is None:
                    continue
                actuals = [d]
                from_default = True
            if len(actuals) != 1 or actuals[0] is None or \
                    isinstance(actuals[0], tuple):
                continue
            a = actuals[0]
            if isinstance(a, ast.Constant):
                v = a.value
                val = (v is None) if kind == "none" else bool(v)
                if val != pol:
                    return None
                continue
            if from_default:
                continue
            if isinstance(a, ast.Name) and a.id in params and \
                    not self.facts.get(a.id):
                out.add((a.id, kind, pol))
                continue
            if isinstance(a, ast.UnaryOp) and isinstance(a.op, ast.Not) and \
                    isinstance(a.operand, ast.Name) and a.operand.id in params \
                    and not self.facts.get(a.operand.id) and kind == "truthy":
                out.add((a.operand.id, kind, not pol))
                continue
            if kind == "none" and isinstance(a, (ast.List, ast.Dict, ast.Tuple,
                                                 ast.JoinedStr, ast.Lambda)):
                if pol:
                    return None
        return out

    # -- writes ---------------------------------------------------------------------
    def _loc(self, base, attr):
        bt = self.ty.expr(self.f, base)
        names = []
        for t in sorted(bt):
            if t in T.BUILTIN_KINDS:
                continue
            if t.startswith("class:"):
                t = t[6:]
            if t.startswith("nested:"):
                t = t.rsplit(".", 1)[-1].split(":")[-1]
            names.append(t)
        known = [n for n in names if (n, attr) in T.FIELD or
                 ATTR_OWNER.get(attr) == n]
        if known:
            return "%s.%s" % (known[0], attr)
        if names:
            return "%s.%s" % (names[0], attr)
        owner = ATTR_OWNER.get(attr)
        if owner:
            return "%s.%s" % (owner, attr)
        return "?.%s" % attr

    def _class_attr(self, cname, loc):
        lst = self.prog.class_by_name.get(cname)
        if not lst:
            return True
        attr = loc.split(".", 1)[-1]
        return attr in lst[0].class_attrs or loc.startswith("FS.")

    def _put(self, loc, r, cond, w):
        b = strip(r)
        if b == FRESH:
            return
        if b[0] == "glob" and not self._class_attr(b[1], loc):
            return
        if len(cond) > 3:
            cond = frozenset(sorted(cond)[:3])
        for (l2, r2, c2), w2 in list(self.out.writes.items()):
            if l2 == loc and r2 == r:
                if c2 <= cond and (not w2.uncertain or w.uncertain):
                    return
                if cond < c2 and (not w.uncertain or w2.uncertain):
                    del self.out.writes[(l2, r2, c2)]
        k = (loc, r, cond)
        old = self.out.writes.get(k)
        if old is None or (old.uncertain and not w.uncertain) or \
                (old.uncertain == w.uncertain and len(w.frames) < len(old.frames)):
            self.out.writes[k] = w

    def _frame(self, node):
        st = stmt_of(node) or node
        return (self.f.key, lineno(node), construct(st))

    def _add_write(self, loc, roots, node, uncertain=False):
        cond = self.cond_of(node)
        if not self._consistent(cond):
            return
        w = Witness([self._frame(node)], uncertain)
        for r in roots:
            self._put(loc, r, cond, w)

    def _apply(self, callee, amap, node, uncertain=False):
        """Import callee's write effects at this call site."""
        s = self.eff.summary(callee)
        if not s.writes:
            return
        frame = self._frame(node)
        here = self.cond_of(node)
        if not self._consistent(here):
            return
        for (loc, r, cond), w in s.writes.items():
            tc = self._translate_cond(cond, amap, callee)
            if tc is None:
                continue
            full = frozenset(set(here) | tc)
            if not self._consistent(full):
                continue
            nw = None
            for rr in self.map_root(r, amap):
                if nw is None:
                    nw = w.extend(frame, uncertain)
                self._put(loc, rr, full, nw)

    def _field_of(self, expr, depth=0):
        """(base expr, attr) if `expr` denotes a field container itself
        (``X.coords``), a local alias of one, or an accessor returning one."""
        if depth > 4:
            return None
        if isinstance(expr, ast.Attribute):
            return expr.value, expr.attr
        if isinstance(expr, ast.Name):
            facts, _ = self.ty.facts_at(self.f, expr.id, expr)
            for kind, value, path in facts:
                if kind == "expr" and not path and \
                        isinstance(value, (ast.Attribute, ast.Call)):
                    r = self._field_of(value, depth + 1)
                    if r is not None:
                        return r
            return None
        if isinstance(expr, ast.Call):
            tg = self.ty.resolve(self.f, expr)
            if tg.kind in ("resolved", "byname") and len(tg.funcs) == 1 and \
                    tg.recv is not None:
                callee = tg.funcs[0]
                rets = [n.value for n in own_nodes(callee)
                        if isinstance(n, ast.Return) and n.value is not None]
                if len(rets) == 1 and isinstance(rets[0], ast.Attribute) and \
                        isinstance(rets[0].value, ast.Name) and callee.params and \
                        rets[0].value.id == callee.params[0]:
                    at = self.ty.expr(callee, rets[0])
                    if at & {T.LIST, T.DICT, T.SET}:
                        return tg.recv, rets[0].attr
        return None

    def _write_target(self, t, node):
        if isinstance(t, (ast.Tuple, ast.List)):
            for e in t.elts:
                self._write_target(e, node)
            return
        if isinstance(t, ast.Starred):
            self._write_target(t.value, node)
            return
        if isinstance(t, ast.Attribute):
            if t.attr == "__dict__":
                return
            self._add_write(self._loc(t.value, t.attr), self.R(t.value), node)
            return
        if isinstance(t, ast.Subscript):
            b = t.value
            if isinstance(b, ast.Attribute) and b.attr == "__dict__":
                cn = self.f.cls.name if self.f.cls else "?"
                attr = "value" if cn == "Payload" else "*"
                self._add_write("%s.%s" % (cn, attr), self.R(b.value), node)
                return
            bt = self.ty.expr(self.f, b)
            if bt & OBJ_TYPES and not (bt & {T.LIST, T.DICT}):
                for cn in bt & OBJ_TYPES:
                    m = self.prog.maybe_method(cn, "__setitem__")
                    if m is not None and m.params:
                        self._apply(m, {m.params[0]: [b]}, node)
                return
            fo = self._field_of(b)
            if fo is not None:
                base, attr = fo
                self._add_write(self._loc(base, attr), self.R(base), node)
                return
            if isinstance(b, ast.Subscript):
                self._write_target(b, node)

    def run(self):
        f = self.f
        out = self.out
        for n in own_nodes(f):
            if isinstance(n, ast.Assign):
                for t in n.targets:
                    if not isinstance(t, ast.Name):
                        self._write_target(t, n)
            elif isinstance(n, ast.AnnAssign) and n.value is not None:
                if not isinstance(n.target, ast.Name):
                    self._write_target(n.target, n)
            elif isinstance(n, ast.AugAssign):
                self._augassign(n)
            elif isinstance(n, ast.Delete):
                for t in n.targets:
                    if not isinstance(t, ast.Name):
                        self._write_target(t, n)
            elif isinstance(n, (ast.For, ast.AsyncFor)):
                if not isinstance(n.target, ast.Name):
                    self._for_targets(n.target, n)
                self._special(n.iter, ["__iter__"], n)
            elif isinstance(n, ast.comprehension):
                self._special(n.iter, ["__iter__"], n)
            elif isinstance(n, ast.Call):
                self._call(n)
            elif isinstance(n, ast.BinOp):
                self._binop(n)
            elif isinstance(n, ast.Compare):
                self._compare(n)
            elif isinstance(n, ast.Subscript) and isinstance(n.ctx, ast.Load):
                self._special(n.value, ["__getitem__"], n)
            elif isinstance(n, ast.Return) and n.value is not None:
                out.rets |= self.R(n.value)
                out.hrets |= self.Ht(n.value)
            elif isinstance(n, (ast.Yield, ast.YieldFrom)) and n.value is not None:
                out.hrets |= self.reach(n.value)
            elif isinstance(n, ast.FormattedValue):
                self._special(n.value, ["__format__", "__str__"], n, first=True)
        for call, ci in self.eff.lazy_iters.get(f, []):
            it = ci.methods.get("__iter__")
            for m in (ci.methods.get("__init__"), it):
                if m is not None:
                    self._apply(m, {}, call)
            if it is not None:
                s = self.eff.summary(it)
                for r in s.hrets | s.rets:
                    for h in self.map_held(r, {}):
                        out.hrets.add(("hf", "iter", untag(h)))
        out.hrets = {r for r in out.hrets if r != FRESH}
        if f.is_generator:
            out.rets = {FRESH}
        out.pstores = self._param_stores()
        return out

    def _param_stores(self):
        """(a, b): the function puts (part of) parameter b into the payload
        list of a fiber rooted at parameter a -- directly (`a.payloads.append
        (b)`, `a.payloads[i] = b`) or through a callee that does."""
        f = self.f
        params = set(f.all_param_names())
        pairs = []

        def is_payloads(e):
            return isinstance(e, ast.Attribute) and e.attr == "payloads"
        for n in own_nodes(f):
            if isinstance(n, (ast.Assign, ast.AnnAssign)) and n.value is not None:
                targets = n.targets if isinstance(n, ast.Assign) else [n.target]
                for t in targets:
                    if isinstance(t, ast.Subscript) and is_payloads(t.value):
                        pairs.append((t.value.value, n.value))
            elif isinstance(n, ast.Call) and isinstance(n.func, ast.Attribute):
                tg = self.ty.resolve(f, n)
                if n.func.attr in ("append", "insert", "extend") and \
                        tg.kind in ("external", "ambiguous") and is_payloads(n.func.value):
                    for a in n.args:
                        pairs.append((n.func.value.value, a))
                if tg.kind in ("resolved", "byname"):
                    for callee in tg.funcs:
                        if not self.eff.in_scope(callee) or callee is f:
                            continue
                        ps = self.eff.summary(callee).pstores
                        if not ps:
                            continue
                        amap = self.argmap(n, callee, tg)
                        for a, b in ps:
                            for ce in amap.get(a, []):
                                for ve in amap.get(b, []):
                                    if ce is None or ve is None or \
                                            isinstance(ce, tuple):
                                        continue
                                    pairs.append((ce, ve[1] if isinstance(ve, tuple) else ve))
        out = set()
        for ce, ve in pairs:
            A = {strip(r) for r in self.R(ce)}
            A = {r[1] for r in A if r[0] == "p" and r[1] in params}
            if not A:
                continue
            B = {strip(r) for r in self.reach(ve)}
            B = {r[1] for r in B if r[0] == "p" and r[1] in params}
            for a in A:
                for b in B:
                    if a != b:
                        out.add((a, b))
        return out

    def _for_targets(self, t, node):
        if isinstance(t, (ast.Tuple, ast.List)):
            for e in t.elts:
                if not isinstance(e, ast.Name):
                    self._for_targets(e, node)
        elif isinstance(t, (ast.Attribute, ast.Subscript)):
            self._write_target(t, node)

    def _special(self, expr, names, node, first=False, types=None):
        tt = self.ty.expr(self.f, expr)
        for cn in tt & (types or OBJ_TYPES):
            for nm in names:
                m = self.prog.maybe_method(cn, nm)
                if m is not None and m.params:
                    self._apply(m, {m.params[0]: [expr]}, node)
                    if first:
                        break

    def _augassign(self, n):
        t = n.target
        f = self.f
        tt = self.ty.expr(f, t)
        if tt and tt <= T.IMMUTABLE | {T.LIST, T.TUPLE, T.DICT, T.SET}:
            if not isinstance(t, ast.Name):
                self._write_target(t, n)
            return
        roots = self.R(t)
        if isinstance(t, ast.Name) and not roots:
            return
        self._inplace(t, n, tt, roots)
        if not isinstance(t, ast.Name):
            if not (tt & BOX_TYPES) or isinstance(t, ast.Attribute):
                self._write_target(t, n)

    def _inplace(self, target, n, tt, roots):
        name = INPLACE.get(type(n.op))
        if not name:
            return
        known = tt & BOX_TYPES
        for cn in (known or BOX_TYPES):
            m = self.prog.maybe_method(cn, name)
            if m is None or not m.params:
                continue
            amap = {m.params[0]: [target]}
            if len(m.params) > 1:
                amap[m.params[1]] = [n.value]
            self._apply(m, amap, n, uncertain=not known)

    def _binop(self, n):
        names = BINOPS.get(type(n.op))
        if not names:
            return
        f = self.f
        lt = self.ty.expr(f, n.left)
        rt = self.ty.expr(f, n.right)
        if lt & T.IMMUTABLE:
            lt = set()
        if rt & T.IMMUTABLE:
            rt = set()
        done = False
        for cn in lt & {"Fiber", "Payload", "CoordPayload", "Tensor"}:
            m = self.prog.maybe_method(cn, names[0])
            if m is not None and m.params:
                amap = {m.params[0]: [n.left]}
                if len(m.params) > 1:
                    amap[m.params[1]] = [n.right]
                self._apply(m, amap, n)
                done = True
        if not done:
            for cn in rt & {"Fiber", "Payload", "CoordPayload", "Tensor"}:
                m = self.prog.maybe_method(cn, names[1])
                if m is not None and m.params:
                    amap = {m.params[0]: [n.right]}
                    if len(m.params) > 1:
                        amap[m.params[1]] = [n.left]
                    self._apply(m, amap, n)

    def _compare(self, n):
        f = self.f
        operands = [n.left] + list(n.comparators)
        for i, op in enumerate(n.ops):
            if not isinstance(op, (ast.Eq, ast.NotEq)):
                continue
            a, b = operands[i], operands[i + 1]
            for x, y in ((a, b), (b, a)):
                xt = self.ty.expr(f, x)
                if xt & T.IMMUTABLE:
                    continue
                for cn in xt & {"Fiber", "Tensor"}:
                    m = self.prog.maybe_method(cn, "__eq__")
                    if m is not None and len(m.params) > 1:
                        self._apply(m, {m.params[0]: [x], m.params[1]: [y]}, n)

    def _call(self, call):
        f = self.f
        fn = call.func
        full = text(fn)
        if full == "open":
            mode = None
            if len(call.args) > 1 and isinstance(call.args[1], ast.Constant):
                mode = call.args[1].value
            for kw in call.keywords:
                if kw.arg == "mode" and isinstance(kw.value, ast.Constant):
                    mode = kw.value.value
            if mode and any(c in str(mode) for c in "wax+"):
                self._add_write("FS.file", {("glob", "FS")}, call)
            return
        if full in ("os.remove", "os.unlink", "os.rename", "shutil.rmtree",
                    "os.rmdir", "os.makedirs", "os.mkdir"):
            self._add_write("FS.file", {("glob", "FS")}, call)
            return
        if full == "setattr" and call.args:
            self._add_write("?.<setattr>", self.R(call.args[0]), call)
            return
        if isinstance(fn, ast.Name) and not self.facts.get(fn.id) and \
                fn.id not in f.all_param_names():
            special = {"len": ["__len__"], "str": ["__str__"],
                       "repr": ["__repr__"], "print": ["__str__"],
                       "format": ["__format__"], "reversed": ["__reversed__"],
                       "bool": ["__bool__", "__len__"]}
            if fn.id in special or fn.id in VIEW_BUILTINS or \
                    fn.id in ("sum", "min", "max", "any", "all", "next"):
                for a in call.args:
                    self._special(a, special.get(fn.id, ["__iter__"]), call,
                                  first=True)
                return
        tg = self.ty.resolve(f, call)
        if isinstance(fn, ast.Attribute) and fn.attr in MUTATORS and \
                tg.kind in ("external", "ambiguous"):
            fo = self._field_of(fn.value)
            rt = self.ty.expr(f, fn.value)
            if fo is not None and not (rt & OBJ_TYPES):
                base, attr = fo
                self._add_write(self._loc(base, attr), self.R(base), call)
                if tg.kind == "external":
                    return
            elif tg.kind == "external":
                return
        uncertain = tg.kind == "ambiguous"
        for callee in self._callees(call, tg):
            amap = self.argmap(call, callee, tg)
            self._apply(callee, amap, call, uncertain)


def _is_fiber(types):
    return "Fiber" in types and not (types & T.IMMUTABLE)


def _base_field(t):
    """(name, first-level field) at the bottom of an attribute/subscript
    chain: ``x.payloads[i].v`` -> ('x', 'payloads'); ``x[i]`` -> ('x', None)."""
    n = t
    fld = None
    while isinstance(n, (ast.Attribute, ast.Subscript)):
        if isinstance(n, ast.Attribute):
            fld = n.attr
        n = n.value
    if isinstance(n, ast.Name):
        return n.id, fld
    return None, None


_E = {}


def effects_of(prog):
    if id(prog) not in _E:
        import sys
        if sys.getrecursionlimit() < 20000:
            sys.setrecursionlimit(20000)
        _E[id(prog)] = Effects(prog)
    return _E[id(prog)]
