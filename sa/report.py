"""Obligations, findings, known-findings protocol, evidence (DESIGN.md 4, 6)."""

import hashlib
import json
import os
import re
import time

from .model import AnalysisError, PKG, lineno, construct, load

VERIF = os.path.dirname(os.path.dirname(os.path.abspath(__file__)))
KNOWN_PATH = os.path.join(VERIF, "known_findings.json")
EVID_DIR = os.path.join(VERIF, "evidence")
REPLAY_DIR = os.path.join(EVID_DIR, "replay")


def norm(s):
    return re.sub(r"\s+", " ", s or "").strip()


_LOCALS = {}


def _locals_of(func):
    """Names bound inside the function (any scope below it) that are not its
    parameters: what a behaviour-preserving rename may change."""
    import ast
    node = getattr(func, "node", None)
    if node is None or not hasattr(func, "all_param_names"):
        return frozenset()
    k = id(node)
    if k not in _LOCALS:
        names = set()
        for n in ast.walk(node):
            if isinstance(n, ast.Name) and isinstance(n.ctx, (ast.Store, ast.Del)):
                names.add(n.id)
            elif isinstance(n, ast.ExceptHandler) and n.name:
                names.add(n.name)
            elif isinstance(n, ast.arg) and n is not None:
                pass
        outer = func
        params = set()
        while outer is not None:
            params |= set(outer.all_param_names())
            outer = getattr(outer, "outer", None)
        _LOCALS[k] = frozenset(names - params)
    return _LOCALS[k]


def alpha(func, ctext):
    """Construct text with the function's local variable names replaced by
    $1, $2, ... in order of first appearance: keys of findings do not depend
    on what a local is called."""
    loc = _locals_of(func)
    if not loc or not ctext:
        return ctext
    order = {}

    def sub(m):
        w = m.group(0)
        if w not in loc:
            return w
        if w not in order:
            order[w] = "$%d" % (len(order) + 1)
        return order[w]
    return re.sub(r"(?<![\w.'\"])[A-Za-z_]\w*", sub, ctext)


class Finding:
    def __init__(self, prop, rule, func, construct_, why, file="", line=0,
                 detail=None):
        self.prop = prop
        self.rule = rule
        self.func = func            # stable function key
        self.construct = norm(construct_)
        self.why = why
        self.file = file
        self.line = line
        self.detail = detail or {}
        self.pos = None

    def key(self):
        return (self.prop, self.rule, self.func, self.construct)

    def digest(self):
        return hashlib.sha256("|".join(self.key()).encode()).hexdigest()[:12]

    def as_dict(self):
        return {"property": self.prop, "rule": self.rule, "function": self.func,
                "construct": self.construct, "why": self.why,
                "file": self.file, "line": self.line, "detail": self.detail}


class Ctx:
    """What a property's rule module works with."""

    def __init__(self, prop, tier="quick", seed=0, repo=None):
        self.prop = prop
        self.tier = tier
        self.seed = seed
        self.prog = load(repo)
        self.obligations = []     # dicts
        self.findings = []
        self.infos = []
        self.assumptions = []
        self.consulted = set()
        self.extra = {}
        self.errors = []
        self._ty = None
        self._eff = None
        self.t0 = time.time()

    # lazily built engine parts
    @property
    def ty(self):
        if self._ty is None:
            from .types import typing_of
            self._ty = typing_of(self.prog)
        return self._ty

    @property
    def eff(self):
        if self._eff is None:
            from .effects import effects_of
            self._eff = effects_of(self.prog)
        return self._eff

    # -- anchors -------------------------------------------------------------
    def func(self, key):
        f = self.prog.func(key)
        self.consulted.add(f.module.rel)
        return f

    def method(self, cls, name):
        f = self.prog.method(cls, name)
        self.consulted.add(f.module.rel)
        return f

    def module(self, rel):
        self.consulted.add(rel)
        return self.prog.module(rel)

    def guard(self, fn, *args):
        """Run one rule group; an AnalysisError in it does not hide the
        findings of the other groups."""
        try:
            fn(self, *args)
        except AnalysisError as e:
            self.errors.append(str(e))

    def require(self, cond, msg):
        if not cond:
            raise AnalysisError(msg)

    def floor(self, rule, found, minimum, what):
        if found < minimum:
            raise AnalysisError(
                "%s: instance floor not met for %s: found %d, confirmed by "
                "hand %d -- the analysis lost sight of the mechanism"
                % (rule, what, found, minimum))

    # -- obligations ------------------------------------------------------------
    def where(self, func, node=None):
        mod = func.module if hasattr(func, "module") else func
        ln = lineno(node) if node is not None else (
            lineno(func.node) if hasattr(func, "node") else 0)
        return "%s/%s" % (PKG, mod.rel), ln

    def ok(self, rule, func, node, idiom, text_=None):
        """Record a discharged obligation."""
        file, line = self.where(func, node)
        self.obligations.append({
            "rule": rule, "function": getattr(func, "key", str(func)),
            "file": file, "line": line,
            "_pos": (line, getattr(node, "col_offset", 0)) if text_ is None else None,
            "construct": norm(text_ if text_ is not None else
                              (alpha(func, construct(node)) if node is not None else "")),
            "status": "discharged", "by": idiom})

    def bad(self, rule, func, node, why, text_=None, detail=None):
        """Record a violated obligation (a finding)."""
        file, line = self.where(func, node)
        ctext = text_ if text_ is not None else (
            alpha(func, construct(node)) if node is not None else "")
        fkey = getattr(func, "key", str(func))
        f = Finding(self.prop, rule, fkey, ctext, why, file, line, detail)
        f.pos = (line, getattr(node, "col_offset", 0)) if text_ is None else None
        if any(x.key() == f.key() and x.pos == f.pos for x in self.findings):
            return
        self.findings.append(f)
        self.obligations.append({
            "rule": rule, "function": fkey, "file": file, "line": line,
            "_pos": f.pos, "_finding": f,
            "construct": f.construct, "status": "violated", "why": why})

    def number_constructs(self):
        """Several constructs of one function can have the same alpha-
        normalised text (the a- and b-side of a merge loop).  Within (rule,
        function, text) they are told apart by their source order: the
        second one examined by the rule is `<text> #2`, and so on."""
        groups = {}
        for o in self.obligations:
            if o.get("_pos") is not None:
                groups.setdefault((o["rule"], o["function"], o["construct"]),
                                  set()).add(o["_pos"])
        for o in self.obligations:
            pos = o.pop("_pos", None)
            f = o.pop("_finding", None)
            if pos is None:
                continue
            order = sorted(groups[(o["rule"], o["function"], o["construct"])])
            k = order.index(pos) + 1
            if k > 1:
                o["construct"] = "%s #%d" % (o["construct"], k)
                if f is not None:
                    f.construct = o["construct"]
        # identical findings (same construct reported twice) collapse
        seen, out = set(), []
        for f in self.findings:
            if f.key() not in seen:
                seen.add(f.key())
                out.append(f)
        self.findings = out

    def info(self, msg):
        self.infos.append(msg)

    def assume(self, msg):
        if msg not in self.assumptions:
            self.assumptions.append(msg)


def load_known():
    if not os.path.exists(KNOWN_PATH):
        return []
    with open(KNOWN_PATH) as f:
        data = json.load(f)
    return data.get("findings", [])


def known_key(e):
    return (e["property"], e["rule"], e["function"], norm(e["construct"]))


def finish(ctx, explanation, rule_text, emit=print):
    """Classify findings, print the verdict lines, write evidence.
    Returns the process exit code."""
    known = [e for e in load_known() if e["property"] == ctx.prop]
    known_map = {known_key(e): e for e in known if e.get("status") == "known"}
    violations, knowns = [], []
    for f in ctx.findings:
        if f.key() in known_map:
            knowns.append((f, known_map[f.key()]))
        else:
            violations.append(f)
    detected = {f.key() for f in ctx.findings}
    stale = [e for k, e in known_map.items() if k not in detected]

    os.makedirs(REPLAY_DIR, exist_ok=True)
    for f, e in knowns:
        emit("KNOWN-FINDING: property=%s %s %s `%s`: %s"
             % (ctx.prop, f.rule, f.func, f.construct, e.get("what", f.why)))
    for e in stale:
        emit("STALE-KNOWN-FINDING: property=%s %s %s `%s` is no longer "
             "detected; update known_findings.json"
             % (ctx.prop, e["rule"], e["function"], e["construct"]))
    for f in violations:
        path = os.path.join(REPLAY_DIR, "%s-%s.json" % (ctx.prop, f.digest()))
        if os.environ.get("VERIF_NO_EVIDENCE") != "1":
            with open(path, "w") as fh:
                json.dump(f.as_dict(), fh, indent=1, sort_keys=True)
        emit("%s:%d: %s: %s: `%s`: %s" % (f.file, f.line, f.rule, f.func,
                                           f.construct, f.why))
        emit("VIOLATION property=%s replay=%s" % (ctx.prop, path))
    for m in ctx.infos:
        emit("INFO: " + m)
    for m in ctx.errors:
        emit("ANALYSIS-ERROR property=%s: %s" % (ctx.prop, m))

    obligations = len(ctx.obligations)
    discharged = sum(1 for o in ctx.obligations if o["status"] == "discharged")
    distinct = len({(o["rule"], o["function"], o["construct"])
                    for o in ctx.obligations})
    # samples: a spread over rules
    samples, seen_rules = [], {}
    for o in ctx.obligations:
        c = seen_rules.get(o["rule"], 0)
        if c < 3:
            samples.append(o)
            seen_rules[o["rule"]] = c + 1
    per_rule = {}
    for o in ctx.obligations:
        d = per_rule.setdefault(o["rule"], {"obligations": 0, "discharged": 0})
        d["obligations"] += 1
        d["discharged"] += o["status"] == "discharged"
    cov = {
        "explanation": explanation,
        "rule": rule_text,
        "evaluations": obligations,
        "distinct_nontrivial": distinct,
        "obligations": obligations,
        "discharged": discharged,
        "per_rule": per_rule,
        "samples": samples[:60],
        "exhaustive": True,
        "modules_consulted": ctx.prog.digests(ctx.consulted),
        "known_findings_reported": [f.as_dict() for f, _ in knowns],
        "stale_known_findings": [known_key(e)[1:] for e in stale],
        "violations_reported": [f.as_dict() for f in violations],
        "analysis_errors": list(ctx.errors),
    }
    cov.update(ctx.extra)
    if ctx._eff is not None:
        cov["call_resolution"] = dict(ctx._eff.stats)
        cov["unresolved_call_sites"] = ctx._eff.ambiguous_sites[:40]
    ev = {
        "property_id": ctx.prop, "tier": ctx.tier, "seed": ctx.seed,
        "level": "other", "coverage": cov, "assumptions": ctx.assumptions,
        "wall_s": round(time.time() - ctx.t0, 3),
        "violations": len(violations),
    }
    if os.environ.get("VERIF_NO_EVIDENCE") != "1":
        os.makedirs(EVID_DIR, exist_ok=True)
        with open(os.path.join(EVID_DIR, "%s.json" % ctx.prop), "w") as fh:
            json.dump(ev, fh, indent=1, sort_keys=True, default=str)
    emit("%s %s: %d obligations, %d discharged, %d known finding(s), "
         "%d violation(s), %.2fs"
         % (ctx.prop, ctx.tier, obligations, discharged, len(knowns),
            len(violations), time.time() - ctx.t0))
    if violations:
        return 1
    return 2 if ctx.errors else 0
