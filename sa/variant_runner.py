"""Run one property's rules on $VERIF_REPO and print, as one JSON line, the
findings that are not listed in known_findings.json (used by sa/variants.py
and tools/try_patch.py; writes no evidence)."""

import json
import sys
import traceback


def main():
    prop = sys.argv[1]
    sys.setrecursionlimit(20000)
    from .check import run_property
    from .report import load_known, known_key
    out = {"new_findings": [], "error": None}
    try:
        ctx = run_property(prop, "quick", 0, write=False)
        known = {known_key(e) for e in load_known()
                 if e["property"] == prop and e.get("status") == "known"}
        for f in ctx.findings:
            if f.key() not in known:
                out["new_findings"].append(f.as_dict())
        if ctx.errors:
            out["error"] = "; ".join(ctx.errors)
    except Exception as e:
        out["error"] = "%s: %s" % (type(e).__name__, e)
        if "--trace" in sys.argv:
            traceback.print_exc()
    print(json.dumps(out))


if __name__ == "__main__":
    main()
