"""Loader and program model (DESIGN.md section 2.1).

Parses every ``*.py`` under ``$VERIF_REPO/fibertree`` and builds
modules -> classes -> functions (including nested classes and closures),
records method injection (``from .iterators import __and__`` inside
``class Fiber``) and ``partialmethod`` bindings, and gives every function
a stable key ``<module>:<Class>.<func>[.<Nested>.<func>]``.
"""

import ast
import hashlib
import os

REPO = os.environ.get("VERIF_REPO", "/repo")
PKG = "fibertree"


class AnalysisError(Exception):
    """The analysis cannot decide (parse failure, vanished anchor, ...).

    Always reported as ANALYSIS-ERROR / exit 2, never as pass or violation.
    """


# ---------------------------------------------------------------------------
# text helpers
# ---------------------------------------------------------------------------

COMPOUND = (ast.If, ast.For, ast.While, ast.With, ast.Try, ast.FunctionDef,
            ast.ClassDef, ast.AsyncFunctionDef)


def text(node):
    """Normalised source text of an expression / simple statement."""
    if node is None:
        return "None"
    try:
        return ast.unparse(node)
    except Exception:  # pragma: no cover
        return "<%s>" % type(node).__name__


def construct(node):
    """Normalised text of a statement; compound statements -> header only."""
    if isinstance(node, ast.If):
        return "if %s:" % text(node.test)
    if isinstance(node, ast.While):
        return "while %s:" % text(node.test)
    if isinstance(node, ast.For):
        return "for %s in %s:" % (text(node.target), text(node.iter))
    if isinstance(node, ast.With):
        return "with %s:" % ", ".join(text(i) for i in node.items)
    if isinstance(node, ast.Try):
        return "try:"
    if isinstance(node, (ast.FunctionDef, ast.AsyncFunctionDef)):
        return "def %s(%s):" % (node.name, text(node.args))
    if isinstance(node, ast.ClassDef):
        return "class %s:" % node.name
    return text(node)


def stmt_of(node):
    """Enclosing statement of an expression node."""
    n = node
    while n is not None and not isinstance(n, ast.stmt):
        n = getattr(n, "_parent", None)
    return n


def lineno(node):
    return getattr(node, "lineno", 0) or 0


# ---------------------------------------------------------------------------
# model
# ---------------------------------------------------------------------------

class Module:
    def __init__(self, rel, path, src):
        self.rel = rel          # e.g. core/fiber.py (relative to fibertree/)
        self.path = path
        self.src = src
        self.digest = hashlib.sha256(src.encode()).hexdigest()
        try:
            self.tree = ast.parse(src, filename=path)
        except SyntaxError as e:
            raise AnalysisError("cannot parse %s: %s" % (path, e))
        self.inlined = []
        if os.environ.get("VERIF_NO_INLINE") != "1" and \
                rel.split("/")[0] in ("core", "model", "codec"):
            from . import inline
            ment = getattr(Module, "_mentions", {})
            self.tree, self.inlined = inline.inline_helpers(
                self.tree, lambda nm: ment.get(nm, {rel}) <= {rel})
        if os.environ.get("VERIF_NO_CANON") != "1":
            from . import canon
            self.tree = canon.normalise(self.tree)
        self.functions = {}     # top-level name -> Func
        self.classes = {}       # top-level name -> ClassInfo
        self.imports = {}       # local name -> (module rel or dotted, name|None)
        self.globals = {}       # name -> value expr (top-level assignments)

    def __repr__(self):
        return "<Module %s>" % self.rel


class ClassInfo:
    def __init__(self, name, qual, module, node, outer):
        self.name = name
        self.qual = qual
        self.module = module
        self.node = node
        self.outer = outer          # enclosing Func or None
        self.methods = {}           # name -> Func (defined or injected)
        self.injected = {}          # name -> Func (subset of methods)
        self.partial = {}           # name -> (target method name, [arg exprs])
        self.class_attrs = {}       # name -> value expr
        self.bases = [text(b) for b in node.bases]

    @property
    def key(self):
        return "%s:%s" % (self.module.rel, self.qual)

    def __repr__(self):
        return "<Class %s>" % self.key


class Func:
    def __init__(self, name, qual, module, node, cls, outer):
        self.name = name
        self.qual = qual
        self.module = module
        self.node = node
        self.cls = cls              # ClassInfo when defined in a class body
        self.outer = outer          # enclosing Func (closures) or None
        self.kind = "function"
        self.self_type = None       # class name parameter 0 denotes
        self.inner_funcs = {}       # name -> Func
        self.inner_classes = {}     # name -> ClassInfo
        self.lambdas = []
        a = node.args
        self.params = [x.arg for x in a.posonlyargs + a.args]
        self.kwonly = [x.arg for x in a.kwonlyargs]
        self.vararg = a.vararg.arg if a.vararg else None
        self.kwarg = a.kwarg.arg if a.kwarg else None
        self.defaults = {}
        pos = a.posonlyargs + a.args
        for p, d in zip(pos[len(pos) - len(a.defaults):], a.defaults):
            self.defaults[p.arg] = d
        for p, d in zip(a.kwonlyargs, a.kw_defaults):
            if d is not None:
                self.defaults[p.arg] = d
        if isinstance(node, ast.Lambda):
            self.body = [ast.Return(value=node.body)]
            ast.copy_location(self.body[0], node.body)
            self.body[0]._parent = node
        else:
            self.body = node.body
        self.is_generator = False

    @property
    def key(self):
        return "%s:%s" % (self.module.rel, self.qual)

    def all_param_names(self):
        r = list(self.params) + list(self.kwonly)
        if self.vararg:
            r.append(self.vararg)
        if self.kwarg:
            r.append(self.kwarg)
        return r

    def own_nodes(self):
        """All AST nodes of this function's own body (not nested defs)."""
        return own_nodes(self)

    def __repr__(self):
        return "<Func %s>" % self.key


def own_nodes(func):
    out = []
    stack = list(reversed(func.body))
    while stack:
        n = stack.pop()
        out.append(n)
        if isinstance(n, (ast.FunctionDef, ast.AsyncFunctionDef,
                          ast.ClassDef, ast.Lambda)):
            continue    # nested scope: its body is not ours
        for ch in reversed(list(ast.iter_child_nodes(n))):
            stack.append(ch)
    return out


class Program:
    """All of fibertree/, parsed."""

    def __init__(self, repo=None):
        self.repo = repo or REPO
        self.root = os.path.join(self.repo, PKG)
        if not os.path.isdir(self.root):
            raise AnalysisError("no package directory %s" % self.root)
        self.modules = {}
        self.funcs = {}       # key -> Func
        self.classes = {}     # key -> ClassInfo
        self.class_by_name = {}   # simple name -> [ClassInfo] (top-level)
        self.methods_by_name = {}  # method name -> [Func]
        self._load()
        self._index()
        self.roles = {}
        if os.environ.get("VERIF_NO_CANON") != "1":
            from . import roles
            self.roles = roles.apply(self)

    # -- loading -----------------------------------------------------------
    def _load(self):
        srcs = {}
        for dirpath, dirnames, filenames in os.walk(self.root):
            dirnames[:] = sorted(d for d in dirnames
                                 if d != "__pycache__" and not d.startswith("."))
            for fn in sorted(filenames):
                if fn.endswith(".py"):
                    path = os.path.join(dirpath, fn)
                    with open(path, encoding="utf-8") as f:
                        srcs[os.path.relpath(path, self.root)] = f.read()
        import re as _re
        mentions = {}
        for rel, src in srcs.items():
            for nm in set(_re.findall(r"(?<![A-Za-z0-9_])(_[A-Za-z][A-Za-z0-9_]*)", src)):
                mentions.setdefault(nm, set()).add(rel)
        Module._mentions = mentions
        for dirpath, dirnames, filenames in os.walk(self.root):
            dirnames[:] = sorted(d for d in dirnames
                                 if d != "__pycache__" and not d.startswith("."))
            for fn in sorted(filenames):
                if not fn.endswith(".py"):
                    continue
                path = os.path.join(dirpath, fn)
                rel = os.path.relpath(path, self.root)
                with open(path, encoding="utf-8") as f:
                    src = f.read()
                self.modules[rel] = Module(rel, path, src)
        if not self.modules:
            raise AnalysisError("no python modules under %s" % self.root)

    def module(self, rel):
        if rel not in self.modules:
            raise AnalysisError("anchor module vanished: %s" % rel)
        return self.modules[rel]

    # -- indexing ----------------------------------------------------------
    def _index(self):
        for mod in self.modules.values():
            for n in ast.walk(mod.tree):
                for ch in ast.iter_child_nodes(n):
                    ch._parent = n
            mod.tree._parent = None
            self._index_body(mod, mod.tree.body, None, None, "")
        # second pass: injection + partialmethod need all modules indexed
        for cls in list(self.classes.values()):
            self._resolve_class_imports(cls)
        prio = {"core": 0, "model": 1, "graphics": 2, "notebook": 3}
        for lst in self.class_by_name.values():
            lst.sort(key=lambda c: prio.get(c.module.rel.split("/")[0], 9))
        for f in self.funcs.values():
            self.methods_by_name.setdefault(f.name, []).append(f)
            f.is_generator = any(isinstance(n, (ast.Yield, ast.YieldFrom))
                                 for n in own_nodes(f))

    def _index_body(self, mod, body, cls, outer, prefix):
        for node in body:
            self._index_stmt(mod, node, cls, outer, prefix)

    def _index_stmt(self, mod, node, cls, outer, prefix):
        if isinstance(node, (ast.FunctionDef, ast.AsyncFunctionDef)):
            self._add_func(mod, node, cls, outer, prefix)
            return
        if isinstance(node, ast.ClassDef):
            qual = prefix + node.name
            if "%s:%s" % (mod.rel, qual) in self.classes:
                i = 2
                while "%s:%s#%d" % (mod.rel, qual, i) in self.classes:
                    i += 1
                qual = "%s#%d" % (qual, i)
            ci = ClassInfo(node.name, qual, mod, node, outer)
            node._class = ci
            self.classes[ci.key] = ci
            if outer is None and cls is None:
                mod.classes[node.name] = ci
                self.class_by_name.setdefault(node.name, []).append(ci)
            elif outer is not None and cls is None:
                outer.inner_classes[node.name] = ci
            for st in node.body:
                if isinstance(st, ast.Assign) and len(st.targets) == 1 and \
                        isinstance(st.targets[0], ast.Name):
                    ci.class_attrs[st.targets[0].id] = st.value
                self._index_stmt(mod, st, ci, outer, qual + ".")
            return
        if cls is None and outer is None:
            if isinstance(node, ast.ImportFrom):
                for a in node.names:
                    mod.imports[a.asname or a.name] = (
                        "." * node.level + (node.module or ""), a.name)
            elif isinstance(node, ast.Import):
                for a in node.names:
                    mod.imports[a.asname or a.name.split(".")[0]] = (a.name, None)
            elif isinstance(node, ast.Assign) and len(node.targets) == 1 and \
                    isinstance(node.targets[0], ast.Name):
                mod.globals[node.targets[0].id] = node.value
        # lambdas and nested defs inside compound statements / expressions
        for ch in ast.iter_child_nodes(node):
            if isinstance(ch, ast.stmt):
                self._index_stmt(mod, ch, cls, outer, prefix)
            else:
                self._index_expr(mod, ch, cls, outer, prefix)

    def _index_expr(self, mod, node, cls, outer, prefix):
        for n in ast.walk(node):
            if isinstance(n, ast.Lambda) and not hasattr(n, "_func"):
                owner = outer
                k = len(owner.lambdas) if owner is not None else 0
                qual = "%s<lambda#%d>" % (prefix, k)
                f = Func("<lambda>", qual, mod, n, None, outer)
                f.kind = "lambda"
                n._func = f
                if owner is not None:
                    owner.lambdas.append(f)
                if f.key in self.funcs:
                    qual = "%s<lambda#%d@%d>" % (prefix, k, n.lineno)
                    f.qual = qual
                self.funcs[f.key] = f
                # nested lambdas inside the lambda body
                self._index_expr(mod, n.body, None, f, qual + ".")

    def _add_func(self, mod, node, cls, outer, prefix):
        qual = prefix + node.name
        f = Func(node.name, qual, mod, node, cls, outer)
        node._func = f
        decos = [text(d) for d in node.decorator_list]
        if cls is not None:
            if "staticmethod" in decos:
                f.kind = "static"
            elif "classmethod" in decos:
                f.kind = "class"
                f.self_type = "class:" + cls.name
            else:
                f.kind = "method"
                f.self_type = cls.name if cls.outer is None and \
                    "." not in cls.qual else "nested:" + cls.key
            if node.name in cls.methods and not cls.methods[node.name] is f:
                pass  # later definition wins, like Python
            cls.methods[node.name] = f
        elif outer is not None:
            outer.inner_funcs[node.name] = f
        else:
            mod.functions[node.name] = f
        if f.key in self.funcs:
            # redefinition (e.g. succ_next defined three times under an if)
            i = 2
            while "%s#%d" % (f.key, i) in self.funcs:
                i += 1
            f.qual = "%s#%d" % (qual, i)
        self.funcs[f.key] = f
        # defaults / decorators may hold lambdas evaluated in the outer scope
        for d in list(node.args.defaults) + [x for x in node.args.kw_defaults if x]:
            self._index_expr(mod, d, cls, outer, prefix)
        for st in node.body:
            self._index_stmt(mod, st, None, f, f.qual + ".")

    def resolve_import(self, mod, dotted):
        """'.iterators' relative to mod -> Module or None."""
        if not dotted.startswith("."):
            if dotted.startswith(PKG + "."):
                rel = dotted[len(PKG) + 1:].replace(".", "/")
            elif dotted == PKG:
                rel = "__init__"
            else:
                return None
        else:
            level = len(dotted) - len(dotted.lstrip("."))
            base = os.path.dirname(mod.rel)
            for _ in range(level - 1):
                base = os.path.dirname(base)
            rest = dotted.lstrip(".").replace(".", "/")
            rel = os.path.join(base, rest) if rest else base
        for cand in (rel + ".py", os.path.join(rel, "__init__.py")):
            cand = os.path.normpath(cand)
            if cand in self.modules:
                return self.modules[cand]
        return None

    def _resolve_class_imports(self, cls):
        for st in cls.node.body:
            if isinstance(st, ast.ImportFrom):
                target = self.resolve_import(cls.module,
                                             "." * st.level + (st.module or ""))
                if target is None:
                    continue
                for a in st.names:
                    fn = target.functions.get(a.name)
                    if fn is not None:
                        name = a.asname or a.name
                        cls.methods[name] = fn
                        cls.injected[name] = fn
                        fn.self_type = cls.name
                        fn.injected_into = cls
            elif isinstance(st, ast.Assign) and len(st.targets) == 1 and \
                    isinstance(st.targets[0], ast.Name) and \
                    isinstance(st.value, ast.Call) and \
                    text(st.value.func) in ("partialmethod",
                                            "functools.partialmethod"):
                args = st.value.args
                if args and isinstance(args[0], ast.Name):
                    cls.partial[st.targets[0].id] = (args[0].id, args[1:])

    # -- lookup ------------------------------------------------------------
    def func(self, key):
        f = self.funcs.get(key)
        if f is None:
            raise AnalysisError("anchor function vanished: %s" % key)
        return f

    def maybe_func(self, key):
        return self.funcs.get(key)

    def cls(self, name):
        """Top-level class by simple name (unique among core classes)."""
        lst = self.class_by_name.get(name) or []
        if not lst:
            raise AnalysisError("anchor class vanished: %s" % name)
        return lst[0]

    def method(self, cls_name, name):
        ci = self.cls(cls_name)
        f = ci.methods.get(name)
        if f is None:
            raise AnalysisError("anchor method vanished: %s.%s" % (cls_name, name))
        return f

    def maybe_method(self, cls_name, name):
        lst = self.class_by_name.get(cls_name) or []
        for ci in lst:
            if name in ci.methods:
                return ci.methods[name]
        return None

    def enclosing_func(self, node):
        n = node
        while n is not None:
            f = getattr(n, "_func", None)
            if f is not None and n is not node:
                return f
            if f is not None and n is node and isinstance(node, (ast.FunctionDef, ast.Lambda)):
                # the def node itself belongs to the outer scope
                pass
            n = getattr(n, "_parent", None)
        return None

    def where(self, func_or_mod, node=None):
        mod = func_or_mod.module if isinstance(func_or_mod, (Func, ClassInfo)) else func_or_mod
        ln = lineno(node) if node is not None else (
            lineno(func_or_mod.node) if isinstance(func_or_mod, (Func, ClassInfo)) else 0)
        return "%s/%s:%d" % (PKG, mod.rel, ln)

    def digests(self, rels=None):
        return {r: m.digest[:16] for r, m in sorted(self.modules.items())
                if rels is None or r in rels}


_CACHE = {}


def load(repo=None):
    repo = repo or os.environ.get("VERIF_REPO", "/repo")
    if repo not in _CACHE:
        _CACHE[repo] = Program(repo)
    return _CACHE[repo]
