"""Statement-level control-flow graph, dominators, structural guards
(DESIGN.md section 2.2).

Nodes are the statements of one function body (a compound statement node
stands for the evaluation of its test / iterator step).  Three synthetic
nodes: ENTRY, EXIT (normal return / end of generator) and RAISE (uncaught
exception, failing assert).
"""

import ast

from .model import own_nodes, text

ENTRY, EXIT, RAISE = "ENTRY", "EXIT", "RAISE"


class CFG:
    def __init__(self, func, assert_edges=True):
        self.func = func
        self.succ = {ENTRY: set(), EXIT: set(), RAISE: set()}
        self.pred = {ENTRY: set(), EXIT: set(), RAISE: set()}
        self.label = {}
        self.assert_edges = assert_edges
        self.loops = {}          # stmt -> enclosing loop stmt (innermost)
        self._handlers = []      # stack of handler entry lists
        self._loopstack = []
        self.stmts = []
        first = self._block(func.body, EXIT)
        self._edge(ENTRY, first)
        self._dom = None
        self._pdom = None

    # -- construction -------------------------------------------------------
    def _node(self, n):
        if n not in self.succ:
            self.succ[n] = set()
            self.pred[n] = set()
            if not isinstance(n, str):
                self.stmts.append(n)
                if self._loopstack:
                    self.loops[n] = self._loopstack[-1][0]

    def _edge(self, a, b, label=None):
        self._node(a)
        self._node(b)
        self.succ[a].add(b)
        self.pred[b].add(a)
        if label is not None:
            self.label[(a, b)] = label

    def _exc_targets(self):
        if self._handlers:
            return self._handlers[-1]
        return [RAISE]

    def _block(self, stmts, follow):
        """Wire a statement list; return the entry node of the block."""
        nxt = follow
        for st in reversed(stmts):
            nxt = self._stmt(st, nxt)
        return nxt

    def _stmt(self, st, follow):
        self._node(st)
        if self._handlers:
            # any statement inside a try body may transfer to a handler
            for h in self._handlers[-1]:
                self._edge(st, h, "exc")
        if isinstance(st, ast.If):
            b = self._block(st.body, follow)
            o = self._block(st.orelse, follow) if st.orelse else follow
            self._edge(st, b, "true")
            self._edge(st, o, "false")
        elif isinstance(st, (ast.While, ast.For, ast.AsyncFor)):
            o = self._block(st.orelse, follow) if st.orelse else follow
            self._loopstack.append((st, follow))
            b = self._block(st.body, st)
            self._loopstack.pop()
            self._edge(st, b, "true")
            const_true = isinstance(st, ast.While) and \
                isinstance(st.test, ast.Constant) and bool(st.test.value)
            if not const_true:
                self._edge(st, o, "false")
        elif isinstance(st, ast.Break):
            self._edge(st, self._loopstack[-1][1])
        elif isinstance(st, ast.Continue):
            self._edge(st, self._loopstack[-1][0])
        elif isinstance(st, ast.Return):
            self._edge(st, EXIT)
        elif isinstance(st, ast.Raise):
            for h in self._exc_targets():
                self._edge(st, h, "exc")
        elif isinstance(st, ast.Assert):
            self._edge(st, follow)
            always_fails = isinstance(st.test, ast.Constant) and not st.test.value
            if always_fails:
                self.succ[st].discard(follow)
                self.pred[follow].discard(st)
            if self.assert_edges or always_fails:
                for h in self._exc_targets():
                    self._edge(st, h, "assert")
        elif isinstance(st, ast.Try):
            after = follow
            if st.finalbody:
                after = self._block(st.finalbody, follow)
            hs = [self._block(h.body, after) for h in st.handlers]
            o = self._block(st.orelse, after) if st.orelse else after
            self._handlers.append(hs if hs else [after])
            b = self._block(st.body, o)
            self._handlers.pop()
            self._edge(st, b)
        elif isinstance(st, (ast.With, ast.AsyncWith)):
            b = self._block(st.body, follow)
            self._edge(st, b)
        elif isinstance(st, ast.Expr) and isinstance(st.value, ast.Call) and \
                text(st.value.func) in ("exit", "sys.exit"):
            self._edge(st, RAISE, "exit")
        else:
            self._edge(st, follow)
        return st

    # -- queries --------------------------------------------------------------
    def nodes(self):
        return list(self.succ)

    def reachable(self, src, avoid=(), forward=True, skip_edge=None):
        """Set of nodes reachable from src (src excluded unless on a cycle).
        `skip_edge(a, b, label)` may rule out edges (correlated branches)."""
        avoid = set(avoid)
        seen = set()
        adj = self.succ if forward else self.pred

        def nexts(n):
            for m in adj.get(n, ()):
                if m in avoid:
                    continue
                if skip_edge is not None:
                    e = (n, m) if forward else (m, n)
                    if skip_edge(e[0], e[1], self.label.get(e)):
                        continue
                yield m
        stack = list(nexts(src))
        while stack:
            n = stack.pop()
            if n in seen:
                continue
            seen.add(n)
            for m in nexts(n):
                if m not in seen:
                    stack.append(m)
        return seen

    def same_branch_filter(self, func, stmt):
        """Edge filter assuming every `if` whose test is textually equal to
        a guard of `stmt` (over never-assigned names) takes the same branch
        as it does on the way to `stmt` (correlated conditions)."""
        fixed = {}
        assigned = set()
        for n in own_nodes(func):
            if isinstance(n, ast.Name) and isinstance(n.ctx, (ast.Store, ast.Del)):
                assigned.add(n.id)
        for t, pol in guards(stmt):
            names = {x.id for x in ast.walk(t) if isinstance(x, ast.Name)}
            if names & assigned:
                continue
            if any(isinstance(x, ast.Call) for x in ast.walk(t)):
                continue
            fixed[text(t)] = pol

        def skip(a, b, label):
            if isinstance(a, ast.If) and label in ("true", "false"):
                want = fixed.get(text(a.test))
                if want is not None and (label == "true") != want:
                    return True
            return False
        return skip

    def can_reach(self, a, b, avoid=()):
        return b in self.reachable(a, avoid)

    def _dominators(self, entry, adj_pred, nodes):
        dom = {n: set(nodes) for n in nodes}
        dom[entry] = {entry}
        changed = True
        order = list(nodes)
        while changed:
            changed = False
            for n in order:
                if n == entry:
                    continue
                ps = [dom[p] for p in adj_pred.get(n, ()) if p in dom]
                new = set.intersection(*ps) if ps else set()
                new = new | {n}
                if new != dom[n]:
                    dom[n] = new
                    changed = True
        return dom

    def dominators(self):
        if self._dom is None:
            live = {ENTRY} | self.reachable(ENTRY)
            pred = {n: {p for p in self.pred[n] if p in live} for n in live}
            self._dom = self._dominators(ENTRY, pred, live)
        return self._dom

    def dominates(self, a, b):
        d = self.dominators()
        return b in d and a in d[b]

    def postdominators(self, include_raise=False):
        key = include_raise
        if self._pdom is None:
            self._pdom = {}
        if key not in self._pdom:
            # virtual sink
            SINK = "SINK"
            live = {ENTRY} | self.reachable(ENTRY)
            succ = {n: {s for s in self.succ[n] if s in live} for n in live}
            exits = [EXIT] + ([RAISE] if include_raise else [])
            rpred = {n: set() for n in live}
            rpred[SINK] = set()
            for n in live:
                for s in succ[n]:
                    if not include_raise and s == RAISE:
                        continue
                    rpred[n].add(s)   # predecessor in the reverse graph = succ
            for e in exits:
                if e in live:
                    rpred[e].add(SINK)
            nodes = set(live) | {SINK}
            if not include_raise:
                nodes.discard(RAISE)
                for n in nodes:
                    rpred[n].discard(RAISE)
            self._pdom[key] = self._dominators(SINK, rpred, nodes)
        return self._pdom[key]

    def postdominates(self, a, b, include_raise=False):
        """a is on every path from b to a normal exit."""
        pd = self.postdominators(include_raise)
        return b in pd and a in pd[b]

    def loop_of(self, st):
        return self.loops.get(st)

    def enclosing_loops(self, st):
        out = []
        n = self.loops.get(st)
        while n is not None:
            out.append(n)
            n = self.loops.get(n)
        return out


_CFGS = {}


def cfg_of(func, assert_edges=True):
    k = (id(func), assert_edges)
    if k not in _CFGS:
        _CFGS[k] = CFG(func, assert_edges)
    return _CFGS[k]


# ---------------------------------------------------------------------------
# structural (AST) helpers
# ---------------------------------------------------------------------------

def block_always_leaves(stmts):
    """True if control never falls off the end of this statement list."""
    for st in stmts:
        if isinstance(st, (ast.Return, ast.Raise, ast.Break, ast.Continue)):
            return True
        if isinstance(st, ast.Assert) and isinstance(st.test, ast.Constant) \
                and not st.test.value:
            return True
        if isinstance(st, ast.Expr) and isinstance(st.value, ast.Call) and \
                text(st.value.func) in ("exit", "sys.exit"):
            return True
        if isinstance(st, ast.If) and st.orelse and \
                block_always_leaves(st.body) and block_always_leaves(st.orelse):
            return True
    return False


def parent_block(st):
    """(list, index, parent node, field name) of the block containing st."""
    p = getattr(st, "_parent", None)
    if p is None:
        return None
    for field in ("body", "orelse", "finalbody", "handlers"):
        blk = getattr(p, field, None)
        if isinstance(blk, list) and st in blk:
            return blk, blk.index(st), p, field
    return None


def guards(st, stop=None, asserts=True):
    """Conditions known to hold whenever statement `st` starts executing,
    derived from the block structure: [(test expr, polarity)].

    * an enclosing ``if``/``while`` contributes its test with the polarity
      of the branch that contains `st`;
    * a preceding sibling ``if C: <always leaves>`` contributes (C, False);
    * a preceding sibling ``assert C`` contributes (C, True).
    Stops at the function boundary (or at node `stop`).
    """
    out = []
    n = st
    while n is not None and (n is st or not isinstance(
            n, (ast.FunctionDef, ast.Lambda, ast.AsyncFunctionDef))) \
            and n is not stop:
        pb = parent_block(n) if isinstance(n, (ast.stmt, ast.ExceptHandler)) else None
        if pb is not None:
            blk, idx, p, field = pb
            for prev in blk[:idx]:
                if isinstance(prev, ast.If) and not prev.orelse and \
                        block_always_leaves(prev.body):
                    out.append((prev.test, False))
                elif isinstance(prev, ast.If) and prev.orelse and \
                        block_always_leaves(prev.orelse) and \
                        not block_always_leaves(prev.body):
                    out.append((prev.test, True))
                elif isinstance(prev, ast.Assert) and asserts:
                    out.append((prev.test, True))
            if isinstance(p, ast.If):
                out.append((p.test, field == "body"))
            elif isinstance(p, ast.While) and field == "body":
                out.append((p.test, True))
        n = getattr(n, "_parent", None)
    return out


def flatten_conj(test, pol=True):
    """Split a guard into atomic (expr, polarity) conjuncts.

    (A and B, True) -> A, B ; (A or B, False) -> not A, not B ;
    ``not X`` flips polarity.  Disjunctions under positive polarity stay
    atomic."""
    if isinstance(test, ast.UnaryOp) and isinstance(test.op, ast.Not):
        return flatten_conj(test.operand, not pol)
    if isinstance(test, ast.BoolOp):
        if (isinstance(test.op, ast.And) and pol) or \
                (isinstance(test.op, ast.Or) and not pol):
            out = []
            for v in test.values:
                out.extend(flatten_conj(v, pol))
            return out
    return [(test, pol)]


def atomic_guards(st, stop=None, asserts=True):
    out = []
    for t, pol in guards(st, stop, asserts):
        out.extend(flatten_conj(t, pol))
    return out


def enclosing_stmt(node):
    n = node
    while n is not None and not isinstance(n, ast.stmt):
        n = getattr(n, "_parent", None)
    return n


def ancestors(node):
    n = getattr(node, "_parent", None)
    while n is not None:
        yield n
        n = getattr(n, "_parent", None)


def is_within(node, container):
    if node is container:
        return True
    return any(a is container for a in ancestors(node))


def walk_own(func_or_stmts):
    """ast.walk restricted to one function scope (no nested def bodies)."""
    if hasattr(func_or_stmts, "body") and hasattr(func_or_stmts, "key"):
        return own_nodes(func_or_stmts)
    out = []
    stack = list(reversed(list(func_or_stmts)))
    while stack:
        n = stack.pop()
        out.append(n)
        if isinstance(n, (ast.FunctionDef, ast.AsyncFunctionDef,
                          ast.ClassDef, ast.Lambda)):
            continue
        for ch in reversed(list(ast.iter_child_nodes(n))):
            stack.append(ch)
    return out
