"""Static-analysis engine for Fibertree-Project/fibertree (see /verif/DESIGN.md).

Pure standard library.  Nothing in this package imports or runs fibertree:
every verdict is computed from the syntax trees of the files under
$VERIF_REPO (default /repo).
"""
