"""Small pattern helpers shared by the rule modules."""

import ast

from .model import text, own_nodes, stmt_of

FLIP = {ast.Gt: ast.Lt, ast.GtE: ast.LtE, ast.Lt: ast.Gt, ast.LtE: ast.GtE,
        ast.Eq: ast.Eq, ast.NotEq: ast.NotEq, ast.Is: ast.Is,
        ast.IsNot: ast.IsNot}
OPSYM = {ast.Lt: "<", ast.LtE: "<=", ast.Gt: ">", ast.GtE: ">=", ast.Eq: "==",
         ast.NotEq: "!=", ast.Is: "is", ast.IsNot: "is not", ast.In: "in",
         ast.NotIn: "not in"}
NEG = {"<": ">=", "<=": ">", ">": "<=", ">=": "<", "==": "!=", "!=": "==",
       "is": "is not", "is not": "is", "in": "not in", "not in": "in"}


def inline(ctx, func, expr, depth=3):
    """Source text of `expr` with single-definition local temporaries
    substituted by their defining expression (so that introducing or
    removing a temporary does not change what a rule sees)."""
    if depth <= 0 or expr is None:
        return text(expr)
    return text(_subst(ctx, func, expr, depth))


def inline_x(ctx, func, expr, depth=3):
    """inline() that also reads a name bound once by unpacking `a, b = E`
    as `E[0]` / `E[1]` (E is then a tuple-valued expression evaluated once;
    use only where E is a pure getter)."""
    if depth <= 0 or expr is None:
        return text(expr)
    return text(_subst(ctx, func, expr, depth, True))


def _unpacked(ctx, func, name_node):
    facts, is_param = ctx.ty.facts_at(func, name_node.id, name_node)
    facts = [fa for fa in facts if fa.kind != "add"]
    if is_param or len(facts) != 1:
        return None
    fa = facts[0]
    if fa.kind != "expr" or len(fa.path) != 1 or fa.always or \
            not isinstance(fa.stmt, ast.Assign):
        return None
    return ast.Subscript(value=fa.value, slice=ast.Constant(value=fa.path[0]),
                         ctx=ast.Load())


def _consumes(v):
    """The expression takes an item out of a container / iterator: a name
    bound to it is that item, not a term that can be re-evaluated."""
    for n in ast.walk(v):
        if isinstance(n, ast.Call):
            if isinstance(n.func, ast.Attribute) and n.func.attr in (
                    "pop", "popitem", "popleft", "__next__"):
                return True
            if isinstance(n.func, ast.Name) and n.func.id == "next":
                return True
    return False


def _subst(ctx, func, expr, depth, unpack=False):
    """Rebuild `expr` with single-def names replaced (non-destructive)."""
    if depth <= 0:
        return expr
    if isinstance(expr, ast.Name) and isinstance(expr.ctx, ast.Load):
        v = single_def(ctx, func, expr)
        if v is None and unpack:
            v = _unpacked(ctx, func, expr)
        if v is not None and not _consumes(v):
            return _subst(ctx, func, v, depth - 1, unpack)
        return expr
    if isinstance(expr, (ast.Lambda, ast.Constant)) or expr is None:
        return expr
    if not isinstance(expr, ast.AST):
        return expr
    new = type(expr)()
    for f, v in ast.iter_fields(expr):
        if isinstance(v, list):
            setattr(new, f, [_subst(ctx, func, x, depth, unpack) if isinstance(x, ast.AST)
                             else x for x in v])
        elif isinstance(v, ast.AST):
            setattr(new, f, _subst(ctx, func, v, depth, unpack))
        else:
            setattr(new, f, v)
    for a in ("lineno", "col_offset", "end_lineno", "end_col_offset"):
        if hasattr(expr, a):
            setattr(new, a, getattr(expr, a))
    return new


def single_def(ctx, func, name_node):
    """The unique defining expression reaching a Name use, if it has one
    plain (untupled, non-loop) definition and is not a parameter."""
    facts, is_param = ctx.ty.facts_at(func, name_node.id, name_node)
    facts = [fa for fa in facts if fa.kind != "add"]     # `x.append(..)` binds nothing
    if is_param or len(facts) != 1:
        return None
    fa = facts[0]
    if fa.kind != "expr" or fa.path or fa.always:
        return None
    if isinstance(fa.stmt, ast.AugAssign):
        return None
    return fa.value


def as_lambda(ctx, func, expr):
    """(parameter names, body expression) of a one-expression callable: a
    lambda, a variable bound once to one, or a nested `def` (bound once)
    whose body is a single `return <expr>`; None otherwise."""
    if isinstance(expr, ast.Name):
        v = single_def(ctx, func, expr)
        if v is not None:
            expr = v
        else:
            defs = [n for n in func.own_nodes() if isinstance(n, ast.FunctionDef)
                    and n.name == expr.id]
            others = [n for n in func.own_nodes() if isinstance(n, ast.Name)
                      and n.id == expr.id and isinstance(n.ctx, ast.Store)]
            if len(defs) == 1 and not others:
                d = defs[0]
                body = [b for b in d.body if not (isinstance(b, ast.Expr) and
                        isinstance(b.value, ast.Constant))]
                if len(body) == 1 and isinstance(body[0], ast.Return) and \
                        body[0].value is not None and not d.args.vararg and \
                        not d.args.kwarg and not d.args.kwonlyargs and \
                        not d.decorator_list:
                    return [a.arg for a in d.args.args], body[0].value
            return None
    if isinstance(expr, ast.Lambda) and not expr.args.vararg and \
            not expr.args.kwarg and not expr.args.kwonlyargs:
        return [a.arg for a in expr.args.args], expr.body
    return None


def beta(ctx, func, call):
    """`h(a, b)` with h a local one-expression callable (as_lambda) read as
    h's body with the arguments substituted for its parameters; None when
    the call is not of that shape.  The result is a fresh tree carrying the
    call's position."""
    from .symcase import clone
    if not (isinstance(call, ast.Call) and isinstance(call.func, ast.Name)):
        return None
    lam = as_lambda(ctx, func, call.func)
    if lam is None:
        return None
    params, body = lam
    if any(isinstance(a, ast.Starred) for a in call.args) or \
            any(k.arg is None for k in call.keywords):
        return None
    bind = dict(zip(params, call.args))
    if len(call.args) > len(params):
        return None
    for k in call.keywords:
        if k.arg not in params or k.arg in bind:
            return None
        bind[k.arg] = k.value
    if set(bind) != set(params):
        return None

    class Sub(ast.NodeTransformer):
        def visit_Name(self, n):
            if isinstance(n.ctx, ast.Load) and n.id in bind:
                return clone(bind[n.id])
            return n

        def visit_Lambda(self, n):
            return n
    new = Sub().visit(clone(body))
    for n in ast.walk(new):
        for a in ("lineno", "col_offset", "end_lineno", "end_col_offset"):
            if hasattr(call, a):
                setattr(n, a, getattr(call, a))
    return new


def list_maps(func):
    """list_maps_in() over the whole body of `func`."""
    return list_maps_in(func.body)


def _scope_nodes(stmts):
    out = []
    stack = list(reversed(stmts))
    while stack:
        n = stack.pop()
        out.append(n)
        if isinstance(n, (ast.FunctionDef, ast.AsyncFunctionDef, ast.ClassDef, ast.Lambda)):
            continue
        stack.extend(reversed(list(ast.iter_child_nodes(n))))
    return out


def list_maps_in(stmts):
    """{name: (iterable expr, target, element expr, node)} for every local
    list built with one element per item of an iterable, in order: either
    `L = [E for x in IT]` or `L = []` + `for x in IT: L.append(E)` (the
    append unconditional, directly in the loop body, the only mutation).
    `stmts` is a block (e.g. a function body specialised to a case)."""
    out = {}
    stores = {}
    nodes = _scope_nodes(stmts)
    for n in nodes:
        if isinstance(n, ast.Name) and isinstance(n.ctx, ast.Store):
            stores[n.id] = stores.get(n.id, 0) + 1
    for n in nodes:
        if isinstance(n, ast.Assign) and len(n.targets) == 1 and \
                isinstance(n.targets[0], ast.Name) and stores.get(n.targets[0].id) == 1:
            name = n.targets[0].id
            v = n.value
            if isinstance(v, ast.ListComp) and len(v.generators) == 1 and \
                    not v.generators[0].ifs:
                g = v.generators[0]
                out[name] = (g.iter, g.target, v.elt, n)
            elif isinstance(v, ast.List) and not v.elts:
                muts = [c for c in nodes if isinstance(c, ast.Call)
                        and isinstance(c.func, ast.Attribute)
                        and isinstance(c.func.value, ast.Name)
                        and c.func.value.id == name
                        and c.func.attr in ("append", "insert", "extend", "pop",
                                            "remove", "clear", "sort", "reverse")]
                if len(muts) == 1 and muts[0].func.attr == "append" and \
                        len(muts[0].args) == 1:
                    from .cfg import enclosing_stmt
                    st = enclosing_stmt(muts[0])
                    par = getattr(st, "_parent", None)
                    if isinstance(par, ast.For) and st in par.body and \
                            not par.orelse and \
                            isinstance(st, ast.Expr) and st.value is muts[0] and \
                            not any(isinstance(x, (ast.Break, ast.Continue, ast.Return))
                                    for b in par.body for x in ast.walk(b)):
                        out[name] = (par.iter, par.target, muts[0].args[0], par)
    return out


def _match_target(pattern, expr, bind):
    if isinstance(pattern, ast.Name):
        bind[pattern.id] = expr
        return True
    if isinstance(pattern, (ast.Tuple, ast.List)) and isinstance(expr, (ast.Tuple, ast.List)) \
            and len(pattern.elts) == len(expr.elts) and not any(
                isinstance(x, ast.Starred) for x in pattern.elts + expr.elts):
        return all(_match_target(p, e, bind) for p, e in zip(pattern.elts, expr.elts))
    return False


def resolve_list_map(maps, name, depth=0):
    """A list map whose iterable is itself a mapped list, composed:
    `[E2 for T2 in L]` with `L = [E1 for T1 in IT]` reads as
    `[E2[T2 := E1] for T1 in IT]` (T2 must destructure E1 syntactically)."""
    from .symcase import clone
    if name not in maps:
        return None
    it, tg, elt, node = maps[name]
    if isinstance(it, ast.Name) and it.id in maps and depth < 4:
        inner = resolve_list_map(maps, it.id, depth + 1)
        if inner is None:
            return None
        it2, tg2, elt2, node2 = inner
        bind = {}
        if not _match_target(tg, elt2, bind):
            return None

        class Sub(ast.NodeTransformer):
            def visit_Name(self, n):
                if isinstance(n.ctx, ast.Load) and n.id in bind:
                    return clone(bind[n.id])
                return n
        return it2, tg2, Sub().visit(clone(elt)), node2
    return it, tg, elt, node


def defs_of(ctx, func, name_node):
    """[(kind, value, path, stmt)] reaching definitions of a Name use."""
    facts, is_param = ctx.ty.facts_at(func, name_node.id, name_node)
    return facts, is_param


def cmp_parts(ctx, func, test, pol=True):
    """Canonical (op, left text, right text) of a 2-operand comparison with
    `>`/`>=` flipped to `<`/`<=`; None when `test` is not one.  Polarity
    False negates the operator."""
    if isinstance(test, ast.UnaryOp) and isinstance(test.op, ast.Not):
        return cmp_parts(ctx, func, test.operand, not pol)
    if not isinstance(test, ast.Compare) or len(test.ops) != 1:
        return None
    op = OPSYM.get(type(test.ops[0]))
    if op is None:
        return None
    l = inline(ctx, func, test.left)
    r = inline(ctx, func, test.comparators[0])
    if not pol:
        op = NEG[op]
    if op in (">", ">="):
        op = {">": "<", ">=": "<="}[op]
        l, r = r, l
    return op, l, r


def cmp_raw(test, pol=True):
    """cmp_parts without inlining temporaries."""
    if isinstance(test, ast.UnaryOp) and isinstance(test.op, ast.Not):
        return cmp_raw(test.operand, not pol)
    if not isinstance(test, ast.Compare) or len(test.ops) != 1:
        return None
    op = OPSYM.get(type(test.ops[0]))
    if op is None:
        return None
    l, r = text(test.left), text(test.comparators[0])
    if not pol:
        op = NEG[op]
    if op in (">", ">="):
        op = {">": "<", ">=": "<="}[op]
        l, r = r, l
    return op, l, r


SYM_OPS = {"==", "!=", "is", "is not"}


def A(op, l, r):
    """Canonical comparison atom (op, left, right): blanks removed, `>`/`>=`
    flipped, operands of symmetric operators in text order."""
    l, r = l.replace(" ", ""), r.replace(" ", "")
    if op in (">", ">="):
        op, l, r = {">": "<", ">=": "<="}[op], r, l
    if op in SYM_OPS and r < l:
        l, r = r, l
    return (op, l, r)


def catom(ctx, func, test, pol=True, inline_=True):
    """Canonical atom of a boolean leaf: A(...) for a comparison, else
    ('truth', text, polarity)."""
    if inline_ and ctx is not None and isinstance(test, ast.Name):
        v = single_def(ctx, func, test)
        if isinstance(v, (ast.Compare, ast.UnaryOp, ast.BoolOp)):
            test = v
    p = cmp_parts(ctx, func, test, pol) if (inline_ and ctx is not None) else cmp_raw(test, pol)
    if p is None:
        if isinstance(test, ast.UnaryOp) and isinstance(test.op, ast.Not):
            return catom(ctx, func, test.operand, not pol, inline_)
        t = inline(ctx, func, test) if (inline_ and ctx is not None) else text(test)
        return ("truth", t.replace(" ", ""), pol)
    return A(*p)


def catoms(ctx, func, test, pol=True, inline_=True):
    """Set of canonical atoms of a conjunction (disjunctions stay one
    'truth' atom)."""
    out = set()
    for t, q in conjuncts(test, pol):
        if inline_ and ctx is not None and isinstance(t, ast.Name):
            v = single_def(ctx, func, t)
            if isinstance(v, ast.BoolOp) or (isinstance(v, ast.UnaryOp)
                                            and isinstance(v.op, ast.Not)):
                out |= catoms(ctx, func, v, q, inline_)
                continue
        out.add(catom(ctx, func, t, q, inline_))
    return out


def msearch(src, pattern, env=None, full=False):
    """Search `pattern` in `src` (both without blanks); `$A`, `$B`, ... in
    the pattern are metavariables that match one identifier each,
    consistently.  Returns the binding dict (extended `env`) or None.
    Used where a rule has to name a local variable of /repo: the rule names
    its role, not what the code calls it."""
    import re as _re
    env = dict(env or {})
    out, seen = [], set()
    i = 0
    pattern = pattern.replace(" ", "")
    while i < len(pattern):
        ch = pattern[i]
        if ch == "$" and i + 1 < len(pattern) and pattern[i + 1].isupper():
            v = pattern[i + 1]
            if v in env:
                out.append(_re.escape(env[v]))
            elif v in seen:
                out.append("(?P=%s)" % v)
            else:
                seen.add(v)
                out.append(r"(?<![\w.])(?P<%s>[A-Za-z_]\w*)" % v)
            i += 2
        else:
            out.append(_re.escape(ch))
            i += 1
    rx = "".join(out)
    m = (_re.fullmatch if full else _re.search)(rx, src.replace(" ", ""))
    if not m:
        return None
    env.update(m.groupdict())
    return env


def recursion_steps(func):
    """Self-recursive calls of `func` (by name: `x.f(..)`, `C.f(..)`, `f(..)`)
    that pass `<own parameter> +/- <int literal>`:
    [(call, parameter, '+'|'-', literal)]."""
    params = set(func.all_param_names())
    out = []
    nodes = list(func.own_nodes())
    # closures defined inside `func` see its parameters (unless they shadow them)
    for d in list(nodes):
        if isinstance(d, (ast.FunctionDef, ast.Lambda)):
            own = {a.arg for a in d.args.args + d.args.kwonlyargs}
            if own & params:
                continue
            body = d.body if isinstance(d.body, list) else [d.body]
            for b in body:
                nodes += [x for x in ast.walk(b)]
    for c in nodes:
        if not isinstance(c, ast.Call):
            continue
        nm = c.func.attr if isinstance(c.func, ast.Attribute) else (
            c.func.id if isinstance(c.func, ast.Name) else None)
        if nm != func.name:
            continue
        for a in list(c.args) + [k.value for k in c.keywords]:
            if isinstance(a, ast.BinOp) and isinstance(a.op, (ast.Add, ast.Sub)) and \
                    isinstance(a.left, ast.Name) and a.left.id in params and \
                    isinstance(a.right, ast.Constant) and type(a.right.value) is int:
                out.append((c, a.left.id, "+" if isinstance(a.op, ast.Add) else "-",
                            a.right.value))
    return out


def check_unit_recursion(ctx, rule, func, what):
    """A function that walks the tree level by level recurses with its
    depth / level parameter changed by exactly one, always in the same
    direction.  Returns the number of recursion sites examined."""
    steps = recursion_steps(func)
    dirs = {d for _, _, d, _ in steps}
    for c, prm, d, k in steps:
        if k == 1 and len(dirs) == 1:
            ctx.ok(rule, func, c, "%s: one level per recursion (%s %s 1)"
                   % (what, prm, d), text_="%s recursion step" % func.name)
        else:
            ctx.bad(rule, func, c, "%s recurses with `%s %s %d`%s: the walk "
                    "does not move exactly one level per recursion, so levels "
                    "are skipped / visited twice and the level-indexed "
                    "quantities (shape entry, rank, remaining levels) belong to "
                    "the wrong rank" % (func.name, prm, d, k,
                                        "" if len(dirs) == 1 else
                                        " (mixed directions)"),
                    text_="%s recursion step" % func.name)
    return len(steps)


def guarded_actions(ctx, func, stmts, base=frozenset()):
    """[(guard atoms, statement, value expr)] of the simple statements of a
    block: nested `if`s contribute their (canonical) atoms, a conditional
    expression at the top of a statement's value (or as the single argument
    of a call statement) is split into its two alternatives, and what
    follows an `if` whose branch leaves the block (continue / break /
    return / raise) runs under the negated test -- so an if/else and a
    guard clause read the same.  A trailing `continue` is not an action.
    Loops / with / try are returned as opaque statements."""
    out = []
    base = frozenset(base)

    def leaves(blk):
        blk = real_stmts(blk)
        return bool(blk) and isinstance(blk[-1], (ast.Continue, ast.Break,
                                                  ast.Return, ast.Raise))
    for st in stmts:
        if isinstance(st, ast.If):
            tg = frozenset(catoms(ctx, func, st.test, True))
            fg = frozenset(catoms(ctx, func, st.test, False))
            out += guarded_actions(ctx, func, st.body, base | tg)
            out += guarded_actions(ctx, func, st.orelse, base | fg)
            b_out, e_out = leaves(st.body), leaves(st.orelse)
            if b_out and e_out:
                break
            if b_out:
                base = base | fg
            elif e_out:
                base = base | tg
            continue
        if isinstance(st, ast.Continue):
            continue
        v = getattr(st, "value", None)
        if isinstance(st, (ast.AugAssign, ast.Assign, ast.Return, ast.Expr)) and \
                isinstance(v, ast.IfExp):
            for pol, alt in ((True, v.body), (False, v.orelse)):
                out.append((base | frozenset(catoms(ctx, func, v.test, pol)), st, alt))
        elif isinstance(st, ast.Expr) and isinstance(v, ast.Call) and \
                len(v.args) == 1 and not v.keywords and isinstance(v.args[0], ast.IfExp):
            ie = v.args[0]
            for pol, alt in ((True, ie.body), (False, ie.orelse)):
                c2 = ast.Call(func=v.func, args=[alt], keywords=[])
                ast.copy_location(c2, v)
                out.append((base | frozenset(catoms(ctx, func, ie.test, pol)), st, c2))
        else:
            out.append((base, st, v))
    return out


def forall_form(ctx, func):
    """A function that returns whether a predicate holds for every item of
    an iterable: (iterable expr, item variable, predicate expr, polarity,
    node) -- `return all(map(lambda x: P, IT))`, `return all(P for x in IT)`,
    `return not any(..)`, or `for x in IT: if not P: return False` followed
    by `return True`.  None when the function is not of that shape."""
    body = [b for b in real_stmts(func.body) if not isinstance(b, ast.Assert)
            and not (isinstance(b, ast.Expr) and isinstance(b.value, ast.Constant))]
    if not body:
        return None
    last = body[-1]
    if len(body) == 1 and isinstance(last, ast.Return) and last.value is not None:
        v, pol = last.value, True
        if isinstance(v, ast.UnaryOp) and isinstance(v.op, ast.Not):
            v, pol = v.operand, False
        if isinstance(v, ast.Call) and isinstance(v.func, ast.Name) and \
                v.func.id in ("all", "any") and len(v.args) == 1 and not v.keywords:
            # all(P) == forall P ; not any(Q) == forall not Q
            if (v.func.id == "all") != pol:
                return None
            inner_pol = pol
            a = v.args[0]
            if isinstance(a, ast.Call) and text(a.func) == "map" and len(a.args) == 2 \
                    and isinstance(a.args[0], ast.Lambda) and len(a.args[0].args.args) == 1:
                return (a.args[1], a.args[0].args.args[0].arg, a.args[0].body,
                        inner_pol, last)
            if isinstance(a, (ast.GeneratorExp, ast.ListComp)) and len(a.generators) == 1 \
                    and not a.generators[0].ifs:
                tg = a.generators[0].target
                return (a.generators[0].iter,
                        tg.id if isinstance(tg, ast.Name) else text(tg), a.elt,
                        inner_pol, last)
        return None
    if len(body) == 2 and isinstance(body[0], ast.For) and not body[0].orelse and \
            isinstance(last, ast.Return) and isinstance(last.value, ast.Constant) and \
            last.value.value is True and isinstance(body[0].target, ast.Name):
        lb = real_stmts(body[0].body)
        if len(lb) == 1 and isinstance(lb[0], ast.If) and not lb[0].orelse:
            ib = real_stmts(lb[0].body)
            if len(ib) == 1 and isinstance(ib[0], ast.Return) and \
                    isinstance(ib[0].value, ast.Constant) and ib[0].value.value is False:
                t, pol = lb[0].test, False      # `if T: return False` == forall not T
                while isinstance(t, ast.UnaryOp) and isinstance(t.op, ast.Not):
                    t, pol = t.operand, not pol
                return (body[0].iter, body[0].target.id, t, pol, body[0])
    return None


def seq_segments(e):
    """A tuple/list-valued expression as a sequence of segments, whatever
    mixture of literals, `+`, tuple()/list() and comprehensions spells it:
    [('elt', text) | ('map', element text with the item variable written
    `$`, iterable text)], or None.  `tuple([a] + [f(x) for x in xs])` and
    `(a,) + tuple(f(x) for x in xs)` have the same segments."""
    import re as _re
    if isinstance(e, (ast.Tuple, ast.List)):
        if any(isinstance(x, ast.Starred) for x in e.elts):
            return None
        return [("elt", text(x).replace(" ", "").replace('"', "'")) for x in e.elts]
    if isinstance(e, ast.BinOp) and isinstance(e.op, ast.Add):
        l, r = seq_segments(e.left), seq_segments(e.right)
        return None if l is None or r is None else l + r
    if isinstance(e, ast.Call) and isinstance(e.func, ast.Name) and \
            e.func.id in ("tuple", "list") and len(e.args) == 1 and not e.keywords:
        return seq_segments(e.args[0])
    if isinstance(e, (ast.ListComp, ast.GeneratorExp)) and len(e.generators) == 1 and \
            not e.generators[0].ifs and isinstance(e.generators[0].target, ast.Name):
        v = e.generators[0].target.id
        elt = _re.sub(r"(?<![\w.])%s\b" % _re.escape(v), "$", text(e.elt).replace(" ", ""))
        return [("map", elt, text(e.generators[0].iter).replace(" ", ""))]
    return None


def three_way(ctx, func, stmts, a, b):
    """{'eq': stmts, 'lt': stmts, 'gt': stmts} for a block that is a
    three-way comparison of the expressions (texts) `a` and `b` -- in any
    branch order, as an if/elif/else chain, as `if ..: ..; continue`
    sequences or a mixture (what follows a branch that ends in `continue`
    is its else part; a final branch without a test is the remaining
    relation).  'lt' means a < b.  None when the block is not of that shape."""
    a, b = a.replace(" ", ""), b.replace(" ", "")

    def rel_of(test):
        p = cmp_parts(ctx, func, test) if ctx is not None else cmp_raw(test)
        if p is None:
            return None
        op, l, r = p[0], p[1].replace(" ", ""), p[2].replace(" ", "")
        if op == "==" and {l, r} == {a, b}:
            return "eq"
        if op == "<" and (l, r) == (a, b):
            return "lt"
        if op == "<" and (l, r) == (b, a):
            return "gt"
        return None
    out = {}

    def split(stmts):
        stmts = real_stmts(stmts)
        if not stmts:
            return True
        st = stmts[0]
        r = rel_of(st.test) if isinstance(st, ast.If) else None
        if r is None:
            rest = {"eq", "lt", "gt"} - set(out)
            if len(rest) != 1:
                return False
            out[rest.pop()] = stmts
            return True
        if r in out:
            return False
        out[r] = st.body
        if st.orelse:
            return len(stmts) == 1 and split(st.orelse)
        if len(stmts) == 1:
            return True
        if isinstance(real_stmts(st.body)[-1], ast.Continue):
            return split(stmts[1:])
        return False
    if not split(stmts) or set(out) != {"eq", "lt", "gt"}:
        return None
    return out


def const_values(ctx, func, e):
    """The constants an argument can be: [value] for a literal, the items for
    a name that is (only) the target of a `for` over a literal tuple / list
    of constants; None otherwise."""
    if isinstance(e, ast.Constant):
        return [e.value]
    if isinstance(e, ast.Name):
        facts, is_param = ctx.ty.facts_at(func, e.id, e)
        if is_param or len(facts) != 1 or facts[0].kind != "elem" or facts[0].path:
            return None
        it = facts[0].value
        if isinstance(it, (ast.Tuple, ast.List)) and it.elts and \
                all(isinstance(x, ast.Constant) for x in it.elts):
            return [x.value for x in it.elts]
    return None


def sum_form(ctx, func):
    """A function that returns a start value plus one term per item of an
    iterable: dict(start=, iter=, target=, elt=, node=) for
    `acc = S; for x in IT: acc += E; return acc` and for
    `return sum((E for x in IT), S)` (also through a temporary, list
    comprehension, or without start = 0).  None otherwise."""
    rets = returns(func)
    if len(rets) != 1 or rets[0].value is None:
        return None
    v = rets[0].value
    if isinstance(v, ast.Name):
        accs = [n for n in func.own_nodes() if isinstance(n, ast.AugAssign)
                and isinstance(n.target, ast.Name) and n.target.id == v.id]
        inits = [n for n in func.own_nodes() if isinstance(n, ast.Assign)
                 and len(n.targets) == 1 and isinstance(n.targets[0], ast.Name)
                 and n.targets[0].id == v.id]
        if len(accs) == 1 and len(inits) == 1 and isinstance(accs[0].op, ast.Add):
            lp = getattr(accs[0], "_parent", None)
            if isinstance(lp, ast.For) and accs[0] in lp.body and not lp.orelse and \
                    inits[0] in func.body and lp in func.body and \
                    func.body.index(inits[0]) < func.body.index(lp) and \
                    not any(isinstance(x, (ast.Break, ast.Continue, ast.Return))
                            for b in lp.body for x in ast.walk(b)):
                it_, tg_, el_ = lp.iter, lp.target, accs[0].value
                if isinstance(it_, (ast.GeneratorExp, ast.ListComp)) and \
                        len(it_.generators) == 1 and not it_.generators[0].ifs and \
                        isinstance(tg_, ast.Name):
                    # looping over `(E for x in IT)` is looping over IT with E
                    from .symcase import clone
                    inner, var = it_, tg_.id

                    class Sub(ast.NodeTransformer):
                        def visit_Name(self, n):
                            if n.id == var and isinstance(n.ctx, ast.Load):
                                return clone(inner.elt)
                            return n
                    el_ = Sub().visit(clone(el_))
                    it_, tg_ = inner.generators[0].iter, inner.generators[0].target
                return dict(start=inits[0].value, iter=it_, target=tg_,
                            elt=el_, node=accs[0])
            return None
        if not accs and len(inits) == 1:
            v = inits[0].value
    if isinstance(v, ast.Call) and isinstance(v.func, ast.Name) and v.func.id == "sum" \
            and 1 <= len(v.args) <= 2 and not v.keywords:
        g = v.args[0]
        start = v.args[1] if len(v.args) == 2 else ast.Constant(value=0)
        if isinstance(g, ast.Call) and isinstance(g.func, ast.Name) and g.func.id == "map" \
                and len(g.args) == 2 and not g.keywords:
            # sum(map(F, IT), S): one F(item) per item
            item = ast.Name(id="item_", ctx=ast.Load())
            elt = ast.Call(func=g.args[0], args=[item], keywords=[])
            ast.copy_location(elt, g)
            ast.fix_missing_locations(elt)
            return dict(start=start, iter=g.args[1], target=ast.Name(id="item_", ctx=ast.Store()),
                        elt=elt, node=rets[0])
        if isinstance(g, (ast.GeneratorExp, ast.ListComp)) and len(g.generators) == 1 \
                and not g.generators[0].ifs:
            start = v.args[1] if len(v.args) == 2 else ast.Constant(value=0)
            return dict(start=start, iter=g.generators[0].iter,
                        target=g.generators[0].target, elt=g.elt, node=rets[0])
    return None


def catoms_of_guards(ctx, func, stmt, stop=None, asserts=False):
    """Canonical atoms (temporaries inlined) of the structural guards of a
    statement."""
    from .cfg import atomic_guards
    return {catom(ctx, func, t, pol, True) for t, pol in atomic_guards(stmt, stop, asserts)}


def fold_const_subscripts(e):
    """`(a, b)[0]` -> `a` (after a parameter was replaced by a literal)."""
    class F(ast.NodeTransformer):
        def visit_Subscript(self, n):
            self.generic_visit(n)
            if isinstance(n.value, (ast.Tuple, ast.List)) and \
                    isinstance(n.slice, ast.Constant) and isinstance(n.slice.value, int) \
                    and -len(n.value.elts) <= n.slice.value < len(n.value.elts) and \
                    not any(isinstance(x, ast.Starred) for x in n.value.elts):
                return n.value.elts[n.slice.value]
            return n
    return F().visit(e)


def checker_call(ctx, func, call):
    """`self.h(a, ..)` where h is a method of the same class whose body is
    (a docstring and) one `assert`: the asserted test with h's parameters
    replaced by the arguments, else None.  A precondition moved into a
    checking helper reads like the assert it contains."""
    from .symcase import clone
    if not (isinstance(call, ast.Call) and isinstance(call.func, ast.Attribute)
            and isinstance(call.func.value, ast.Name) and func.cls is not None
            and func.params and call.func.value.id == func.params[0]):
        return None
    h = func.cls.methods.get(call.func.attr)
    if h is None or h.node is None or h.kind != "method" or not h.params:
        return None
    body = [b for b in h.body if not (isinstance(b, ast.Expr) and
                                      isinstance(b.value, ast.Constant))]
    if len(body) != 1 or not isinstance(body[0], ast.Assert):
        return None
    if call.keywords or len(call.args) != len(h.params) - 1 or \
            any(isinstance(a, ast.Starred) for a in call.args):
        return None
    bind = dict(zip(h.params[1:], call.args))
    bind[h.params[0]] = call.func.value

    class Sub(ast.NodeTransformer):
        def visit_Name(self, n):
            if isinstance(n.ctx, ast.Load) and n.id in bind:
                return clone(bind[n.id])
            return n
    return fold_const_subscripts(Sub().visit(clone(body[0].test)))


def ifexp_alternatives(ctx, func, e, base=frozenset()):
    """A value written as (nested) conditional expressions, as its
    alternatives: [(guard atoms, leaf expression)]."""
    if isinstance(e, ast.IfExp):
        return ifexp_alternatives(ctx, func, e.body,
                                  base | frozenset(catoms(ctx, func, e.test, True))) + \
            ifexp_alternatives(ctx, func, e.orelse,
                               base | frozenset(catoms(ctx, func, e.test, False)))
    return [(frozenset(base), e)]


def T(text_, pol=True):
    """Canonical truth atom."""
    return ("truth", text_.replace(" ", ""), pol)


def conjuncts(test, pol=True):
    from .cfg import flatten_conj
    return flatten_conj(test, pol)


def disjuncts(test):
    if isinstance(test, ast.BoolOp) and isinstance(test.op, ast.Or):
        out = []
        for v in test.values:
            out.extend(disjuncts(v))
        return out
    return [test]


def dnf(test, pol=True, limit=64):
    """Disjunctive normal form of a boolean expression: a list of frozensets
    of (atom text without blanks, polarity).  None when it would exceed
    `limit` disjuncts.  `not`, `and`, `or` are interpreted; everything else
    is an atom (truthiness)."""
    if isinstance(test, ast.UnaryOp) and isinstance(test.op, ast.Not):
        return dnf(test.operand, not pol, limit)
    if isinstance(test, ast.BoolOp):
        is_and = isinstance(test.op, ast.And) == pol
        parts = [dnf(v, pol, limit) for v in test.values]
        if any(p is None for p in parts):
            return None
        if not is_and:
            out = [d for p in parts for d in p]
        else:
            out = [frozenset()]
            for p in parts:
                out = [a | b for a in out for b in p]
                if len(out) > limit:
                    return None
        # drop contradictory disjuncts
        out = [d for d in out if not any((t, not q) in d for t, q in d)]
        return out if len(out) <= limit else None
    return [frozenset([(text(test).replace(" ", ""), pol)])]


def cdnf(ctx, func, test, pol=True, limit=64, inline_=False):
    """dnf() over canonical atoms (catom; temporaries inlined only on
    request): a list of frozensets of atoms, None beyond `limit` disjuncts."""
    if isinstance(test, ast.UnaryOp) and isinstance(test.op, ast.Not):
        return cdnf(ctx, func, test.operand, not pol, limit, inline_)
    if isinstance(test, ast.BoolOp):
        is_and = isinstance(test.op, ast.And) == pol
        parts = [cdnf(ctx, func, v, pol, limit, inline_) for v in test.values]
        if any(p is None for p in parts):
            return None
        if not is_and:
            out = [d for p in parts for d in p]
        else:
            out = [frozenset()]
            for p in parts:
                out = [a | b for a in out for b in p]
                if len(out) > limit:
                    return None
        return out if len(out) <= limit else None
    return [frozenset([catom(ctx, func, test, pol, inline_)])]


def guard_dnf(ctx, func, stmt, stop=None, asserts=False, limit=64, inline_=False):
    """The condition under which `stmt` runs (structural guards up to
    `stop`), in DNF over canonical atoms: list of frozensets, or None."""
    from .cfg import guards as _guards
    out = [frozenset()]
    for t, pol in _guards(stmt, stop=stop, asserts=asserts):
        d = cdnf(ctx, func, t, pol, limit, inline_)
        if d is None:
            return None
        out = [a | b for a in out for b in d]
        if len(out) > limit:
            return None
    return out


def bool_dnf(ctx, func, test, pol=True, depth=0, limit=64):
    """dnf() that also expands a boolean *variable* into what its reaching
    definitions say: for `v = E1` under guards G1 and `v = E2` under G2 the
    test `v` becomes (G1 and E1) or (G2 and E2).  Guards are taken relative
    to the block of the first definition (an if/else that sets a flag)."""
    from .cfg import guards as _guards
    base = dnf(test, pol, limit)
    if base is None or depth > 2 or ctx is None:
        return base
    out = []
    for disj in base:
        alts = [frozenset()]
        for atxt, apol in disj:
            expanded = None
            if atxt.isidentifier():
                node = None
                for n in ast.walk(test):
                    if isinstance(n, ast.Name) and n.id == atxt:
                        node = n
                        break
                if node is not None and hasattr(node, "_parent"):
                    facts, is_param = ctx.ty.facts_at(func, atxt, node)
                    vals = [fa for fa in facts if fa.kind == "expr" and not fa.path
                            and not isinstance(fa.stmt, ast.AugAssign)]
                    if not is_param and vals and len(vals) == len(facts) and \
                            all(isinstance(fa.value, (ast.BoolOp, ast.Compare, ast.UnaryOp,
                                                      ast.Call, ast.Constant, ast.Name))
                                for fa in vals) and (len(vals) > 1 or not isinstance(
                                    vals[0].value, (ast.Constant,))):
                        # common ancestor block: guards below the if that
                        # contains all definitions
                        anc = None
                        if len(vals) > 1:
                            chains = []
                            for fa in vals:
                                ch, n_ = [], fa.stmt
                                while getattr(n_, "_parent", None) is not None:
                                    n_ = n_._parent
                                    ch.append(n_)
                                chains.append(ch)
                            for c_ in chains[0]:
                                if all(c_ in ch for ch in chains[1:]) and isinstance(c_, ast.If):
                                    anc = c_
                                    break
                        expanded = []
                        for fa in vals:
                            gs = []
                            n_ = fa.stmt
                            # guards between the definition and the ancestor
                            for t_, p_ in _guards(fa.stmt, asserts=False):
                                inside = anc is not None and any(
                                    x is t_ for x in ast.walk(anc))
                                if inside:
                                    gs.append((t_, p_))
                            part = [frozenset()]
                            for t_, p_ in gs:
                                d_ = dnf(t_, p_, limit)
                                if d_ is None:
                                    return None
                                part = [a | b for a in part for b in d_]
                            dv = bool_dnf(ctx, func, fa.value, apol, depth + 1, limit)
                            if dv is None:
                                return None
                            expanded += [a | b for a in part for b in dv]
            if expanded is None:
                alts = [a | {(atxt, apol)} for a in alts]
            else:
                alts = [a | b for a in alts for b in expanded]
            if len(alts) > limit:
                return None
        out += alts
    out = [d for d in out if not any((t, not q) in d for t, q in d)]
    return out if len(out) <= limit else None


def calls(func_or_nodes, name=None, attr=None):
    """Call nodes in a function's own body, filtered by full dotted name or
    by attribute (method) name."""
    nodes = func_or_nodes.own_nodes() if hasattr(func_or_nodes, "own_nodes") \
        else func_or_nodes
    out = []
    for n in nodes:
        if isinstance(n, ast.Call):
            if name is not None and text(n.func) != name:
                continue
            if attr is not None and not (isinstance(n.func, ast.Attribute)
                                         and n.func.attr == attr):
                continue
            out.append(n)
    return out


def walk_expr(node):
    """ast.walk that does not descend into lambdas / nested defs."""
    stack = [node]
    while stack:
        n = stack.pop()
        yield n
        for ch in ast.iter_child_nodes(n):
            if isinstance(ch, (ast.Lambda, ast.FunctionDef, ast.ClassDef)):
                continue
            stack.append(ch)


def is_call(node, *names):
    return isinstance(node, ast.Call) and text(node.func) in names


def kwarg(call, name, pos=None):
    for kw in call.keywords:
        if kw.arg == name:
            return kw.value
    if pos is not None and pos < len(call.args):
        return call.args[pos]
    return None


def returns(func):
    return [n for n in func.own_nodes() if isinstance(n, ast.Return)]


def yields(func):
    return [n for n in func.own_nodes() if isinstance(n, (ast.Yield, ast.YieldFrom))]


def real_stmts(block):
    """Statements of a block without docstring-like bare string expressions."""
    return [s for s in block
            if not (isinstance(s, ast.Expr) and isinstance(s.value, ast.Constant)
                    and isinstance(s.value.value, str))
            and not isinstance(s, ast.Pass)]


def adjacent(a, b):
    """Statements a, b are neighbours in the same block (comments and bare
    strings between them ignored)."""
    from .cfg import parent_block
    pa, pb = parent_block(a), parent_block(b)
    if pa is None or pb is None or pa[0] is not pb[0]:
        return False
    blk = real_stmts(pa[0])
    if a not in blk or b not in blk:
        return False
    return abs(blk.index(a) - blk.index(b)) == 1


def _pblock(n):
    from .cfg import parent_block
    return parent_block(n)


def net_after(stmt, var):
    """Net constant change of the integer variable `var` on every way from
    the end of `stmt` to the end of the current round of the enclosing loop
    (`continue` included; ways that leave the loop do not count): a set of
    ints, with '?' for a change that is not `var += k` / `var -= k`.  None
    when `stmt` is in no loop."""
    def block(stmts, start):
        """{delta} of the ways that fall out of the block, {delta} of the ways
        that end the round inside it."""
        live, ended = set(start), set()
        for st in stmts:
            if not live:
                break
            if isinstance(st, ast.AugAssign) and text(st.target) == var:
                k = st.value.value if isinstance(st.value, ast.Constant) and \
                    isinstance(st.value.value, int) else None
                sign = 1 if isinstance(st.op, ast.Add) else -1 if isinstance(st.op, ast.Sub) else None
                live = {"?" if (k is None or sign is None or x == "?") else x + sign * k
                        for x in live}
            elif isinstance(st, ast.Assign) and any(
                    isinstance(x, ast.Name) and x.id == var
                    for t in st.targets for x in ast.walk(t)):
                live = {"?"}
            elif isinstance(st, ast.Continue):
                ended |= live
                live = set()
            elif isinstance(st, (ast.Break, ast.Return, ast.Raise)):
                live = set()
            elif isinstance(st, ast.If):
                l1, e1 = block(st.body, live)
                l2, e2 = block(st.orelse, live)
                live, ended = l1 | l2, ended | e1 | e2
            elif isinstance(st, (ast.For, ast.While)):
                if any(isinstance(x, ast.Name) and x.id == var and
                       isinstance(x.ctx, ast.Store) for x in ast.walk(st)):
                    live = {"?"}
            elif isinstance(st, (ast.With, ast.Try)):
                l1, e1 = block(st.body, live)
                live, ended = l1, ended | e1
                for h in getattr(st, "handlers", []):
                    l2, e2 = block(h.body, {"?"} if any(
                        isinstance(x, ast.Name) and x.id == var and
                        isinstance(x.ctx, ast.Store) for b in st.body for x in ast.walk(b))
                        else start)
                    live, ended = live | l2, ended | e2
                for fld in ("orelse", "finalbody"):
                    sub = getattr(st, fld, None)
                    if sub:
                        live, e1 = block(sub, live)
                        ended |= e1
        return live, ended
    live, ended = {0}, set()
    n = stmt
    while True:
        pb = _pblock(n)
        if pb is None:
            return None
        blk, idx, parent, field = pb
        live, e = block(blk[idx + 1:], live)
        ended |= e
        if isinstance(parent, (ast.For, ast.While)) and field == "body":
            return live | ended
        if isinstance(parent, (ast.FunctionDef, ast.AsyncFunctionDef, ast.Lambda)) or \
                not isinstance(parent, (ast.stmt, ast.ExceptHandler)):
            return None
        if isinstance(parent, ast.ExceptHandler):
            parent = parent._parent
        n = parent


def ifexp_as_bool(e):
    """A copy of a boolean expression in which every conditional expression
    `A if T else B` reads `(T and A) or (not T and B)` (the same truth value),
    so that dnf()/cdnf() see its structure."""
    from .symcase import clone

    class X(ast.NodeTransformer):
        def visit_IfExp(self, n):
            self.generic_visit(n)
            new = ast.BoolOp(op=ast.Or(), values=[
                ast.BoolOp(op=ast.And(), values=[clone(n.test), n.body]),
                ast.BoolOp(op=ast.And(), values=[
                    ast.UnaryOp(op=ast.Not(), operand=clone(n.test)), n.orelse])])
            return ast.fix_missing_locations(ast.copy_location(new, n))
    return X().visit(clone(e))


def check_param_positions(ctx, rule, func, callees, what):
    """A function that hands its own parameters on to itself (recursion) or
    to a sibling with parameters of the same names: a positional argument
    that is one of its parameters `p`, or `p + k` / `p - k`, must sit in the
    position of the callee's parameter `p` (or be passed by that keyword).
    `callees`: {method name: Func}.  Returns the number of calls examined."""
    own = set(func.all_param_names())
    n = 0
    for c in func.own_nodes():
        if not (isinstance(c, ast.Call) and isinstance(c.func, ast.Attribute) and
                c.func.attr in callees and callees[c.func.attr] is not None):
            continue
        h = callees[c.func.attr]
        ps = list(h.params)
        if h.kind in ("method", "class"):
            ps = ps[1:]
        n += 1
        wrong = None
        for i, a in enumerate(c.args):
            base = a
            if isinstance(a, ast.BinOp) and isinstance(a.op, (ast.Add, ast.Sub)) and \
                    isinstance(a.right, ast.Constant):
                base = a.left
            if isinstance(base, ast.Name) and base.id in own and base.id in ps and \
                    (i >= len(ps) or ps[i] != base.id):
                wrong = (text(a), base.id, ps[i] if i < len(ps) else "?")
        for k in c.keywords:
            base = k.value
            if isinstance(base, ast.BinOp) and isinstance(base.op, (ast.Add, ast.Sub)) and \
                    isinstance(base.right, ast.Constant):
                base = base.left
            if k.arg and isinstance(base, ast.Name) and base.id in own and \
                    base.id in ps and k.arg in ps and k.arg != base.id:
                wrong = (text(k.value), base.id, k.arg)
        if wrong:
            ctx.bad(rule, func, c, "%s: `%s` hands `%s` (its own `%s`) on as the "
                    "callee's `%s`: the levels below receive the arguments "
                    "exchanged" % (what, text(c)[:60], wrong[0], wrong[1], wrong[2]),
                    text_="%s -> %s argument positions" % (func.name, c.func.attr))
        else:
            ctx.ok(rule, func, c, "%s: own parameters handed on in their positions" % what,
                   text_="%s -> %s argument positions" % (func.name, c.func.attr))
    return n

