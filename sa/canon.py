"""Syntactic canonical form applied to every module right after parsing, so
that the rules see one spelling of constructs that have several
behaviourally identical ones (DESIGN.md section 5, must-stay-silent corpus):

* ``if not C: A else: B``        ->  ``if C: B else: A``;
  likewise a two-way test spelled ``!=`` / ``is not`` / ``not in`` / ``<=``
  becomes ``==`` / ``is`` / ``in`` / ``<`` with the branches exchanged
  ``X if not C else Y``          ->  ``Y if C else X``
* ``a > b`` / ``a >= b``         ->  ``b < a`` / ``b <= a``
* ``K == x`` (constant left)     ->  ``x == K``  (also != / is / is not);
  two non-constant operands of == / != are put in text order
* ``not (a <op> b)``             ->  the negated comparison
* ``pass`` next to other statements is dropped
* ``t = E`` directly followed by the one and only use of t, in a simple
  statement or an ``if`` test    ->  E substituted for t
* ``n = n + K`` / ``n = n - K`` (K an int literal)  ->  ``n += K`` / ``n -= K``

Positions (lineno) are kept; evaluation order inside one expression is not
modelled by any rule, so swapping comparison operands is harmless here."""

import ast

_SWAP = {ast.Gt: ast.Lt, ast.GtE: ast.LtE}
_SYM = (ast.Eq, ast.NotEq, ast.Is, ast.IsNot)
_NEG = {ast.Eq: ast.NotEq, ast.NotEq: ast.Eq, ast.Lt: ast.GtE, ast.LtE: ast.Gt,
        ast.Gt: ast.LtE, ast.GtE: ast.Lt, ast.Is: ast.IsNot, ast.IsNot: ast.Is,
        ast.In: ast.NotIn, ast.NotIn: ast.In}


def _is_const(e):
    return isinstance(e, ast.Constant) or (
        isinstance(e, ast.UnaryOp) and isinstance(e.operand, ast.Constant))


class _Canon(ast.NodeTransformer):
    def visit_Compare(self, node):
        self.generic_visit(node)
        if len(node.ops) != 1:
            return node
        op = type(node.ops[0])
        l, r = node.left, node.comparators[0]
        if op in _SWAP:
            node.left, node.comparators, node.ops = r, [l], [_SWAP[op]()]
        elif op in _SYM:
            if _is_const(l) and not _is_const(r):
                node.left, node.comparators = r, [l]
            elif not _is_const(l) and not _is_const(r) and op in (ast.Eq, ast.NotEq):
                if ast.unparse(r) < ast.unparse(l):
                    node.left, node.comparators = r, [l]
        return node

    def visit_UnaryOp(self, node):
        self.generic_visit(node)
        if isinstance(node.op, ast.Not) and isinstance(node.operand, ast.Compare) \
                and len(node.operand.ops) == 1 and type(node.operand.ops[0]) in _NEG:
            c = node.operand
            c.ops = [_NEG[type(c.ops[0])]()]
            return self.visit_Compare(ast.copy_location(c, node))
        if isinstance(node.op, ast.Not) and isinstance(node.operand, ast.UnaryOp) \
                and isinstance(node.operand.op, ast.Not):
            pass        # `not not x` is a bool() cast, keep
        return node

    def _positive(self, test):
        """(test', flipped): the positive spelling of a two-way test --
        `not C` -> C, `!=` -> `==`, `is not` -> `is`, `not in` -> `in`,
        `a <= b` -> `b < a` (all with the branches exchanged)."""
        if isinstance(test, ast.UnaryOp) and isinstance(test.op, ast.Not):
            return test.operand, True
        if isinstance(test, ast.Compare) and len(test.ops) == 1 and \
                type(test.ops[0]) in (ast.NotEq, ast.IsNot, ast.NotIn, ast.LtE):
            test.ops = [_NEG[type(test.ops[0])]()]
            return self.visit_Compare(test), True
        return test, False

    def visit_Assign(self, node):
        self.generic_visit(node)
        if len(node.targets) == 1 and isinstance(node.targets[0], ast.Name) and \
                isinstance(node.value, ast.BinOp) and \
                isinstance(node.value.op, (ast.Add, ast.Sub)):
            nm = node.targets[0].id
            l, r = node.value.left, node.value.right
            isint = lambda e: isinstance(e, ast.Constant) and type(e.value) is int
            if isinstance(l, ast.Name) and l.id == nm and isint(r):
                return ast.copy_location(ast.AugAssign(
                    target=ast.Name(id=nm, ctx=ast.Store()), op=node.value.op, value=r), node)
            if isinstance(r, ast.Name) and r.id == nm and isint(l) and \
                    isinstance(node.value.op, ast.Add):
                return ast.copy_location(ast.AugAssign(
                    target=ast.Name(id=nm, ctx=ast.Store()), op=node.value.op, value=l), node)
        return node

    def visit_If(self, node):
        self.generic_visit(node)
        if node.orelse:
            # (also for `elif` chains: `else: if ..` and `elif ..` are the
            # same tree, so the form must not depend on it)
            node.test, flipped = self._positive(node.test)
            if flipped:
                node.body, node.orelse = node.orelse, node.body
        return node

    def visit_IfExp(self, node):
        self.generic_visit(node)
        node.test, flipped = self._positive(node.test)
        if flipped:
            node.body, node.orelse = node.orelse, node.body
        return node


def _count_names(fn):
    out = {}
    for n in ast.walk(fn):
        if isinstance(n, ast.Name):
            out[n.id] = out.get(n.id, 0) + 1
        elif isinstance(n, (ast.Global, ast.Nonlocal)):
            for x in n.names:
                out[x] = out.get(x, 0) + 10
    return out


class _Subst(ast.NodeTransformer):
    def __init__(self, name, value):
        self.name, self.value, self.done = name, value, False

    def visit_Name(self, node):
        if node.id == self.name and isinstance(node.ctx, ast.Load) and not self.done:
            self.done = True
            return self.value
        return node

    def visit_If(self, node):
        # only the test of an `if`, never its body
        node.test = self.visit(node.test)
        return node


def _inline_return_temps(fn):
    counts = _count_names(fn)

    def block(stmts):
        out = []
        i = 0
        while i < len(stmts):
            st = stmts[i]
            nxt = stmts[i + 1] if i + 1 < len(stmts) else None
            if isinstance(st, ast.Assign) and len(st.targets) == 1 and \
                    isinstance(st.targets[0], ast.Name) and \
                    counts.get(st.targets[0].id, 0) == 2 and nxt is not None and \
                    not isinstance(st.value, (ast.Lambda, ast.Yield, ast.YieldFrom, ast.Await)):
                nm = st.targets[0].id
                # `t = E` directly followed by the only use of t, in a simple
                # statement or an `if` test: substitute E for t
                if isinstance(nxt, ast.If):
                    host = nxt.test
                elif isinstance(nxt, (ast.Return, ast.Expr, ast.Assign, ast.AugAssign)) \
                        and not isinstance(getattr(nxt, "value", None),
                                           (ast.Lambda,)):
                    host = nxt
                else:
                    host = None
                if host is not None:
                    uses = [n for n in ast.walk(host) if isinstance(n, ast.Name)
                            and n.id == nm and isinstance(n.ctx, ast.Load)]
                    inner = any(isinstance(n, (ast.Lambda, ast.ListComp, ast.SetComp,
                                               ast.DictComp, ast.GeneratorExp))
                                and any(isinstance(x, ast.Name) and x.id == nm
                                        for x in ast.walk(n))
                                for n in ast.walk(host))
                    if len(uses) == 1 and not inner:
                        _Subst(nm, st.value).visit(nxt if host is nxt else nxt)
                        if isinstance(nxt, ast.If) and host is nxt.test and \
                                isinstance(nxt.test, ast.Name) and nxt.test.id == nm:
                            nxt.test = st.value
                        i += 1
                        continue
            for fld in ("body", "orelse", "finalbody"):
                b = getattr(st, fld, None)
                if isinstance(b, list) and b and isinstance(b[0], ast.stmt) and \
                        not isinstance(st, (ast.FunctionDef, ast.AsyncFunctionDef,
                                            ast.ClassDef)):
                    setattr(st, fld, block(b))
            if isinstance(st, ast.Try):
                for h in st.handlers:
                    h.body = block(h.body)
            out.append(st)
            i += 1
        return out
    fn.body = block(fn.body)


def _drop_pass(tree):
    for n in ast.walk(tree):
        for fld in ("body", "orelse", "finalbody"):
            b = getattr(n, fld, None)
            if isinstance(b, list) and len(b) > 1 and any(isinstance(x, ast.Pass) for x in b):
                kept = [x for x in b if not isinstance(x, ast.Pass)]
                setattr(n, fld, kept or [b[0]])


def normalise(tree):
    _drop_pass(tree)
    for fn in [n for n in ast.walk(tree)
               if isinstance(n, (ast.FunctionDef, ast.AsyncFunctionDef))]:
        _inline_return_temps(fn)
    tree = _Canon().visit(tree)
    ast.fix_missing_locations(tree)
    return tree
