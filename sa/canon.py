"""Syntactic canonical form applied to every module right after parsing, so
that the rules see one spelling of constructs that have several
behaviourally identical ones (DESIGN.md section 5, must-stay-silent corpus):

* ``if not C: A else: B``        ->  ``if C: B else: A``;
  likewise a two-way test spelled ``!=`` / ``is not`` / ``not in`` / ``<=``
  becomes ``==`` / ``is`` / ``in`` / ``<`` with the branches exchanged
  ``X if not C else Y``          ->  ``Y if C else X``
* ``a > b`` / ``a >= b``         ->  ``b < a`` / ``b <= a``
* ``K == x`` (constant left)     ->  ``x == K``  (also != / is / is not);
  two non-constant operands of == / != are put in text order
* ``not (a <op> b)``             ->  the negated comparison
* tests of if / while / assert / conditional expressions are put in negation
  normal form (``not (a and b)`` -> ``not a or not b``, ``not not a`` -> ``a``)
* ``pass`` next to other statements is dropped
* ``if a:`` whose whole body is ``if b: S`` (no else on either)  ->  ``if a and b: S``
* ``t = A if C else B`` / ``t += ..`` / ``return ..`` with a conditional
  expression becomes the if / else statement
* ``t = <pure expression>`` (no calls; operands not rebound afterwards; t bound
  once) is propagated into every use and dropped
* ``t = E`` directly followed by the one and only use of t, in a simple
  statement or an ``if`` test    ->  E substituted for t
* ``n = n + K`` / ``n = n - K`` (K an int literal)  ->  ``n += K`` / ``n -= K``

Positions (lineno) are kept; evaluation order inside one expression is not
modelled by any rule, so swapping comparison operands is harmless here."""

import ast

_SWAP = {ast.Gt: ast.Lt, ast.GtE: ast.LtE}
_SYM = (ast.Eq, ast.NotEq, ast.Is, ast.IsNot)
_NEG = {ast.Eq: ast.NotEq, ast.NotEq: ast.Eq, ast.Lt: ast.GtE, ast.LtE: ast.Gt,
        ast.Gt: ast.LtE, ast.GtE: ast.Lt, ast.Is: ast.IsNot, ast.IsNot: ast.Is,
        ast.In: ast.NotIn, ast.NotIn: ast.In}


def _is_const(e):
    return isinstance(e, ast.Constant) or (
        isinstance(e, ast.UnaryOp) and isinstance(e.operand, ast.Constant))


class _Canon(ast.NodeTransformer):
    def visit_Compare(self, node):
        self.generic_visit(node)
        if len(node.ops) != 1:
            return node
        op = type(node.ops[0])
        l, r = node.left, node.comparators[0]
        if op in _SWAP:
            node.left, node.comparators, node.ops = r, [l], [_SWAP[op]()]
        elif op in _SYM:
            if _is_const(l) and not _is_const(r):
                node.left, node.comparators = r, [l]
            elif not _is_const(l) and not _is_const(r) and op in (ast.Eq, ast.NotEq):
                if ast.unparse(r) < ast.unparse(l):
                    node.left, node.comparators = r, [l]
        return node

    def visit_UnaryOp(self, node):
        self.generic_visit(node)
        if isinstance(node.op, ast.Not) and isinstance(node.operand, ast.Compare) \
                and len(node.operand.ops) == 1 and type(node.operand.ops[0]) in _NEG:
            c = node.operand
            c.ops = [_NEG[type(c.ops[0])]()]
            return self.visit_Compare(ast.copy_location(c, node))
        if isinstance(node.op, ast.Not) and isinstance(node.operand, ast.UnaryOp) \
                and isinstance(node.operand.op, ast.Not):
            pass        # `not not x` is a bool() cast, keep
        return node

    def _nnf(self, t):
        """Negation normal form of an expression in *test position* (where
        only its truth matters): `not (a and b)` -> `not a or not b`,
        `not not a` -> `a`, negated comparisons negated, nested and/or of
        the same kind flattened."""
        if isinstance(t, ast.UnaryOp) and isinstance(t.op, ast.Not):
            x = t.operand
            if isinstance(x, ast.UnaryOp) and isinstance(x.op, ast.Not):
                return self._nnf(x.operand)
            if isinstance(x, ast.BoolOp):
                dual = ast.Or() if isinstance(x.op, ast.And) else ast.And()
                vals = [self._nnf(ast.copy_location(
                    ast.UnaryOp(op=ast.Not(), operand=v), v)) for v in x.values]
                return self._flat(ast.copy_location(ast.BoolOp(op=dual, values=vals), t))
            if isinstance(x, ast.Compare) and len(x.ops) == 1 and type(x.ops[0]) in _NEG:
                x.ops = [_NEG[type(x.ops[0])]()]
                return self.visit_Compare(ast.copy_location(x, t))
            return t
        if isinstance(t, ast.BoolOp):
            t.values = [self._nnf(v) for v in t.values]
            return self._flat(t)
        return t

    @staticmethod
    def _flat(b):
        vals = []
        for v in b.values:
            if isinstance(v, ast.BoolOp) and type(v.op) is type(b.op):
                vals.extend(v.values)
            else:
                vals.append(v)
        b.values = vals
        return b

    def visit_While(self, node):
        self.generic_visit(node)
        node.test = self._nnf(node.test)
        return node

    def visit_Assert(self, node):
        self.generic_visit(node)
        node.test = self._nnf(node.test)
        return node

    def _positive(self, test):
        """(test', flipped): the positive spelling of a two-way test --
        `not C` -> C, `!=` -> `==`, `is not` -> `is`, `not in` -> `in`,
        `a <= b` -> `b < a` (all with the branches exchanged)."""
        if isinstance(test, ast.UnaryOp) and isinstance(test.op, ast.Not):
            return test.operand, True
        if isinstance(test, ast.Compare) and len(test.ops) == 1 and \
                type(test.ops[0]) in (ast.NotEq, ast.IsNot, ast.NotIn, ast.LtE):
            test.ops = [_NEG[type(test.ops[0])]()]
            return self.visit_Compare(test), True
        if isinstance(test, ast.BoolOp):
            # a disjunction of negative literals only is read as the negation
            # of the conjunction of the positive ones (branches exchanged)
            import copy as _copy
            comp = self._nnf(ast.copy_location(
                ast.UnaryOp(op=ast.Not(), operand=_copy.deepcopy(test)), test))
            if isinstance(comp, ast.BoolOp) and isinstance(test.op, ast.Or) and \
                    self._negs(test) == len(test.values) and self._negs(comp) == 0:
                # `not a or not b` is the De Morgan image of `a and b`
                return comp, True
        return test, False

    @staticmethod
    def _negs(b):
        n = 0
        for v in b.values:
            if isinstance(v, ast.UnaryOp) and isinstance(v.op, ast.Not):
                n += 1
            elif isinstance(v, ast.Compare) and len(v.ops) == 1 and \
                    type(v.ops[0]) in (ast.NotEq, ast.IsNot, ast.NotIn):
                n += 1
        return n

    def visit_Assign(self, node):
        self.generic_visit(node)
        if len(node.targets) == 1 and isinstance(node.targets[0], ast.Name) and \
                isinstance(node.value, ast.BinOp) and \
                isinstance(node.value.op, (ast.Add, ast.Sub)):
            nm = node.targets[0].id
            l, r = node.value.left, node.value.right
            isint = lambda e: isinstance(e, ast.Constant) and type(e.value) is int
            if isinstance(l, ast.Name) and l.id == nm and isint(r):
                return ast.copy_location(ast.AugAssign(
                    target=ast.Name(id=nm, ctx=ast.Store()), op=node.value.op, value=r), node)
            if isinstance(r, ast.Name) and r.id == nm and isint(l) and \
                    isinstance(node.value.op, ast.Add):
                return ast.copy_location(ast.AugAssign(
                    target=ast.Name(id=nm, ctx=ast.Store()), op=node.value.op, value=l), node)
        return node

    def visit_If(self, node):
        self.generic_visit(node)
        node.test = self._nnf(node.test)
        if node.orelse:
            # (also for `elif` chains: `else: if ..` and `elif ..` are the
            # same tree, so the form must not depend on it)
            node.test, flipped = self._positive(node.test)
            if flipped:
                node.body, node.orelse = node.orelse, node.body
        return node

    def visit_IfExp(self, node):
        self.generic_visit(node)
        node.test = self._nnf(node.test)
        node.test, flipped = self._positive(node.test)
        if flipped:
            node.body, node.orelse = node.orelse, node.body
        return node


def _count_names(fn):
    out = {}
    for n in ast.walk(fn):
        if isinstance(n, ast.Name):
            out[n.id] = out.get(n.id, 0) + 1
        elif isinstance(n, (ast.Global, ast.Nonlocal)):
            for x in n.names:
                out[x] = out.get(x, 0) + 10
    return out


class _Subst(ast.NodeTransformer):
    def __init__(self, name, value):
        self.name, self.value, self.done = name, value, False

    def visit_Name(self, node):
        if node.id == self.name and isinstance(node.ctx, ast.Load) and not self.done:
            self.done = True
            return self.value
        return node

    def visit_If(self, node):
        # only the test of an `if`, never its body
        node.test = self.visit(node.test)
        return node


def _inline_return_temps(fn):
    counts = _count_names(fn)

    def block(stmts):
        out = []
        i = 0
        while i < len(stmts):
            st = stmts[i]
            nxt = stmts[i + 1] if i + 1 < len(stmts) else None
            if isinstance(st, ast.Assign) and len(st.targets) == 1 and \
                    isinstance(st.targets[0], ast.Name) and \
                    counts.get(st.targets[0].id, 0) == 2 and nxt is not None and \
                    not isinstance(st.value, (ast.Lambda, ast.Yield, ast.YieldFrom, ast.Await)):
                nm = st.targets[0].id
                # `t = E` directly followed by the only use of t, in a simple
                # statement or an `if` test: substitute E for t
                if isinstance(nxt, ast.If):
                    host = nxt.test
                elif isinstance(nxt, (ast.Return, ast.Expr, ast.Assign, ast.AugAssign)) \
                        and not isinstance(getattr(nxt, "value", None),
                                           (ast.Lambda,)):
                    host = nxt
                else:
                    host = None
                if host is not None:
                    uses = [n for n in ast.walk(host) if isinstance(n, ast.Name)
                            and n.id == nm and isinstance(n.ctx, ast.Load)]
                    inner = any(isinstance(n, (ast.Lambda, ast.ListComp, ast.SetComp,
                                               ast.DictComp, ast.GeneratorExp))
                                and any(isinstance(x, ast.Name) and x.id == nm
                                        for x in ast.walk(n))
                                for n in ast.walk(host))
                    if len(uses) == 1 and not inner:
                        _Subst(nm, st.value).visit(nxt if host is nxt else nxt)
                        if isinstance(nxt, ast.If) and host is nxt.test and \
                                isinstance(nxt.test, ast.Name) and nxt.test.id == nm:
                            nxt.test = st.value
                        i += 1
                        continue
            for fld in ("body", "orelse", "finalbody"):
                b = getattr(st, fld, None)
                if isinstance(b, list) and b and isinstance(b[0], ast.stmt) and \
                        not isinstance(st, (ast.FunctionDef, ast.AsyncFunctionDef,
                                            ast.ClassDef)):
                    setattr(st, fld, block(b))
            if isinstance(st, ast.Try):
                for h in st.handlers:
                    h.body = block(h.body)
            out.append(st)
            i += 1
        return out
    fn.body = block(fn.body)


def _drop_pass(tree):
    for n in ast.walk(tree):
        for fld in ("body", "orelse", "finalbody"):
            b = getattr(n, fld, None)
            if isinstance(b, list) and len(b) > 1 and any(isinstance(x, ast.Pass) for x in b):
                kept = [x for x in b if not isinstance(x, ast.Pass)]
                setattr(n, fld, kept or [b[0]])


def _pure(e, okattrs, oksubs=frozenset()):
    """Expression without calls, subscripts stores, comprehensions: names,
    constants, attribute reads of never-stored `self.x`, arithmetic,
    comparisons, boolean operators, conditional expressions."""
    for n in ast.walk(e):
        if isinstance(n, ast.Subscript):
            # element / slice of a parameter that is never rebound or mutated
            if not (isinstance(n.value, ast.Name) and n.value.id in oksubs and
                    all(isinstance(x, (ast.Slice, ast.UnaryOp, ast.Load, ast.USub)) or
                        (isinstance(x, ast.Constant) and type(x.value) is int)
                        for x in ast.walk(n.slice))):
                return False
            continue
        if isinstance(n, ast.Call):
            # total functions of their arguments' identity / immutable state
            if not (isinstance(n.func, ast.Name) and n.func.id in ("isinstance", "type", "id")
                    and not n.keywords):
                return False
            continue
        if isinstance(n, (ast.Lambda, ast.ListComp, ast.SetComp, ast.DictComp,
                          ast.GeneratorExp, ast.Yield, ast.YieldFrom, ast.Await,
                          ast.NamedExpr, ast.Starred, ast.List,
                          ast.Dict, ast.Set, ast.Tuple, ast.JoinedStr)):
            return False
        if isinstance(n, ast.Attribute):
            if not (isinstance(n.value, ast.Name) and (n.value.id, n.attr) in okattrs):
                return False
    return True


def _propagate_pure_temps(fn):
    """`t = <pure expression>` with t bound exactly once, whose operands are
    not rebound afterwards (they are parameters, loop targets of enclosing
    loops, or bound only earlier in the text): every use of t is replaced by
    the expression and the assignment is dropped.  Covers the 'introduce a
    temporary' refactoring for values used several times (`ticking =
    is_collecting and tick`, `pos = i + j`)."""
    own = []            # nodes of fn's own scope
    stack = list(fn.body)
    while stack:
        n = stack.pop()
        own.append(n)
        for ch in ast.iter_child_nodes(n):
            if isinstance(ch, (ast.FunctionDef, ast.AsyncFunctionDef, ast.ClassDef,
                               ast.Lambda)):
                continue
            stack.append(ch)
    # nested scopes that read our locals make renaming unsafe to skip: collect
    nested_names = set()
    for n in ast.walk(fn):
        if n is not fn and isinstance(n, (ast.FunctionDef, ast.AsyncFunctionDef,
                                          ast.ClassDef, ast.Lambda)):
            nested_names |= {x.id for x in ast.walk(n) if isinstance(x, ast.Name)}
    stores = {}
    for n in own:
        if isinstance(n, ast.Name) and isinstance(n.ctx, (ast.Store, ast.Del)):
            stores.setdefault(n.id, []).append(n)
    attr_stores = set()
    for n in own:
        if isinstance(n, ast.Attribute) and isinstance(n.ctx, (ast.Store, ast.Del)) \
                and isinstance(n.value, ast.Name):
            attr_stores.add((n.value.id, n.attr))
    params = {a.arg for a in fn.args.posonlyargs + fn.args.args + fn.args.kwonlyargs}
    okattrs = set()
    for n in own:
        if isinstance(n, ast.Attribute) and isinstance(n.value, ast.Name) and \
                n.value.id in params and n.value.id not in stores and \
                (n.value.id, n.attr) not in attr_stores and \
                fn.args.args and n.value.id == fn.args.args[0].arg:
            okattrs.add((n.value.id, n.attr))
    # method calls may change self.x behind our back: only keep okattrs when
    # the function calls nothing on that object ... too strict; accept reads of
    # attributes that look like configuration (never stored anywhere in class)
    # parameters that are never rebound, never subscripted-stored and on which
    # no method is called: their elements are stable within the call
    allp = set(params)
    if fn.args.vararg:
        allp.add(fn.args.vararg.arg)
    touched = set()
    for n in own:
        if isinstance(n, ast.Subscript) and isinstance(n.ctx, (ast.Store, ast.Del)) \
                and isinstance(n.value, ast.Name):
            touched.add(n.value.id)
        if isinstance(n, ast.Call) and isinstance(n.func, ast.Attribute) and \
                isinstance(n.func.value, ast.Name):
            touched.add(n.func.value.id)
        if isinstance(n, ast.AugAssign) and isinstance(n.target, ast.Name):
            touched.add(n.target.id)
    oksubs = frozenset(x for x in allp if x not in stores and x not in touched)
    loops = [n for n in own if isinstance(n, (ast.For, ast.While))]

    def enclosing_loops(node):
        return [lp for lp in loops if any(x is node for x in ast.walk(lp))]
    # textual order of the function's own nodes (depth first, fields in source
    # order): line numbers do not order statements that came from an inlined
    # helper
    order = {}

    def number(node):
        order[id(node)] = len(order)
        for ch in ast.iter_child_nodes(node):
            number(ch)
    # the value of an assignment is evaluated before its target is bound
    for st_ in fn.body:
        number(st_)

    def pos(x):
        return order.get(id(x), 0)
    changed = False
    for n in list(own):
        if not (isinstance(n, ast.Assign) and len(n.targets) == 1 and
                isinstance(n.targets[0], ast.Name)):
            continue
        t = n.targets[0].id
        if len(stores.get(t, [])) != 1 or t in params or t in nested_names:
            continue
        if isinstance(n.value, (ast.Constant, ast.Name)) and not isinstance(n.value, ast.Name):
            continue        # constants are flags / initial values, keep them
        if not isinstance(n.value, (ast.BoolOp, ast.Compare, ast.UnaryOp, ast.BinOp,
                                    ast.IfExp, ast.Subscript, ast.Call)):
            continue
        if not _pure(n.value, set(), oksubs):
            continue
        encl = enclosing_loops(n)
        ok = True
        for x in ast.walk(n.value):
            if isinstance(x, ast.Name):
                for st in stores.get(x.id, []):
                    is_target = any(isinstance(lp, ast.For) and
                                    any(y is st for y in ast.walk(lp.target))
                                    for lp in encl)
                    # a binding earlier in the text is executed before this
                    # definition in every iteration that reaches the uses
                    if not is_target and not pos(st) < pos(n):
                        ok = False
        if not ok:
            continue
        uses = [x for x in own if isinstance(x, ast.Name) and x.id == t
                and isinstance(x.ctx, ast.Load)]
        if not uses or any(pos(u) < pos(n) for u in uses):
            continue
        # uses must lie in the same block or deeper (dominated): approximate by
        # requiring the definition's block to contain them
        par = None
        for p_ in own + [fn]:
            for fld in ("body", "orelse", "finalbody"):
                b = getattr(p_, fld, None)
                if isinstance(b, list) and n in b:
                    par = b
        if par is None:
            continue
        after = par[par.index(n) + 1:]
        inside = {id(x) for st in after for x in ast.walk(st)}
        if not all(id(u) in inside for u in uses):
            continue
        import copy as _copy
        for st in after:
            _SubstAll(t, n.value).visit(st)
        par.remove(n)
        changed = True
    return changed


class _SubstAll(ast.NodeTransformer):
    def __init__(self, name, value):
        self.name, self.value = name, value

    def visit_Name(self, node):
        if node.id == self.name and isinstance(node.ctx, ast.Load):
            import copy as _copy
            return ast.copy_location(_copy.deepcopy(self.value), node)
        return node

    def visit_FunctionDef(self, node):
        return node

    visit_Lambda = visit_FunctionDef
    visit_ClassDef = visit_FunctionDef


def _expand_ifexp(tree):
    """`t = A if C else B` -> `if C: t = A else: t = B` (also for augmented
    assignments and returns): the statement form and the expression form of a
    two-way choice become one."""
    import copy as _copy

    def conv(st):
        v = getattr(st, "value", None)
        if isinstance(st, (ast.Assign, ast.AugAssign, ast.Return)) and isinstance(v, ast.IfExp) \
                and not (isinstance(st, ast.Assign) and
                         not all(isinstance(t, (ast.Name, ast.Attribute, ast.Subscript))
                                 for t in st.targets)):
            a, b = _copy.deepcopy(st), _copy.deepcopy(st)
            a.value, b.value = v.body, v.orelse
            new = ast.If(test=v.test, body=conv(a), orelse=conv(b))
            return [ast.copy_location(new, st)]
        return [st]

    def rec(node):
        for fld in ("body", "orelse", "finalbody"):
            b = getattr(node, fld, None)
            if isinstance(b, list) and b and isinstance(b[0], ast.stmt):
                out = []
                for st in b:
                    rec(st)
                    out.extend(conv(st))
                setattr(node, fld, out)
        if isinstance(node, ast.Try):
            for h in node.handlers:
                rec(h)
    rec(tree)


def _merge_nested_ifs(tree):
    """`if a:` whose whole body is `if b: S` (neither has an else)  ->
    `if a and b: S`."""
    changed = True
    while changed:
        changed = False
        for n in ast.walk(tree):
            if isinstance(n, ast.If) and not n.orelse and len(n.body) == 1 and \
                    isinstance(n.body[0], ast.If) and not n.body[0].orelse:
                inner = n.body[0]
                vals = []
                for t in (n.test, inner.test):
                    if isinstance(t, ast.BoolOp) and isinstance(t.op, ast.And):
                        vals.extend(t.values)
                    else:
                        vals.append(t)
                n.test = ast.copy_location(ast.BoolOp(op=ast.And(), values=vals), n.test)
                n.body = inner.body
                changed = True


_OPERATOR = {"add": ast.Add, "sub": ast.Sub, "mul": ast.Mult, "truediv": ast.Div,
             "floordiv": ast.FloorDiv, "mod": ast.Mod, "pow": ast.Pow,
             "lshift": ast.LShift, "rshift": ast.RShift, "and_": ast.BitAnd,
             "or_": ast.BitOr, "xor": ast.BitXor, "matmul": ast.MatMult}
_OPERATOR_CMP = {"eq": ast.Eq, "ne": ast.NotEq, "lt": ast.Lt, "le": ast.LtE,
                 "gt": ast.Gt, "ge": ast.GtE, "is_": ast.Is, "is_not": ast.IsNot}


def _operator_module_calls(tree):
    """`operator.add(a, b)` is `a + b`, `operator.lt(a, b)` is `a < b`, and
    `x = operator.iadd(x, b)` is `x += b` (the library's own definition),
    where `operator` is the standard module imported under that name and
    never re-bound in the file."""
    imported = any(isinstance(n, ast.Import) and any(
        a.name == "operator" and a.asname in (None, "operator") for a in n.names)
        for n in tree.body)
    rebound = any(isinstance(n, ast.Name) and n.id == "operator" and
                  isinstance(n.ctx, (ast.Store, ast.Del)) for n in ast.walk(tree)) or \
        any(isinstance(n, ast.arg) and n.arg == "operator" for n in ast.walk(tree))
    if not imported or rebound:
        return

    def opname(c):
        if isinstance(c, ast.Call) and isinstance(c.func, ast.Attribute) and \
                isinstance(c.func.value, ast.Name) and c.func.value.id == "operator" \
                and len(c.args) == 2 and not c.keywords and \
                not any(isinstance(a, ast.Starred) for a in c.args):
            return c.func.attr
        return None

    class T(ast.NodeTransformer):
        def visit_Assign(self, n):
            self.generic_visit(n)
            nm = opname(n.value)
            if nm and nm.startswith("i") and nm[1:] in _OPERATOR and len(n.targets) == 1 \
                    and isinstance(n.targets[0], (ast.Name, ast.Attribute, ast.Subscript)) \
                    and ast.dump(n.targets[0]).replace("Store()", "Load()") == \
                    ast.dump(n.value.args[0]):
                new = ast.AugAssign(target=n.targets[0], op=_OPERATOR[nm[1:]](),
                                    value=n.value.args[1])
                return ast.copy_location(new, n)
            return n

        def visit_Call(self, n):
            self.generic_visit(n)
            nm = opname(n)
            if nm in _OPERATOR:
                return ast.copy_location(
                    ast.BinOp(left=n.args[0], op=_OPERATOR[nm](), right=n.args[1]), n)
            if nm in _OPERATOR_CMP:
                return ast.copy_location(
                    ast.Compare(left=n.args[0], ops=[_OPERATOR_CMP[nm]()],
                                comparators=[n.args[1]]), n)
            return n
    T().visit(tree)


def _unroll_literal_loops(tree):
    """`for v in ('a', 'b'): <body>` is the body once per literal, with the
    literal for v -- a short statement table written as a loop.  Only for a
    plain variable over a tuple / list of at most 6 constants, a body of
    simple statements (no break / continue, no nested definitions, v not
    re-bound) and v unused outside the loop."""
    from .symcase import clone

    def eligible(st, fn):
        if not (isinstance(st, ast.For) and not st.orelse and isinstance(st.target, ast.Name)
                and isinstance(st.iter, (ast.Tuple, ast.List)) and 1 <= len(st.iter.elts) <= 6
                and all(isinstance(e, ast.Constant) for e in st.iter.elts)
                and len(st.body) <= 6):
            return False
        v = st.target.id
        for b in st.body:
            for n in ast.walk(b):
                if isinstance(n, (ast.Break, ast.Continue, ast.FunctionDef, ast.ClassDef,
                                  ast.Lambda, ast.Yield, ast.YieldFrom, ast.For, ast.While,
                                  ast.ListComp, ast.GeneratorExp, ast.SetComp, ast.DictComp)):
                    return False
                if isinstance(n, ast.Name) and n.id == v and not isinstance(n.ctx, ast.Load):
                    return False
        inside = sum(1 for n in ast.walk(st) if isinstance(n, ast.Name) and n.id == v)
        total = sum(1 for n in ast.walk(fn) if isinstance(n, ast.Name) and n.id == v)
        return inside == total

    def unroll(st):
        v = st.target.id
        out = []
        for e in st.iter.elts:
            class S(ast.NodeTransformer):
                def visit_Name(self, n):
                    if n.id == v and isinstance(n.ctx, ast.Load):
                        return ast.copy_location(ast.Constant(value=e.value), n)
                    return n
            for b in st.body:
                out.append(S().visit(clone(b)))
        return out

    def block(stmts, fn):
        i = 0
        while i < len(stmts):
            st = stmts[i]
            if isinstance(st, (ast.FunctionDef, ast.AsyncFunctionDef)):
                block(st.body, st)
            elif isinstance(st, ast.ClassDef):
                block(st.body, fn)
            else:
                if fn is not None and eligible(st, fn):
                    rep = unroll(st)
                    stmts[i:i + 1] = rep
                    i += len(rep)
                    continue
                for fld in ("body", "orelse", "finalbody"):
                    sub = getattr(st, fld, None)
                    if isinstance(sub, list) and sub and isinstance(sub[0], ast.stmt):
                        block(sub, fn)
                for h in getattr(st, "handlers", []) or []:
                    block(h.body, fn)
            i += 1
    block(tree.body, None)


def normalise(tree):
    _drop_pass(tree)
    _operator_module_calls(tree)
    _unroll_literal_loops(tree)
    _expand_ifexp(tree)
    _merge_nested_ifs(tree)
    for fn in [n for n in ast.walk(tree)
               if isinstance(n, (ast.FunctionDef, ast.AsyncFunctionDef))]:
        for _ in range(4):
            if not _propagate_pure_temps(fn):
                break
    for fn in [n for n in ast.walk(tree)
               if isinstance(n, (ast.FunctionDef, ast.AsyncFunctionDef))]:
        _inline_return_temps(fn)
    tree = _Canon().visit(tree)
    ast.fix_missing_locations(tree)
    return tree
