"""Case-wise symbolic reading of small straight-line functions.

`run(ctx, func, decide)` walks the statements of `func` along every path,
with the tests `decide` can settle taken one way only (a *case*, e.g. "the
operand is a box"), and local temporaries replaced by what they hold.  What
comes out, per path, is

  * the returned expression (temporaries and one-expression helpers
    substituted: the value as a term over parameters and attributes), and
  * the stores to attributes (`self.x = E`, `self.x OP= E`) in order.

A rule then states what the term must be in each case -- and is indifferent
to how the function spells it: if/else or conditional expression, early
return or single exit, a temporary more or less, a private helper that does
the case split (the helper is read under the same case).

This is no execution and no solver: expressions stay syntax, tests are
either decided by the case or forked, loops / try / with make the path
`opaque` (the rule then reports that it cannot follow the function).
"""

import ast

from .model import text

MAX_PATHS = 256


class Outcome:
    def __init__(self):
        self.env = {}           # local name -> expression (already substituted)
        self.stores = []        # (target text, op type | None, value expr, stmt)
        self.ret = None         # returned expression (substituted) or None
        self.ret_stmt = None
        self.returned = False
        self.opaque = None      # statement the walk could not follow
        self.conds = []         # undecided tests taken (expr text, polarity)

    def fork(self):
        o = Outcome()
        o.env = dict(self.env)
        o.stores = list(self.stores)
        o.ret, o.ret_stmt, o.returned = self.ret, self.ret_stmt, self.returned
        o.opaque = self.opaque
        o.conds = list(self.conds)
        return o


def clone(n):
    """Structural copy of an AST (fields and positions only: the model's
    parent links and caches hanging off the nodes are not followed)."""
    if isinstance(n, list):
        return [clone(x) for x in n]
    if not isinstance(n, ast.AST):
        return n
    new = type(n)()
    for f, v in ast.iter_fields(n):
        setattr(new, f, clone(v))
    for a in ("lineno", "col_offset", "end_lineno", "end_col_offset"):
        if hasattr(n, a):
            setattr(new, a, getattr(n, a))
    if hasattr(n, "_orig"):
        new._orig = n._orig
    return new


def norm(e):
    return text(e).replace(" ", "") if e is not None else ""


class _Subst(ast.NodeTransformer):
    def __init__(self, ev, func, env):
        self.ev, self.func, self.env = ev, func, env

    def visit_Name(self, n):
        if isinstance(n.ctx, ast.Load) and n.id in self.env:
            return clone(self.env[n.id])
        return n

    def visit_Lambda(self, n):
        return n

    def visit_IfExp(self, n):
        test = self.visit(clone(n.test))
        d = self.ev.decide(test)
        if d is True:
            return self.visit(n.body)
        if d is False:
            return self.visit(n.orelse)
        return self.generic_visit(n)

    def visit_Call(self, n):
        inl = self.ev.inline_call(self.func, n, self.env)
        if inl is not None:
            return inl
        return self.generic_visit(n)


class Evaluator:
    def __init__(self, ctx, decide, depth=3):
        self.ctx, self.decide, self.depth = ctx, decide, depth

    # -- expressions -------------------------------------------------------
    def subst(self, func, expr, env):
        if expr is None:
            return None
        new = _Subst(self, func, env).visit(clone(_keep(expr)))
        return new

    def inline_call(self, func, call, env):
        """A call of a repo function that is a pure case split (only
        if / assignment / return, every path returns, no stores): the
        returned term, read under the same case; None otherwise."""
        if self.depth <= 0:
            return None
        ref = getattr(call, "_orig", None)
        orig = ref.n if ref is not None else call
        try:
            tg = self.ctx.ty.resolve(func, orig)
        except Exception:
            return None
        funcs = [h for h in (getattr(tg, "funcs", None) or []) if h.node is not None]
        if len(funcs) != 1:
            return None
        h = funcs[0]
        if h is func:
            return None
        if h.vararg or h.kwarg or h.is_generator:
            return None
        params = list(h.params)
        args = [self.subst(func, a, env) for a in call.args]
        if any(isinstance(a, ast.Starred) for a in call.args):
            return None
        bind = {}
        if h.kind in ("method", "class") and isinstance(call.func, ast.Attribute):
            recv = self.subst(func, call.func.value, env)
            # `Cls.meth(obj, ..)` passes the receiver explicitly
            if not (isinstance(call.func.value, ast.Name) and
                    self.ctx.prog.class_by_name.get(call.func.value.id)):
                bind[params[0]] = recv
                params = params[1:]
            elif h.kind == "class":
                params = params[1:]
        if len(args) > len(params):
            return None
        for p, a in zip(params, args):
            bind[p] = a
        for k in call.keywords:
            if k.arg is None or k.arg not in params or k.arg in bind:
                return None
            bind[k.arg] = self.subst(func, k.value, env)
        for p in params:
            if p not in bind:
                if p in h.defaults:
                    bind[p] = clone(h.defaults[p])
                else:
                    return None
        if not _pure_shape(h.body):
            return None
        if not any(isinstance(b, ast.If) for b in h.body):
            return None     # a plain getter stays the call it is
        sub = Evaluator(self.ctx, self.decide, self.depth - 1)
        outs = sub.walk(h, h.body, bind)
        if not outs or any(o.opaque or o.stores or not o.returned or o.ret is None
                           for o in outs):
            return None
        terms = {norm(o.ret) for o in outs}
        if len(terms) != 1:
            return None
        res = outs[0].ret
        for n in ast.walk(res):
            ast.copy_location(n, call)
        return res

    # -- statements --------------------------------------------------------
    def run(self, func, bind=None):
        return self.walk(func, func.body, bind or {})

    def walk(self, func, stmts, env):
        start = Outcome()
        start.env = dict(env)
        return self._block(func, list(stmts), [start])

    def _block(self, func, stmts, outs):
        for st in stmts:
            live = [o for o in outs if not o.returned and not o.opaque]
            done = [o for o in outs if o.returned or o.opaque]
            if not live:
                return outs
            nxt = []
            for o in live:
                nxt.extend(self._stmt(func, st, o))
            outs = done + nxt
            if len(outs) > MAX_PATHS:
                for o in outs:
                    o.opaque = o.opaque or st
                return outs
        return outs

    def _stmt(self, func, st, o):
        if isinstance(st, ast.Expr):
            if isinstance(st.value, ast.Constant):
                return [o]
            self._effects_of_expr(func, st.value, o, st)
            return [o]
        if isinstance(st, ast.Pass) or isinstance(st, (ast.Import, ast.ImportFrom,
                                                       ast.Global, ast.Nonlocal)):
            return [o]
        if isinstance(st, ast.Assert):
            return [o]
        if isinstance(st, ast.Return):
            o.ret = self.subst(func, st.value, o.env) if st.value is not None else None
            o.ret_stmt = st
            o.returned = True
            return [o]
        if isinstance(st, ast.Raise):
            o.returned = True
            o.ret = None
            o.ret_stmt = st
            return [o]
        if isinstance(st, (ast.Assign, ast.AnnAssign)):
            if isinstance(st, ast.AnnAssign):
                if st.value is None:
                    return [o]
                targets = [st.target]
            else:
                targets = st.targets
            val = self.subst(func, st.value, o.env)
            for t in targets:
                self._bind(func, t, val, None, st, o)
            return [o]
        if isinstance(st, ast.AugAssign):
            val = self.subst(func, st.value, o.env)
            self._bind(func, st.target, val, type(st.op), st, o)
            return [o]
        if isinstance(st, ast.If):
            test = self.subst(func, st.test, o.env)
            d = simplify(test, self.decide)     # and / or / not over decided atoms
            if d is True:
                return self._block(func, st.body, [o])
            if d is False:
                return self._block(func, st.orelse, [o])
            a, b = o, o.fork()
            a.conds.append((norm(test), True))
            b.conds.append((norm(test), False))
            return self._block(func, st.body, [a]) + self._block(func, st.orelse, [b])
        if isinstance(st, (ast.FunctionDef, ast.ClassDef)):
            o.env.pop(st.name, None)
            return [o]
        # loops, try, with, match, delete ...: not followed
        o.opaque = st
        return [o]

    def _bind(self, func, target, val, op, st, o):
        if isinstance(target, ast.Name):
            if op is None:
                # a temporary that mentions itself cannot be substituted
                if any(isinstance(n, ast.Name) and n.id == target.id
                       for n in ast.walk(val)):
                    o.env.pop(target.id, None)
                    self._forget(o, target.id)
                else:
                    self._forget(o, target.id)
                    o.env[target.id] = val
            else:
                old = o.env.get(target.id)
                self._forget(o, target.id)
                if old is not None:
                    o.env[target.id] = ast.BinOp(left=clone(old), op=op(),
                                                 right=val)
                else:
                    o.env.pop(target.id, None)
            return
        if isinstance(target, (ast.Tuple, ast.List)):
            for el in target.elts:
                for n in ast.walk(el):
                    if isinstance(n, ast.Name):
                        o.env.pop(n.id, None)
                        self._forget(o, n.id)
                    elif isinstance(n, (ast.Attribute, ast.Subscript)):
                        o.stores.append((norm(self.subst(func, n, o.env)), None, None, st))
            return
        # attribute / subscript store
        tt = norm(self.subst(func, target, o.env))
        o.stores.append((tt, op, val, st))
        # temporaries holding a term that reads the stored place are stale now
        for k in [k for k, v in o.env.items() if tt and tt in norm(v)]:
            del o.env[k]

    def _forget(self, o, name):
        """Drop temporaries whose term mentions the re-bound name."""
        for k in [k for k, v in o.env.items() if k != name and any(
                isinstance(n, ast.Name) and n.id == name for n in ast.walk(v))]:
            del o.env[k]

    def _effects_of_expr(self, func, e, o, st):
        # a bare call may mutate anything it is handed; temporaries survive
        # (they hold terms, not objects), nothing else is recorded
        return


class _Ref:
    """Reference to an original node that survives deepcopy."""
    def __init__(self, n):
        self.n = n

    def __deepcopy__(self, memo):
        return self


def _keep(expr):
    """Remember original nodes of calls (type resolution is keyed on them)."""
    for n in ast.walk(expr):
        if isinstance(n, ast.Call) and not hasattr(n, "_orig"):
            n._orig = _Ref(n)
    return expr


def _pure_shape(stmts):
    for st in stmts:
        if isinstance(st, ast.Expr) and isinstance(st.value, ast.Constant):
            continue
        if isinstance(st, (ast.Return, ast.Pass, ast.Assert)):
            continue
        if isinstance(st, ast.Assign) and all(isinstance(t, ast.Name) for t in st.targets):
            continue
        if isinstance(st, ast.If) and _pure_shape(st.body) and _pure_shape(st.orelse):
            continue
        return False
    return True


def isinstance_decider(name, classes, value):
    """decide(): `isinstance(<name>, K)` with K in `classes` is `value`."""
    def decide(test):
        if isinstance(test, ast.UnaryOp) and isinstance(test.op, ast.Not):
            d = decide(test.operand)
            return None if d is None else (not d)
        if isinstance(test, ast.Call) and text(test.func) == "isinstance" and \
                len(test.args) == 2 and norm(test.args[0]) == name:
            k = norm(test.args[1])
            if k in classes:
                return value
        return None
    return decide


def simplify(test, decide):
    """A test under a case: True / False when the case settles it, else the
    test with the settled operands of and / or / not removed."""
    d = decide(test)
    if d is not None:
        return d
    if isinstance(test, ast.UnaryOp) and isinstance(test.op, ast.Not):
        r = simplify(test.operand, decide)
        if isinstance(r, bool):
            return not r
        if r is test.operand:
            return test
        return ast.copy_location(ast.UnaryOp(op=ast.Not(), operand=r), test)
    if isinstance(test, ast.BoolOp):
        is_and = isinstance(test.op, ast.And)
        keep = []
        changed = False
        for v in test.values:
            r = simplify(v, decide)
            if isinstance(r, bool):
                changed = True
                if r != is_and:         # False in an `and`, True in an `or`
                    return r
                continue
            changed = changed or r is not v
            keep.append(r)
        if not keep:
            return is_and
        if not changed:
            return test
        if len(keep) == 1:
            return keep[0]
        return ast.copy_location(ast.BoolOp(op=test.op, values=keep), test)
    return test


def specialise(stmts, decide):
    """The statements of a block under a case: every `if` the case decides
    is replaced by the branch taken, what follows a return / raise of the
    taken branch is dropped.  Undecided statements are kept as they are
    (the original nodes, so positions and parent links stay valid)."""
    out = []
    for st in stmts:
        if isinstance(st, ast.If):
            d = simplify(st.test, decide)
            if not isinstance(d, bool):
                if d is st.test:
                    out.append(st)
                else:
                    # partly settled: the same branches under the reduced test
                    # (a fresh `if`; the statements inside are the originals)
                    new = ast.If(test=d, body=specialise(st.body, decide),
                                 orelse=specialise(st.orelse, decide))
                    new._orig_if = st
                    out.append(ast.copy_location(new, st))
                continue
            sub = specialise(st.body if d else st.orelse, decide)
            out.extend(sub)
            if sub and isinstance(sub[-1], (ast.Return, ast.Raise)):
                return out
        else:
            out.append(st)
            if isinstance(st, (ast.Return, ast.Raise)):
                return out
    return out


# -- a function under a case ---------------------------------------------------

def _clone_keep(n):
    """clone() that keeps the model's links to nested functions/classes."""
    if isinstance(n, list):
        return [_clone_keep(x) for x in n]
    if not isinstance(n, ast.AST):
        return n
    new = type(n)()
    for f, v in ast.iter_fields(n):
        setattr(new, f, _clone_keep(v))
    for a in ("lineno", "col_offset", "end_lineno", "end_col_offset"):
        if hasattr(n, a):
            setattr(new, a, getattr(n, a))
    for a in ("_orig", "_func", "_class"):
        if hasattr(n, a):
            setattr(new, a, getattr(n, a))
    return new


def _deep_spec(stmts, decide):
    out = []
    for st in stmts:
        if isinstance(st, ast.If):
            d = simplify(st.test, decide)
            if isinstance(d, bool):
                sub = _deep_spec(st.body if d else st.orelse, decide)
                out.extend(sub)
                if sub and isinstance(sub[-1], (ast.Return, ast.Raise, ast.Continue, ast.Break)):
                    return out
                continue
            st.test = d
            st.body = _deep_spec(st.body, decide) or [ast.copy_location(ast.Pass(), st)]
            st.orelse = _deep_spec(st.orelse, decide)
            out.append(st)
            continue
        if isinstance(st, (ast.FunctionDef, ast.AsyncFunctionDef, ast.ClassDef)):
            out.append(st)
            continue
        for fld in ("body", "orelse", "finalbody"):
            sub = getattr(st, fld, None)
            if isinstance(sub, list) and sub and isinstance(sub[0], ast.stmt):
                new = _deep_spec(sub, decide)
                if fld == "body" and isinstance(st, (ast.For, ast.While)) and new and \
                        isinstance(new[-1], ast.Continue):
                    new = new[:-1]      # ending the round at its end says nothing
                setattr(st, fld, new or ([ast.copy_location(ast.Pass(), st)]
                                         if fld == "body" else []))
        for h in getattr(st, "handlers", []) or []:
            h.body = _deep_spec(h.body, decide) or [ast.copy_location(ast.Pass(), h)]
        out.append(st)
        if isinstance(st, (ast.Return, ast.Raise, ast.Continue, ast.Break)):
            return out
    return out


_VIEWS = {}


def case_view(f, decide, tag):
    """The function `f` as it reads under a case: a copy of its definition
    in which every `if` the case settles (at any depth, loops included) is
    replaced by the branch taken.  The copy is a function of the model in its
    own right (own flow graph, own reaching definitions), so a rule written
    for one loop reads an unswitched pair of loops one case at a time.
    `tag` names the case (views are cached per function and tag)."""
    from .model import Func, own_nodes
    k = (id(f), tag)
    if k in _VIEWS:
        return _VIEWS[k]
    node = _clone_keep(f.node)
    node.body = _deep_spec(node.body, decide) or [ast.copy_location(ast.Pass(), node)]

    class _Cond(ast.NodeTransformer):
        """conditional expressions the case settles"""
        def visit_IfExp(self, n):
            self.generic_visit(n)
            d = simplify(n.test, decide)
            if isinstance(d, bool):
                return n.body if d else n.orelse
            n.test = d
            return n
    node = _Cond().visit(node)
    for n in ast.walk(node):
        for ch in ast.iter_child_nodes(n):
            ch._parent = n
    node._parent = getattr(f.node, "_parent", None)
    v = Func(f.name, f.qual, f.module, node, f.cls, f.outer)
    for a in ("kind", "self_type", "inner_funcs", "inner_classes", "lambdas"):
        setattr(v, a, getattr(f, a))
    v.is_generator = any(isinstance(n, (ast.Yield, ast.YieldFrom)) for n in own_nodes(v))
    v._case_of = f
    v._case = tag
    _VIEWS[k] = v
    return v


def names_decider(values):
    """decide() for a case given as {variable name: truth value}."""
    def decide(test):
        if isinstance(test, ast.Name) and test.id in values:
            return values[test.id]
        return None
    return decide

