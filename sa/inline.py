"""Inline expansion of small private helpers, applied to our private copy of
each module right after parsing (before sa/canon.py).

Extracting a private helper out of duplicated code -- or folding one back --
does not change what a function does; it only changes *where* the statements
an obligation talks about are written.  The rules read functions, so the
model puts the statements back where the work happens: a call of a private
helper of the same module (``_name``; module-level function, or method /
static method / class method of the caller's own class) is replaced by the
helper's body with the parameters replaced by the arguments, when the helper

* is not one the rules know by name (every identifier ``_xyz`` that occurs in
  the sources of sa/ is *reserved*: those are anchors, they stay calls),
* takes plain positional/keyword parameters, is not a generator, is not
  recursive, defines no nested function or class, and
* is of one of two shapes:
    block   -- any statements, with at most one ``return``, as the last
               top-level statement; used where the call is a whole statement
               (``x = h(..)``, ``a, b = h(..)``, ``h(..)``, ``return h(..)``);
    choice  -- guard clauses ``if c: return A`` ... ``return Z`` (optionally
               after simple assignments); read as the conditional expression
               ``A if c else ... Z``; where it consists of returns only it is
               substituted at any expression position (arguments must then be
               side-effect free or used once).

Locals of the helper are renamed away from the caller's names; a local that
is returned as such takes the name of the variable the caller binds it to.
The helper itself stays in the tree (it is still analysed as a function).
Nothing here runs code; when a call does not fit, it is left alone.
"""

import ast
import os
import re

MAX_STMTS = 40
_RESERVED = None


def reserved_names():
    """Identifiers `_xyz` mentioned anywhere in the sources of sa/ (rules
    anchor on them by name)."""
    global _RESERVED
    if _RESERVED is None:
        names = set()
        here = os.path.dirname(os.path.abspath(__file__))
        for root, _dirs, files in os.walk(here):
            for fn in files:
                if fn.endswith(".py") and fn != "variant_defs.py":
                    try:
                        with open(os.path.join(root, fn), encoding="utf-8") as fh:
                            names |= set(re.findall(r"(?<![A-Za-z0-9_])(_[A-Za-z][A-Za-z0-9_]*)",
                                                    fh.read()))
                    except OSError:
                        pass
        _RESERVED = names
    return _RESERVED


_WORDS = None


def reserved_words():
    """Identifiers the sources of sa/ may anchor on (for helpers local to a
    function or to a function-local class, whose names carry no leading
    underscore): every name token of the code, every identifier inside a
    string literal without blanks, and from prose strings (messages) only
    the words that look like program identifiers (an underscore, a digit or
    an inner capital) -- plain English words of a message reserve nothing."""
    global _WORDS
    if _WORDS is None:
        import io
        import tokenize
        words = set()
        here = os.path.dirname(os.path.abspath(__file__))
        ident = re.compile(r"[A-Za-z_][A-Za-z0-9_]*")
        for root, _dirs, files in os.walk(here):
            for fn in files:
                if not fn.endswith(".py") or fn in ("variant_defs.py", "inline.py"):
                    continue
                try:
                    with open(os.path.join(root, fn), encoding="utf-8") as fh:
                        src = fh.read()
                except OSError:
                    continue
                try:
                    toks = list(tokenize.generate_tokens(io.StringIO(src).readline))
                except (tokenize.TokenError, IndentationError, SyntaxError):
                    words |= set(ident.findall(src))
                    continue
                for t in toks:
                    if t.type == tokenize.NAME:
                        words.add(t.string)
                    elif t.type == tokenize.STRING or t.type == getattr(tokenize, "FSTRING_MIDDLE", -1):
                        body = t.string
                        if not re.search(r"\s", body.strip("rbfuRBFU").strip("'\"")):
                            words |= set(ident.findall(body))
                        else:
                            for w in ident.findall(body):
                                if "_" in w.strip("_") or re.search(r"[0-9]|[a-z][A-Z]", w):
                                    words.add(w)
        _WORDS = words
    return _WORDS


def clone(n):
    if isinstance(n, list):
        return [clone(x) for x in n]
    if not isinstance(n, ast.AST):
        return n
    new = type(n)()
    for f, v in ast.iter_fields(n):
        setattr(new, f, clone(v))
    for a in ("lineno", "col_offset", "end_lineno", "end_col_offset"):
        if hasattr(n, a):
            setattr(new, a, getattr(n, a))
    return new


def _strip_doc(body):
    if body and isinstance(body[0], ast.Expr) and isinstance(body[0].value, ast.Constant) \
            and isinstance(body[0].value.value, str):
        return body[1:]
    return body


def _simple(e):
    if isinstance(e, (ast.Name, ast.Constant)):
        return True
    if isinstance(e, ast.Attribute):
        return _simple(e.value)
    if isinstance(e, ast.Subscript):
        return _simple(e.value) and _simple(e.slice)
    if isinstance(e, ast.Tuple):
        return all(_simple(x) for x in e.elts)
    if isinstance(e, ast.UnaryOp) and isinstance(e.op, ast.USub):
        return isinstance(e.operand, ast.Constant)
    return False


def _names(node):
    return {n.id for n in ast.walk(node) if isinstance(n, ast.Name)}


def _fold(node):
    """`(a, b)[0]` -> `a` (a parameter replaced by a literal tuple)."""
    class F(ast.NodeTransformer):
        def visit_Subscript(self, n):
            self.generic_visit(n)
            if isinstance(n.value, (ast.Tuple, ast.List)) and \
                    isinstance(n.slice, ast.Constant) and isinstance(n.slice.value, int) \
                    and not isinstance(n.ctx, ast.Store) \
                    and -len(n.value.elts) <= n.slice.value < len(n.value.elts) and \
                    not any(isinstance(x, ast.Starred) for x in n.value.elts):
                return n.value.elts[n.slice.value]
            return n
    return F().visit(node)


def _has_return(st):
    return any(isinstance(x, ast.Return) for x in ast.walk(st))


def _always_returns(blk):
    if not blk:
        return False
    last = blk[-1]
    if isinstance(last, ast.Return):
        return True
    if isinstance(last, ast.If) and last.orelse:
        return _always_returns(last.body) and _always_returns(last.orelse)
    return False


def _nest(stmts):
    """Single-exit form of a block with early returns: what follows an `if`
    one of whose branches always returns becomes the other branch.  Returns
    are then all in tail position.  None when a return sits in a loop / with
    or both branches of an `if` can fall through (the rest would have to be
    duplicated)."""
    out = []
    for i, st in enumerate(stmts):
        if isinstance(st, ast.Return):
            out.append(st)
            return out
        if isinstance(st, ast.If) and _has_return(st):
            rest = list(stmts[i + 1:])
            b_ret, e_ret = _always_returns(st.body), _always_returns(st.orelse)
            if b_ret and e_ret:
                nb, ne = _nest(st.body), _nest(st.orelse)
            elif b_ret:
                nb, ne = _nest(st.body), _nest(list(st.orelse) + rest)
            elif e_ret:
                nb, ne = _nest(list(st.body) + rest), _nest(st.orelse)
            else:
                return None
            if nb is None or ne is None:
                return None
            new = ast.If(test=st.test, body=nb, orelse=ne)
            out.append(ast.copy_location(new, st))
            return out
        if _has_return(st):
            return None
        out.append(st)
    return out


class Helper:
    def __init__(self, fn, kind):
        self.fn = fn
        self.kind = kind                    # function | method | static | class
        self.params = [a.arg for a in fn.args.args]
        self.defaults = {}
        pos = fn.args.args
        for p, d in zip(pos[len(pos) - len(fn.args.defaults):], fn.args.defaults):
            self.defaults[p.arg] = d
        self.body = _strip_doc(fn.body)
        self.shape = None                   # block | choice | nested
        self.assigns = []                   # leading simple assignments (choice)
        self.ret = None                     # block: returned expr or None
        self.nested = False
        self.vararg = self.kwarg = None
        self.vararg_tuple = False
        self.classify()
        self.finish_classify()

    def classify(self):
        fn = self.fn
        a = fn.args
        if a.kwonlyargs or a.posonlyargs:
            return
        # *args / **kwargs only where they are passed straight on
        self.vararg = a.vararg.arg if a.vararg else None
        self.kwarg = a.kwarg.arg if a.kwarg else None
        for nm in (self.vararg, self.kwarg):
            if nm is None:
                continue
            ok_uses = set()
            for c in ast.walk(fn):
                if isinstance(c, ast.Call):
                    for x in c.args:
                        if isinstance(x, ast.Starred) and isinstance(x.value, ast.Name) \
                                and x.value.id == nm == self.vararg:
                            ok_uses.add(id(x.value))
                    for k in c.keywords:
                        if k.arg is None and isinstance(k.value, ast.Name) and \
                                k.value.id == nm == self.kwarg:
                            ok_uses.add(id(k.value))
            for x in ast.walk(fn):
                if isinstance(x, ast.Name) and x.id == nm and id(x) not in ok_uses:
                    # *args that is only read (iterated, indexed, measured) is
                    # the tuple of the extra arguments of the call
                    if nm == self.vararg and isinstance(x.ctx, ast.Load) and not any(
                            isinstance(y, ast.Lambda) for y in ast.walk(fn)):
                        self.vararg_tuple = True
                        continue
                    return
        if not self.body or len(list(ast.walk(fn))) > 600:
            return
        n_stmts = sum(isinstance(x, ast.stmt) for x in ast.walk(fn)) - 1
        if n_stmts > MAX_STMTS:
            return
        for x in ast.walk(fn):
            if x is fn:
                continue
            if isinstance(x, (ast.Yield, ast.YieldFrom, ast.Await, ast.Global, ast.Nonlocal,
                              ast.FunctionDef, ast.AsyncFunctionDef, ast.ClassDef)):
                return
            if isinstance(x, ast.Call):
                f = x.func
                if isinstance(f, ast.Name) and f.id == fn.name:
                    return
                if isinstance(f, ast.Attribute) and f.attr == fn.name:
                    return
        rets = [x for x in ast.walk(fn) if isinstance(x, ast.Return)]
        self.nested = False
        if not rets or (len(rets) == 1 and rets[0] is self.body[-1]):
            self.shape = "block"
            self.ret = rets[0].value if rets else None
            return
        # a `try` is spliced as it stands only where no return leaves it
        if any(isinstance(x, ast.Try) for x in ast.walk(fn)):
            return
        if _nest(self.body) is not None:
            self.nested = True
        # choice: [simple assigns] ; if c: return A [else: return B] ... ; return Z
        i = 0
        while i < len(self.body) and isinstance(self.body[i], ast.Assign) and \
                len(self.body[i].targets) == 1 and isinstance(self.body[i].targets[0], ast.Name):
            i += 1
        rest = self.body[i:]
        if not rest or not isinstance(rest[-1], ast.Return) or rest[-1].value is None:
            return
        for st in rest[:-1]:
            if not (isinstance(st, ast.If) and len(st.body) == 1 and
                    isinstance(st.body[0], ast.Return) and st.body[0].value is not None and
                    (not st.orelse or (len(st.orelse) == 1 and
                                       isinstance(st.orelse[0], ast.Return) and
                                       st.orelse[0].value is not None))):
                return
        # an if/else of returns ends the chain
        for st in rest[:-1]:
            if st.orelse and st is not rest[-2]:
                return
        self.shape = "choice"
        self.assigns = self.body[:i]
        self.rest = rest

    def finish_classify(self):
        if self.shape is None and self.nested:
            self.shape = "nested"

    def choice_expr(self):
        """The guard-clause chain as one conditional expression."""
        e = self.rest[-1].value
        for st in reversed(self.rest[:-1]):
            other = st.orelse[0].value if st.orelse else e
            e = ast.IfExp(test=st.test, body=st.body[0].value, orelse=other)
            ast.copy_location(e, st)
        return e


class _Rename(ast.NodeTransformer):
    def __init__(self, mapping, subst, splice=None):
        self.mapping, self.subst = mapping, subst
        self.splice = splice        # (vararg, extra positional, kwarg, extra keywords)

    def visit_Call(self, n):
        if self.splice:
            va, pos, kw, kws = self.splice
            args = []
            for x in n.args:
                if va and isinstance(x, ast.Starred) and isinstance(x.value, ast.Name) \
                        and x.value.id == va:
                    args += [clone(e) for e in pos]
                else:
                    args.append(x)
            keys = []
            for k in n.keywords:
                if kw and k.arg is None and isinstance(k.value, ast.Name) and k.value.id == kw:
                    keys += [clone(e) for e in kws]
                else:
                    keys.append(k)
            n.args, n.keywords = args, keys
        return self.generic_visit(n)

    def visit_Name(self, n):
        if n.id in self.subst and isinstance(n.ctx, ast.Load):
            return clone(self.subst[n.id])
        if n.id in self.mapping:
            new = ast.Name(id=self.mapping[n.id], ctx=n.ctx)
            return ast.copy_location(new, n)
        return n

    def visit_arg(self, n):
        return n

    def visit_Lambda(self, n):
        shadow = {a.arg for a in n.args.args + n.args.kwonlyargs}
        inner = _Rename({k: v for k, v in self.mapping.items() if k not in shadow},
                        {k: v for k, v in self.subst.items() if k not in shadow},
                        self.splice)
        n.body = inner.visit(n.body)
        return n


class Inliner:
    def __init__(self, tree):
        self.tree = tree
        self.reserved = reserved_names()
        self.mod_helpers = {}
        self.cls_helpers = {}
        self.counter = 0
        self.done = []
        self.local_cache = {}
        self.local_done = []        # (enclosing FunctionDef, helper FunctionDef)
        self.cls_by_node = {}
        top = set(map(id, tree.body))
        for n in ast.walk(tree):
            if isinstance(n, ast.FunctionDef) and id(n) in top:
                self._register(self.mod_helpers, n, "function")
            elif isinstance(n, ast.ClassDef):
                # classes written inside functions (the iterator classes of
                # the operators) have private methods too
                d = self.cls_by_node.setdefault(id(n), {})
                if id(n) in top:
                    self.cls_helpers[n.name] = d
                for m in n.body:
                    if isinstance(m, ast.FunctionDef):
                        decs = [ast.unparse(x) for x in m.decorator_list]
                        kind = "static" if decs == ["staticmethod"] else \
                            "class" if decs == ["classmethod"] else \
                            "method" if not decs else None
                        if kind:
                            # a class written inside a function cannot be named
                            # from outside: all its plain methods are its own
                            self._register(d, m, kind, local=id(n) not in top)

    def _register(self, table, fn, kind, local=False):
        nm = fn.name
        if (not nm.startswith("_") and not local) or \
                (nm.startswith("__") and nm.endswith("__")):
            return
        if nm in self.reserved or (not nm.startswith("_") and nm in reserved_words()):
            return
        if kind == "function" and fn.decorator_list:
            return
        h = Helper(fn, kind)
        if h.shape:
            table[nm] = h

    # -- resolution ---------------------------------------------------------
    def resolve(self, call, stack):
        """(Helper, receiver expr or None) for a call, given the stack of
        enclosing (ClassDef | FunctionDef) nodes, or None."""
        f = call.func
        if isinstance(f, ast.Name):
            # a helper defined locally in an enclosing function (closure)
            for s in reversed(stack):
                if isinstance(s, ast.FunctionDef):
                    for st in s.body:
                        if isinstance(st, ast.FunctionDef) and st.name == f.id:
                            if stack[-1] is st or f.id in reserved_words() or st.decorator_list:
                                return None
                            if id(st) not in self.local_cache:
                                self.local_cache[id(st)] = Helper(st, "function")
                            h = self.local_cache[id(st)]
                            if not h.shape:
                                return None
                            # free variables of the helper must mean the same at
                            # the call site: no intermediate scope rebinding them
                            return h, ("local", s)
                    if f.id in {a.arg for a in s.args.args}:
                        return None
            h = self.mod_helpers.get(f.id)
            if h is None:
                return None
            for s in stack:
                if isinstance(s, ast.FunctionDef) and (
                        f.id in {a.arg for a in s.args.args} or
                        any(isinstance(x, ast.Name) and x.id == f.id and
                            isinstance(x.ctx, ast.Store) for x in ast.walk(s))):
                    return None
            if stack and stack[-1] is h.fn:
                return None
            return h, None
        if isinstance(f, ast.Attribute) and isinstance(f.value, ast.Name):
            X = f.value.id
            if X in self.cls_helpers and f.attr in self.cls_helpers[X]:
                h = self.cls_helpers[X][f.attr]
                if h.kind in ("static", "class"):
                    return h, f.value
                return None
            # self.h(..): innermost function whose first parameter is X must be
            # a method written directly in the class that has h
            for i in range(len(stack) - 1, -1, -1):
                s = stack[i]
                if isinstance(s, ast.FunctionDef) and s.args.args and s.args.args[0].arg == X:
                    if i > 0 and isinstance(stack[i - 1], ast.ClassDef):
                        h = self.cls_by_node.get(id(stack[i - 1]), {}).get(f.attr)
                        decs = [ast.unparse(x) for x in s.decorator_list]
                        if h is not None and h.fn is not s and (
                                (h.kind == "method" and not decs) or
                                (h.kind in ("class", "static") and decs == ["classmethod"]) or
                                (h.kind == "static" and not decs)):
                            return h, f.value
                    return None
        return None

    def bind(self, h, call, recv):
        """{param: arg expr} or None."""
        self.extra = ([], [])
        params = list(h.params)
        bind = {}
        if isinstance(recv, tuple):
            recv = None
        npos = len(params) - (1 if h.kind in ("method", "class") else 0)
        if any(isinstance(a, ast.Starred) for a in call.args[:npos]):
            return None
        if not (h.vararg or h.kwarg):
            if any(isinstance(a, ast.Starred) for a in call.args) or \
                    any(k.arg is None for k in call.keywords):
                return None
        if h.kind in ("method", "class"):
            if recv is None or not params:
                return None
            bind[params[0]] = recv
            params = params[1:]
        extra_pos = list(call.args[len(params):])
        if extra_pos and not h.vararg:
            return None
        for p, a in zip(params, call.args):
            bind[p] = a
        extra_kw = []
        for k in call.keywords:
            if k.arg is None or k.arg not in params:
                if not h.kwarg:
                    return None
                extra_kw.append(k)
                continue
            if k.arg in bind:
                return None
            bind[k.arg] = k.value
        self.extra = (extra_pos, extra_kw)
        if h.vararg and h.vararg_tuple:
            if any(isinstance(a, ast.Starred) for a in extra_pos):
                return None
            tup = ast.Tuple(elts=list(extra_pos), ctx=ast.Load())
            bind[h.vararg] = ast.fix_missing_locations(ast.copy_location(tup, call))
        for p in params:
            if p not in bind:
                d = h.defaults.get(p)
                if d is None or not _simple(d):
                    return None
                bind[p] = d
        return bind

    # -- expansion ------------------------------------------------------------
    def fresh(self, base, taken):
        if base not in taken:
            return base
        while True:
            self.counter += 1
            nm = "%s_i%d" % (base, self.counter)
            if nm not in taken:
                return nm

    def expand_stmt(self, st, h, call, recv, caller):
        """Replacement statements for `st` (whose value is `call`), or None."""
        bind = self.bind(h, call, recv)
        if bind is None:
            return None
        if h.shape == "nested":
            return self.expand_nested(st, h, call, recv, caller, bind)
        body = h.body
        ret = h.ret
        if h.shape == "choice":
            body = h.assigns
            ret = h.choice_expr()
        stored = {n.id for b in h.body for n in ast.walk(b)
                  if isinstance(n, ast.Name) and isinstance(n.ctx, ast.Store)}
        taken = _names(caller) | {a.arg for a in caller.args.args} | \
            {n for a in bind.values() for n in _names(a)}
        pre = []
        subst = {}
        mapping = {}
        for p, a in bind.items():
            uses = sum(1 for b in h.body for n in ast.walk(b)
                       if isinstance(n, ast.Name) and n.id == p and isinstance(n.ctx, ast.Load))
            if p not in stored and (_simple(a) or uses <= 1):
                subst[p] = a
            else:
                nm = self.fresh(p, taken)
                taken.add(nm)
                mapping[p] = nm
                asg = ast.Assign(targets=[ast.Name(id=nm, ctx=ast.Store())], value=clone(a))
                pre.append(ast.copy_location(asg, st))
        locals_ = stored - set(bind)
        # a local that is returned as such takes the caller's name for it
        direct = {}
        is_yield = isinstance(st, ast.Expr) and isinstance(st.value, ast.Yield)
        tgt = st.targets[0] if isinstance(st, ast.Assign) and len(st.targets) == 1 else None
        pairs = []
        if ret is not None and tgt is not None:
            if isinstance(tgt, ast.Name) and isinstance(ret, ast.Name):
                pairs = [(tgt, ret)]
            elif isinstance(tgt, ast.Tuple) and isinstance(ret, ast.Tuple) and \
                    len(tgt.elts) == len(ret.elts) and \
                    all(isinstance(t, ast.Name) for t in tgt.elts):
                pairs = [(t, r) for t, r in zip(tgt.elts, ret.elts) if isinstance(r, ast.Name)]
        argnames = {n for a in bind.values() for n in _names(a)}
        for t, r in pairs:
            if r.id in locals_ and r.id not in direct and t.id not in argnames and \
                    t.id not in direct.values() and \
                    (t.id == r.id or t.id not in _names(h.fn)):
                direct[r.id] = t.id
        for L in sorted(locals_):
            if L in direct:
                mapping[L] = direct[L]
            else:
                nm = self.fresh(L, taken)
                taken.add(nm)
                mapping[L] = nm
        rn = _Rename(mapping, subst, (h.vararg, self.extra[0], h.kwarg, self.extra[1]))
        out = list(pre)
        for b in body:
            if b is h.body[-1] and isinstance(b, ast.Return):
                continue
            out.append(ast.fix_missing_locations(rn.visit(clone(b))))
        rexpr = rn.visit(clone(ret)) if ret is not None else None
        if is_yield:
            y = ast.Yield(value=rexpr if rexpr is not None else ast.Constant(value=None))
            out.append(ast.copy_location(ast.Expr(value=ast.copy_location(y, st.value)), st))
        elif isinstance(st, ast.Expr):
            if rexpr is not None and not _simple(rexpr):
                out.append(ast.copy_location(ast.Expr(value=rexpr), st))
        elif isinstance(st, ast.Return):
            out.append(ast.copy_location(
                ast.Return(value=rexpr if rexpr is not None else ast.Constant(value=None)), st))
        else:
            if rexpr is None:
                rexpr = ast.Constant(value=None)
            if isinstance(tgt, ast.Tuple) and isinstance(rexpr, ast.Tuple) and \
                    len(tgt.elts) == len(rexpr.elts) and \
                    all(isinstance(t, ast.Name) for t in tgt.elts):
                tnames = [t.id for t in tgt.elts]
                items = [(t, r) for t, r in zip(tgt.elts, rexpr.elts)
                         if not (isinstance(r, ast.Name) and r.id == t.id)]
                # split only when no later element reads an earlier target
                ok = True
                for i, (t, r) in enumerate(items):
                    for t2, r2 in items[i + 1:]:
                        if t.id in _names(r2) and not (isinstance(r2, ast.Name)):
                            ok = ok and (t.id in direct.values())
                if ok:
                    for t, r in items:
                        asg = ast.Assign(targets=[ast.Name(id=t.id, ctx=ast.Store())], value=r)
                        out.append(ast.copy_location(asg, st))
                else:
                    out.append(ast.copy_location(
                        ast.Assign(targets=[clone(tgt)], value=rexpr), st))
            elif isinstance(tgt, ast.Name) and isinstance(rexpr, ast.Name) and rexpr.id == tgt.id:
                pass
            else:
                out.append(ast.copy_location(
                    ast.Assign(targets=clone(st.targets), value=rexpr), st))
        if not out:
            out.append(ast.copy_location(ast.Pass(), st))
        out = [_fold(o) for o in out]
        for o in out:
            ast.fix_missing_locations(o)
        if isinstance(recv, tuple):
            self.local_done.append((recv[1], h.fn))
        self.done.append(h.fn.name)
        return out

    def _final(self, st, rexpr):
        """Statements that do with the helper's result what `st` did with
        the call."""
        out = []
        tgt = st.targets[0] if isinstance(st, ast.Assign) and len(st.targets) == 1 else None
        if isinstance(st, ast.Expr) and isinstance(st.value, ast.Yield):
            y = ast.Yield(value=rexpr if rexpr is not None else ast.Constant(value=None))
            out.append(ast.copy_location(ast.Expr(value=ast.copy_location(y, st.value)), st))
        elif isinstance(st, ast.Expr):
            if rexpr is not None and not _simple(rexpr):
                out.append(ast.copy_location(ast.Expr(value=rexpr), st))
        elif isinstance(st, ast.Return):
            out.append(ast.copy_location(
                ast.Return(value=rexpr if rexpr is not None else ast.Constant(value=None)), st))
        else:
            if rexpr is None:
                rexpr = ast.Constant(value=None)
            if isinstance(tgt, ast.Tuple) and isinstance(rexpr, ast.Tuple) and \
                    len(tgt.elts) == len(rexpr.elts) and \
                    all(isinstance(t, ast.Name) for t in tgt.elts):
                items = [(t, r) for t, r in zip(tgt.elts, rexpr.elts)
                         if not (isinstance(r, ast.Name) and r.id == t.id)]
                tn = [t.id for t, _r in items]
                safe = all(not (set(tn[:i]) & _names(r)) for i, (_t, r) in enumerate(items))
                if safe:
                    for t, r in items:
                        asg = ast.Assign(targets=[ast.Name(id=t.id, ctx=ast.Store())], value=r)
                        out.append(ast.copy_location(asg, st))
                else:
                    out.append(ast.copy_location(
                        ast.Assign(targets=[clone(tgt)], value=rexpr), st))
            elif isinstance(tgt, ast.Name) and isinstance(rexpr, ast.Name) and rexpr.id == tgt.id:
                pass
            else:
                out.append(ast.copy_location(
                    ast.Assign(targets=clone(st.targets), value=rexpr), st))
        return out

    def expand_nested(self, st, h, call, recv, caller, bind):
        """A helper with early returns, in single-exit form: every tail
        `return e` becomes what the call site does with e."""
        nested = _nest(h.body)
        if nested is None:
            return None
        rets = [x for x in ast.walk(h.fn) if isinstance(x, ast.Return)]
        stored = {n.id for b in h.body for n in ast.walk(b)
                  if isinstance(n, ast.Name) and isinstance(n.ctx, ast.Store)}
        taken = _names(caller) | {a.arg for a in caller.args.args} | \
            {n for a in bind.values() for n in _names(a)}
        tgt = st.targets[0] if isinstance(st, ast.Assign) and len(st.targets) == 1 else None
        pre, subst, mapping = [], {}, {}
        for p, a in bind.items():
            uses = sum(1 for b in h.body for n in ast.walk(b)
                       if isinstance(n, ast.Name) and n.id == p and isinstance(n.ctx, ast.Load))
            if p not in stored and (_simple(a) or uses <= 1):
                subst[p] = a
                continue
            # a parameter the helper updates and hands back to the very
            # variable it came from is that variable
            direct = False
            if isinstance(a, ast.Name) and tgt is not None and rets:
                def pos_ok(r):
                    v = r.value
                    if isinstance(tgt, ast.Name):
                        return isinstance(v, ast.Name) and v.id == p and tgt.id == a.id
                    if isinstance(tgt, ast.Tuple) and isinstance(v, ast.Tuple) and \
                            len(v.elts) == len(tgt.elts):
                        ks = [k for k, t in enumerate(tgt.elts)
                              if isinstance(t, ast.Name) and t.id == a.id]
                        return len(ks) == 1 and isinstance(v.elts[ks[0]], ast.Name) and \
                            v.elts[ks[0]].id == p and \
                            sum(isinstance(e, ast.Name) and e.id == p for e in v.elts) >= 1
                    return False
                direct = all(pos_ok(r) for r in rets) and \
                    sum(1 for b in bind.values() if a.id in _names(b)) == 1
            if direct:
                mapping[p] = a.id
            else:
                nm = self.fresh(p, taken)
                taken.add(nm)
                mapping[p] = nm
                asg = ast.Assign(targets=[ast.Name(id=nm, ctx=ast.Store())], value=clone(a))
                pre.append(ast.copy_location(asg, st))
        for L in sorted(stored - set(bind)):
            nm = self.fresh(L, taken)
            taken.add(nm)
            mapping[L] = nm
        rn = _Rename(mapping, subst, (h.vararg, self.extra[0], h.kwarg, self.extra[1]))

        def finish(blk):
            blk = list(blk)
            if blk and isinstance(blk[-1], ast.Return):
                r = blk.pop()
                rexpr = rn.visit(clone(r.value)) if r.value is not None else None
                return blk + self._final(st, rexpr)
            if blk and isinstance(blk[-1], ast.If) and _has_return(blk[-1]):
                last = blk.pop()
                new = ast.If(test=last.test, body=finish(last.body) or
                             [ast.copy_location(ast.Pass(), last)],
                             orelse=finish(last.orelse))
                return blk + [ast.copy_location(new, last)]
            return blk + self._final(st, None)

        def conv(blk):
            """Clone + rename the non-return statements, keep Returns (and the
            ifs that hold them) as structure for finish()."""
            out = []
            for b in blk:
                if isinstance(b, ast.Return):
                    out.append(b)
                elif isinstance(b, ast.If) and _has_return(b):
                    new = ast.If(test=rn.visit(clone(b.test)), body=conv(b.body),
                                 orelse=conv(b.orelse))
                    out.append(ast.copy_location(new, b))
                else:
                    out.append(rn.visit(clone(b)))
            return out
        out = pre + finish(conv(nested))
        if not out:
            out.append(ast.copy_location(ast.Pass(), st))
        out = [_fold(o) for o in out]
        for o in out:
            ast.fix_missing_locations(o)
        if isinstance(recv, tuple):
            self.local_done.append((recv[1], h.fn))
        self.done.append(h.fn.name)
        return out

    def expand_expr(self, call, h, recv):
        """Replacement expression for a nested call of a returns-only choice /
        one-expression helper, or None."""
        if h.shape == "nested":
            return None
        if h.shape == "choice" and h.assigns:
            return None
        if h.shape == "block" and not (len(h.body) == 1 and h.ret is not None):
            return None
        bind = self.bind(h, call, recv)
        if bind is None:
            return None
        e = h.choice_expr() if h.shape == "choice" else h.ret
        for p, a in bind.items():
            uses = sum(1 for n in ast.walk(e) if isinstance(n, ast.Name) and n.id == p)
            if not (_simple(a) or uses <= 1):
                return None
        if any(isinstance(n, (ast.Lambda, ast.ListComp, ast.GeneratorExp, ast.SetComp,
                              ast.DictComp, ast.NamedExpr)) for n in ast.walk(e)):
            return None
        new = _Rename({}, bind, (h.vararg, self.extra[0], h.kwarg, self.extra[1])).visit(clone(e))
        for n in ast.walk(new):
            if not hasattr(n, "lineno"):
                ast.copy_location(n, call)
        if isinstance(recv, tuple):
            self.local_done.append((recv[1], h.fn))
        self.done.append(h.fn.name)
        return ast.fix_missing_locations(new)

    # -- traversal ----------------------------------------------------------------
    def run(self):
        for _ in range(3):
            before = len(self.done)
            self._block(self.tree.body, [])
            if len(self.done) == before:
                break
        return self.tree

    def _block(self, stmts, stack):
        i = 0
        while i < len(stmts):
            st = stmts[i]
            caller = next((s for s in reversed(stack) if isinstance(s, ast.FunctionDef)), None)
            rep = None
            the_call = getattr(st, "value", None)
            if isinstance(st, ast.Expr) and isinstance(the_call, ast.Yield):
                the_call = the_call.value
            if caller is not None and isinstance(st, (ast.Assign, ast.Expr, ast.Return)) and \
                    isinstance(the_call, ast.Call) and \
                    not (isinstance(st, ast.Assign) and len(st.targets) != 1):
                r = self.resolve(the_call, stack)
                if r is not None and r[0].fn is not caller:
                    rep = self.expand_stmt(st, r[0], the_call, r[1], caller)
            if rep is not None:
                stmts[i:i + 1] = rep
                i += len(rep)
                continue
            if caller is not None:
                self._exprs(st, stack)
            if isinstance(st, (ast.FunctionDef, ast.ClassDef)):
                self._block(st.body, stack + [st])
            else:
                for fld in ("body", "orelse", "finalbody"):
                    sub = getattr(st, fld, None)
                    if isinstance(sub, list) and sub and isinstance(sub[0], ast.stmt):
                        self._block(sub, stack)
                for hd in getattr(st, "handlers", []) or []:
                    self._block(hd.body, stack)
            i += 1

    def _exprs(self, st, stack):
        """Expression-level substitution inside the header / value of `st`
        (not inside nested statements, which _block visits itself)."""
        me = self

        class V(ast.NodeTransformer):
            def visit_Call(self, n):
                self.generic_visit(n)
                # map(h, xs) with a one-expression helper: (h(x) for x in xs)
                if isinstance(n.func, ast.Name) and n.func.id == "map" and \
                        len(n.args) == 2 and not n.keywords and \
                        isinstance(n.args[0], (ast.Name, ast.Attribute)):
                    fake = ast.Call(func=n.args[0], args=[], keywords=[])
                    r0 = me.resolve(fake, stack)
                    if r0 is not None:
                        h0 = r0[0]
                        npar = len(h0.params) - (1 if h0.kind in ("method", "class") else 0)
                        if npar == 1:
                            var = me.fresh(h0.params[-1], set())
                            me.counter += 1
                            var = "%s_m%d" % (var, me.counter)
                            fake.args = [ast.Name(id=var, ctx=ast.Load())]
                            ast.copy_location(fake, n)
                            ast.fix_missing_locations(fake)
                            new = me.expand_expr(fake, h0, r0[1])
                            if new is not None:
                                ge = ast.GeneratorExp(
                                    elt=new, generators=[ast.comprehension(
                                        target=ast.Name(id=var, ctx=ast.Store()),
                                        iter=n.args[1], ifs=[], is_async=0)])
                                return ast.fix_missing_locations(ast.copy_location(ge, n))
                r = me.resolve(n, stack)
                if r is not None:
                    new = me.expand_expr(n, r[0], r[1])
                    if new is not None:
                        return new
                return n

            def visit_FunctionDef(self, n):
                return n

            def visit_ClassDef(self, n):
                return n

            def visit_Lambda(self, n):
                return n
        for fld, val in ast.iter_fields(st):
            if fld in ("body", "orelse", "finalbody", "handlers"):
                continue
            if isinstance(val, ast.AST):
                setattr(st, fld, V().visit(val))
            elif isinstance(val, list):
                setattr(st, fld, [V().visit(x) if isinstance(x, ast.AST) else x for x in val])


def _drop_dead_helpers(tree, names, only_here):
    """A private helper every call of which was expanded, and which no other
    module mentions, is dead in our copy of the tree: remove its definition,
    so that rules that enumerate call sites do not see the same statements a
    second time in a function nobody calls."""
    dropped = []
    for nm in sorted(set(names)):
        if not only_here(nm):
            continue
        refs = 0
        defs = []
        for parent in ast.walk(tree):
            for fld in ("body",):
                blk = getattr(parent, fld, None)
                if isinstance(blk, list):
                    for st in blk:
                        if isinstance(st, ast.FunctionDef) and st.name == nm:
                            defs.append((blk, st))
        for n in ast.walk(tree):
            if isinstance(n, ast.Name) and n.id == nm:
                refs += 1
            elif isinstance(n, ast.Attribute) and n.attr == nm:
                refs += 1
            elif isinstance(n, ast.Constant) and n.value == nm:
                refs += 1
        if refs == 0 and defs:
            for blk, st in defs:
                blk.remove(st)
                if not blk:
                    blk.append(ast.copy_location(ast.Pass(), st))
            dropped.append(nm)
    return dropped


def _drop_dead_locals(pairs):
    seen = set()
    for scope, fn in pairs:
        if id(fn) in seen or fn not in scope.body:
            continue
        seen.add(id(fn))
        refs = 0
        for st in scope.body:
            if st is fn:
                continue
            for n in ast.walk(st):
                if isinstance(n, ast.Name) and n.id == fn.name:
                    refs += 1
        if refs == 0:
            scope.body.remove(fn)
            if not scope.body:
                scope.body.append(ast.copy_location(ast.Pass(), fn))


def inline_helpers(tree, only_here=None):
    inl = Inliner(tree)
    inl.run()
    _drop_dead_locals(inl.local_done)
    if only_here is not None and inl.done:
        local_names = {fn.name for _s, fn in inl.local_done}
        _drop_dead_helpers(tree, [n for n in inl.done if n not in local_names], only_here)
    return tree, inl.done
