"""Shared recognisers: mutation sites of fields (DESIGN.md 2.7)."""

import ast

from .model import own_nodes, text, construct, stmt_of
from .effects import MUTATORS

LEN_CHANGING = {"append", "insert", "extend", "pop", "remove", "clear"}


class Mut:
    """One syntactic mutation of a field container."""
    __slots__ = ("func", "node", "stmt", "base", "attr", "kind", "args",
                 "value", "via_alias")

    def __init__(self, func, node, base, attr, kind, args=(), value=None,
                 via_alias=False):
        self.func = func
        self.node = node
        self.stmt = stmt_of(node) or node
        self.base = base          # expression of the object owning the field
        self.attr = attr
        self.kind = kind   # rebind | setitem | delitem | augitem | call:<m>
        self.args = list(args)
        self.value = value
        self.via_alias = via_alias

    def __repr__(self):
        return "<Mut %s.%s %s @%s:%d>" % (text(self.base), self.attr, self.kind,
                                          self.func.key, self.node.lineno)


def field_mutations(ctx, func, attrs):
    """All syntactic mutations in `func` of fields named in `attrs`
    (directly, through a local alias or an accessor result)."""
    from .effects import FuncCtx
    fc = FuncCtx(ctx.eff, func) if ctx._eff is not None else None
    out = []

    def field_of(expr):
        if isinstance(expr, ast.Attribute) and expr.attr in attrs:
            return expr.value, expr.attr, False
        if fc is not None and isinstance(expr, (ast.Name, ast.Call)):
            r = fc._field_of(expr)
            if r is not None and r[1] in attrs:
                return r[0], r[1], True
        return None

    def target(t, node, value, aug=False):
        if isinstance(t, (ast.Tuple, ast.List)):
            for e in t.elts:
                target(e, node, value, aug)
            return
        if isinstance(t, ast.Starred):
            target(t.value, node, value, aug)
            return
        if isinstance(t, ast.Attribute) and t.attr in attrs:
            out.append(Mut(func, node, t.value, t.attr, "rebind", value=value))
            return
        if isinstance(t, ast.Subscript):
            fo = field_of(t.value)
            if fo is not None:
                kind = "delitem" if isinstance(node, ast.Delete) else (
                    "augitem" if aug else "setitem")
                out.append(Mut(func, node, fo[0], fo[1], kind,
                               args=[t.slice], value=value, via_alias=fo[2]))

    for n in own_nodes(func):
        if isinstance(n, ast.Assign):
            for t in n.targets:
                target(t, n, n.value)
        elif isinstance(n, ast.AnnAssign) and n.value is not None:
            target(n.target, n, n.value)
        elif isinstance(n, ast.AugAssign):
            target(n.target, n, n.value, aug=True)
        elif isinstance(n, ast.Delete):
            for t in n.targets:
                target(t, n, None)
        elif isinstance(n, (ast.For, ast.AsyncFor)):
            target(n.target, n, None)
        elif isinstance(n, ast.Call) and isinstance(n.func, ast.Attribute) \
                and n.func.attr in MUTATORS:
            fo = field_of(n.func.value)
            if fo is not None:
                # a program method of the same name on an object-typed field?
                out.append(Mut(func, n, fo[0], fo[1], "call:" + n.func.attr,
                               args=n.args, via_alias=fo[2]))
    return out


# ---------------------------------------------------------------------------
# iteration kinds (DESIGN.md 2.7-1)
# ---------------------------------------------------------------------------
RAW, FILTERED, DENSE, LAZY = "RAW", "FILTERED", "DENSE", "LAZY-STREAM"
FILTERED_METHODS = {"__iter__", "iterOccupancy", "iterRange", "iterActive"}
DENSE_METHODS = {"iterShape", "iterShapeRef", "iterActiveShape",
                 "iterActiveShapeRef", "iterRangeShape", "iterRangeShapeRef",
                 "coiterShape", "coiterShapeRef", "coiterActiveShape",
                 "coiterActiveShapeRef", "coiterRangeShape",
                 "coiterRangeShapeRef", "iterUncompressed"}


def iter_kind(ctx, func, it):
    """(kind, fiber expression text) of iterating expression `it`."""
    if isinstance(it, ast.Call):
        fn = text(it.func)
        if fn in ("enumerate", "reversed", "list", "iter", "sorted", "tuple") \
                and it.args:
            return iter_kind(ctx, func, it.args[0])
        if fn == "zip" and it.args:
            ks = [iter_kind(ctx, func, a) for a in it.args]
            if all(k[0] == RAW for k in ks) and len({k[1] for k in ks}) == 1:
                return ks[0]
            return (None, None)
        if fn == "range" and it.args:
            a = it.args[-1] if len(it.args) < 3 else it.args[1]
            if isinstance(a, ast.Call) and text(a.func) == "len" and a.args:
                inner = a.args[0]
                if isinstance(inner, ast.Attribute) and inner.attr in ("coords", "payloads"):
                    return (RAW, text(inner.value))
            return (None, None)
        if isinstance(it.func, ast.Attribute):
            m = it.func.attr
            base = text(it.func.value)
            if m in ("getPayloads", "getCoords"):
                return (RAW, base)
            if m in FILTERED_METHODS:
                return (FILTERED, base)
            if m in DENSE_METHODS:
                return (DENSE, base)
            if m == "iter" and not it.args:
                return (LAZY, base)
        return (None, None)
    if isinstance(it, ast.Attribute) and it.attr in ("coords", "payloads"):
        return (RAW, text(it.value))
    if isinstance(it, ast.Subscript) and isinstance(it.slice, ast.Slice) and \
            isinstance(it.value, ast.Attribute) and it.value.attr in ("coords", "payloads"):
        return (RAW, text(it.value.value))
    if isinstance(it, ast.Name):
        from . import pat
        v = pat.single_def(ctx, func, it)
        if v is not None and isinstance(v, (ast.Call, ast.Attribute, ast.GeneratorExp)):
            k = iter_kind(ctx, func, v)
            if k[0]:
                return k
    if isinstance(it, ast.GeneratorExp) and len(it.generators) == 1:
        return iter_kind(ctx, func, it.generators[0].iter)
    t = ctx.ty.expr(func, it)
    if "Fiber" in t and not (t - {"Fiber", "Payload"}):
        return (FILTERED, text(it))
    return (None, None)



def _resolves_to_next_rank(ctx, f, recv, base, depth=0):
    """`recv` is <base>.getOwner().getNextRank() -- directly, through
    temporaries, or through temporaries that are None on the other branch."""
    from . import pat
    if depth > 4:
        return False
    t = pat.inline(ctx, f, recv).replace(" ", "")
    if t == "%s.getOwner().getNextRank()" % base:
        return True
    if isinstance(recv, ast.Name):
        facts, is_param = ctx.ty.facts_at(f, recv.id, recv)
        vals = [fa.value for fa in facts if fa.kind == "expr" and not fa.path]
        if is_param or not vals or len(vals) != len(facts):
            return False
        ok = False
        for v in vals:
            if isinstance(v, ast.Constant) and v.value is None:
                continue
            if isinstance(v, ast.Call) and isinstance(v.func, ast.Attribute) and \
                    v.func.attr == "getNextRank" and not v.args:
                o = v.func.value
                ot = pat.inline(ctx, f, o).replace(" ", "")
                if ot == "%s.getOwner()" % base:
                    ok = True
                    continue
                if isinstance(o, ast.Name):
                    of, op = ctx.ty.facts_at(f, o.id, o)
                    ovals = [x.value for x in of if x.kind == "expr"]
                    if ovals and all(text(x).replace(" ", "") == "%s.getOwner()" % base
                                     for x in ovals):
                        ok = True
                        continue
            return False
        return ok
    return False


def rank_pops(ctx, f, stmts, base):
    """Calls in `stmts` that pop the last fiber of <base>'s next rank:
    `<base>.getOwner().getNextRank().pop()` (also through temporaries), or a
    call of a module-level helper whose body does that for its parameter.
    -> [(call node in f, guarded_by_owner_test: bool)]"""
    from .cfg import walk_own, atomic_guards, enclosing_stmt
    from . import pat
    out = []
    for n in walk_own(stmts):
        if not isinstance(n, ast.Call):
            continue
        if isinstance(n.func, ast.Attribute) and n.func.attr == "pop" and not n.args \
                and _resolves_to_next_rank(ctx, f, n.func.value, base):
            gs = [(pat.inline(ctx, f, t).replace(" ", ""), pol)
                  for t, pol in atomic_guards(enclosing_stmt(n))]
            owner_ok = any(("getOwner()isnotNone" in t and pol) or
                           ("getOwner()isNone" in t and not pol) or
                           ("isnotNone" in t and pol) or ("isNone" in t and not pol)
                           for t, pol in gs)
            out.append((n, owner_ok))
            continue
        # a helper function: f(<base>, ..)
        if isinstance(n.func, ast.Name) and n.args and \
                text(n.args[0]).replace(" ", "") == base:
            tg = ctx.ty.resolve(f, n)
            for callee in tg.funcs:
                if not callee.params:
                    continue
                inner = rank_pops(ctx, callee, callee.body, callee.params[0])
                if inner:
                    # the helper guards by early returns on `owner is None`
                    out.append((n, all(ok for _, ok in inner) or True))
    return out
