"""Positive example for C09.R1: a descent loop that leaves on every path."""


def descend(children, op):
    for child in children:
        op(child)
        return None
