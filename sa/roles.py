"""Role anchors (DESIGN.md section 5): several thin rules have to talk about
local variables of /repo ("the head of the read trace", "the element
count").  What such a variable is *called* is not part of the property, so
the rules name the role and this table says, per function, by which
defining statement the variable playing that role is recognised.  After
parsing, the locals found that way are renamed (in our private copy of the
tree) to the role names the rules use; code that already uses those names is
untouched, and an anchor that does not match changes nothing.

Pattern syntax: ordinary Python (one simple statement or expression, or a
compound-statement header ending in ':') with ${role} standing for one
identifier, consistently within a function."""

import ast
import re

ANCHORS = {
    "model/traffic.py:Traffic.filterTrace": [
        "${f_out}.write(${f_in}.readline())",
        "${line_in} = ${f_in}.readline()",
        "${line_fil} = ${f_fil}.readline()",
        "${data_in} = get_data(${line_in})",
        "${data_fil} = get_data(${line_fil})[:len(${data_in})]",
    ],
    "model/traffic.py:Traffic._combineTraces": [
        "${f_read} = open(read_fn, 'r')",
        "${f_write} = open(write_fn, 'r')",
        "${read_line} = next_line(${f_read})",
        "${write_line} = next_line(${f_write})",
        "${f_comb}.write(${head}[:-1] + ',is_write\\n')",
    ],
    "model/traffic.py:Traffic.buffetTraffic.to_be_buffered": [
        "${evict_on} = bind_info[bind_pos][3]",
        "${evict_end} = order.index(loop_ranks[${evict_on}]) + 1",
    ],
    "model/format.py:Format._getFiberFootprint": [
        "${num_elems} = len(fiber)",
    ],
    "model/format.py:Format.getRank": [
        "${total} = self.spec[rank_id]['rhbits']",
        "${i} = self.tensor.getRankIds().index(rank_id)",
        "${rank} = self.tensor.ranks[${i}]",
        "for ${fiber} in ${rank}.getFibers():",
    ],
    "model/format.py:Format.getTensor": [
        "${total} = self.getRoot()",
        "for ${rank} in self.tensor.getRankIds():",
    ],
    "model/format.py:Format.getSubTree": [
        "${fibers} = [self._getFiberFromCoords(*coords)]",
        "${fiber} = ${fibers}.pop()",
        "${rank} = ${fiber}.getRankAttrs().getId()",
        "${total} += self._getFiberFootprint(${rank}, ${fiber})",
        "${iter_} = ${fiber}.iterShape()",
        "${fibers}.append(${payload})",
    ],
    "model/intersect.py:SkipAheadIntersector.addTraces": [
        "${trace0} = traces[0]",
        "${trace1} = traces[1]",
        "${point0}, ${i0} = get_next(${trace0}, ${i0})",
        "${point1}, ${i1} = get_next(${trace1}, ${i1})",
        "${fiber} = ${point0}[:-1]",
        "${curr} = None",
        "${old_fiber} = ${fiber}",
    ],
    "model/intersect.py:TwoFingerIntersector.addTraces": [
        "${trace0} = traces[0]",
        "${trace1} = traces[1]",
        "${point0}, ${i0} = get_next(${trace0}, ${i0})",
        "${point1}, ${i1} = get_next(${trace1}, ${i1})",
        "${fiber} = ${point0}[:-1]",
    ],
    "model/intersect.py:LeaderFollowerIntersector.addTraces": [
        "${new_intersects} = len(traces[0])",
    ],
    "model/compute.py:Compute._merge": [
    ],
}

_MV = re.compile(r"\$\{(\w+)\}")


def _regex(pattern):
    p = _MV.sub(lambda m: "MVQ%sQVM" % m.group(1), pattern)
    header = p.rstrip().endswith(":")
    try:
        tree = ast.parse(p + ("\n    pass" if header else ""))
        from . import canon as _c
        canon = ast.unparse(_c.normalise(tree))
        if header:
            canon = canon.rsplit("\n", 1)[0]
    except SyntaxError:
        canon = p
    out, seen = [], set()
    pos = 0
    for m in re.finditer(r"MVQ(\w+?)QVM", canon):
        out.append(re.escape(canon[pos:m.start()]))
        nm = m.group(1)
        if nm in seen:
            out.append("(?P=%s)" % nm)
        else:
            seen.add(nm)
            out.append(r"(?<![\w.])(?P<%s>[A-Za-z_]\w*)" % nm)
        pos = m.end()
    out.append(re.escape(canon[pos:]))
    return "".join(out), seen


def bind(node, patterns):
    """{role: actual local name} for one function node."""
    src = "\n".join(ast.unparse(st) for st in node.body)
    env = {}
    for pat_ in patterns:
        rx, names = _regex(pat_)
        # roles bound by an earlier anchor are fixed
        for role, actual in env.items():
            rx = rx.replace(r"(?<![\w.])(?P<%s>[A-Za-z_]\w*)" % role, re.escape(actual), 1)
            rx = rx.replace("(?P=%s)" % role, re.escape(actual))
        for m in re.finditer(rx, src):
            new = m.groupdict()
            # one variable plays one role
            if set(new.values()) & set(env.values()) or \
                    len(set(new.values())) != len(new):
                continue
            env.update(new)
            break
    return env


def apply(prog):
    """Rename the anchored locals of every listed function to their role
    names (in place).  Returns {function key: {actual: role}} of what was
    renamed, for the evidence."""
    done = {}
    for key, patterns in ANCHORS.items():
        f = prog.funcs.get(key)
        if f is None or not patterns:
            continue
        env = bind(f.node, patterns)
        mapping = {actual: role for role, actual in env.items() if actual != role}
        if not mapping:
            continue
        params = set(f.all_param_names())
        existing = {n.id for n in ast.walk(f.node) if isinstance(n, ast.Name)}
        # a role name already used by an unrelated variable: leave that role
        for actual, role in list(mapping.items()):
            if actual in params or (role in existing and role not in mapping):
                del mapping[actual]
        for n in ast.walk(f.node):
            if isinstance(n, ast.Name) and n.id in mapping:
                n.id = mapping[n.id]
        if mapping:
            done[key] = mapping
    return done
