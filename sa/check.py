"""CLI:  /venv/bin/python -m sa.check C01 --tier quick|thorough [--replay F]

Exit codes: 0 every obligation discharged (known findings are printed);
1 at least one unlisted violation (``VIOLATION property=<id> replay=<path>``);
2 ANALYSIS-ERROR (parse failure, vanished anchor, instance floor not met,
unclassifiable shape, uncaught exception) -- never a silent pass.
"""

import argparse
import importlib
import json
import os
import sys
import traceback


def run_property(prop, tier, seed, repo=None, emit=print, write=True):
    from .report import Ctx, finish
    mod = importlib.import_module("sa.rules.%s" % prop.lower())
    ctx = Ctx(prop, tier=tier, seed=seed, repo=repo)
    mod.run(ctx)
    ctx.number_constructs()
    if tier == "thorough" and hasattr(mod, "thorough"):
        mod.thorough(ctx)
    if tier == "thorough":
        from . import selftest
        selftest.attach(ctx, mod)
    if not write:
        return ctx
    return finish(ctx, mod.EXPLANATION, mod.RULE, emit=emit)


def main(argv=None):
    ap = argparse.ArgumentParser()
    ap.add_argument("prop")
    ap.add_argument("--tier", default=os.environ.get("VERIF_TIER", "quick"),
                    choices=["quick", "thorough"])
    ap.add_argument("--replay")
    a = ap.parse_args(argv)
    seed = int(os.environ.get("VERIF_SEED", "0") or 0)
    sys.setrecursionlimit(20000)
    try:
        if a.replay:
            with open(a.replay) as fh:
                want = json.load(fh)
            ctx = run_property(a.prop, "quick", seed, write=False)
            key = (want["property"], want["rule"], want["function"], want["construct"])
            hit = [f for f in ctx.findings if f.key() == key]
            if hit:
                f = hit[0]
                print("%s:%d: %s: %s: `%s`: %s" % (f.file, f.line, f.rule,
                                                   f.func, f.construct, f.why))
                print("VIOLATION property=%s replay=%s" % (a.prop, a.replay))
                return 1
            print("replay: finding no longer reproduced on the current tree")
            return 0
        return run_property(a.prop, a.tier, seed)
    except Exception as e:  # AnalysisError and anything unexpected
        from .model import AnalysisError
        kind = "ANALYSIS-ERROR" if isinstance(e, AnalysisError) else \
            "ANALYSIS-ERROR (internal)"
        print("%s property=%s: %s" % (kind, a.prop, e))
        if not isinstance(e, AnalysisError):
            traceback.print_exc()
        return 2


if __name__ == "__main__":
    sys.exit(main())
