"""Receiver typing and call resolution (DESIGN.md sections 2.4, 2.5).

A small flow-insensitive inference over class names of the repository plus
builtin container kinds.  A *shape* is either a set of type names, or
('list', elem shape), ('dict', value shape), ('tuple', [shapes]).
Unknown is the empty set; a call on an unknown receiver resolves to all
same-named definitions (``byname`` when there is exactly one candidate and
the name is not also a builtin container method, ``ambiguous`` otherwise).
"""

import ast

from .model import AnalysisError, text, own_nodes

LIST, DICT, SET, TUPLE, INT, STR, BOOL, NONE, FUNC, IMM, FILE, ITER, FLOAT = (
    "list", "dict", "set", "tuple", "int", "str", "bool", "None", "func",
    "imm", "file", "iter", "float")
BUILTIN_KINDS = {LIST, DICT, SET, TUPLE, INT, STR, BOOL, NONE, FUNC, IMM,
                 FILE, ITER, FLOAT, "class"}
IMMUTABLE = {INT, STR, BOOL, NONE, IMM, FLOAT}

CONTAINER_METHODS = {
    "append", "insert", "extend", "pop", "remove", "clear", "sort", "reverse",
    "copy", "get", "keys", "items", "values", "update", "add", "index",
    "count", "union", "difference", "discard", "setdefault", "join", "split",
    "strip", "format", "startswith", "endswith", "write", "read", "readline",
    "close", "popleft", "intersection", "show", "save", "print"}

# --- hand tables (checked against the source by Typing.validate) -----------

FIELD = {
    ("Fiber", "coords"): ("list", {IMM}),
    ("Fiber", "payloads"): ("list", {"Fiber", "Payload"}),
    ("Fiber", "_owner"): {"Rank"}, ("Fiber", "_rank_attrs"): {"RankAttrs"},
    ("Fiber", "_active_range"): {TUPLE}, ("Fiber", "_saved_pos"): {INT},
    ("Fiber", "_ordered"): {BOOL}, ("Fiber", "_unique"): {BOOL},
    ("Fiber", "_is_lazy"): {BOOL}, ("Fiber", "iter"): {"class"},
    ("Rank", "fibers"): ("list", {"Fiber"}), ("Rank", "next_rank"): {"Rank"},
    ("Rank", "_attrs"): {"RankAttrs"},
    ("Tensor", "ranks"): ("list", {"Rank"}),
    ("Tensor", "_root"): {"Fiber", "Payload"},
    ("Tensor", "_name"): {STR}, ("Tensor", "_color"): {STR},
    ("Tensor", "_mutable"): {BOOL},
    ("CoordPayload", "payload"): {"Fiber", "Payload"},
    ("CoordPayload", "coord"): {IMM},
    ("RankAttrs", "_default"): {"Payload"}, ("RankAttrs", "_id"): {IMM},
    ("RankAttrs", "_shape"): {IMM}, ("RankAttrs", "_fmt"): {STR},
    ("Metrics", "iteration"): ("list", {INT}),
    ("Metrics", "point"): ("list", {IMM}),
    ("Metrics", "loop_order"): ("list", {STR}),
    ("Metrics", "line_order"): ("dict", {INT}),
    ("Metrics", "fiber_label"): ("dict", {INT}),
    ("Metrics", "metrics"): ("dict", {DICT}),
    ("Metrics", "rank_matches"): ("dict", {STR}),
    ("Metrics", "all_rank_matches"): ("dict", {SET}),
    ("Metrics", "rank_flatten"): ("dict", {FUNC}),
    ("Metrics", "traces"): ("dict", ("dict", ("tuple", [{LIST}, {LIST}, {BOOL}]))),
}
# return types that inference cannot see (values come from fields set by
# parameters, or from Payload.get)
RET = {
    ("Fiber", "getPayload"): {"Fiber", "Payload"},
    ("Fiber", "getPayloadRef"): {"Fiber", "Payload"},
    ("Fiber", "_create_payload"): {"Fiber", "Payload"},
    ("Fiber", "_createDefault"): {"Fiber", "Payload"},
    ("Fiber", "_instantiateDefault"): {"Fiber", "Payload"},
    ("Fiber", "getDefault"): {"Payload", "class"},
    ("Rank", "getDefault"): {"Payload", "class"},
    ("RankAttrs", "getDefault"): {"Payload", "class"},
    ("Tensor", "getDefault"): {"Payload", "class"},
    ("Payload", "get"): {"Fiber", IMM},
    ("Payload", "maybe_box"): {"Fiber", "Payload"},
    ("Fiber", "getShape"): {IMM, LIST}, ("Rank", "getShape"): {IMM, LIST},
    ("Tensor", "getShape"): {LIST, IMM}, ("Fiber", "getActive"): {TUPLE},
    ("Fiber", "estimateShape"): {IMM, LIST},
    ("Fiber", "getRankIds"): ("list", {IMM}),
    ("Rank", "getRankIds"): ("list", {IMM}),
    ("Tensor", "getRankIds"): ("list", {IMM}),
    ("Fiber", "getCoords"): ("list", {IMM}),
    ("Fiber", "getPayloads"): ("list", {"Fiber", "Payload"}),
    ("Rank", "getFibers"): ("list", {"Fiber"}),
    ("Rank", "pop"): {"Fiber"},
    ("Fiber", "getSavedPos"): {INT},
    ("Tensor", "getName"): {STR}, ("Tensor", "getColor"): {STR},
    ("Tensor", "getRoot"): {"Fiber", "Payload"},
    ("Fiber", "__getitem__"): {"CoordPayload", "Fiber"},
}
# parameter names with a fixed meaning across the package (repo convention),
# not applied inside codec/ (its classes have same-named fields)
CORE_PARAM = {
    "fiber": {"Fiber"}, "tensor": {"Tensor"}, "owner": {"Rank"},
    "next_rank": {"Rank"}, "attrs": {"RankAttrs"}, "root": {"Fiber", "Payload"},
    "memo": {DICT},
}
# parameter names that always denote immutable scalars / tuples / id lists
# in this code base (never a tree object); they carry no alias root
IMM_PARAMS = {
    "start", "end", "step", "interval", "depth", "levels", "rank_id",
    "rankid", "style", "coord_style", "density", "seed", "size", "partitions",
    "tick", "trace", "title", "format", "indent", "cutoff", "newline",
    "coord_fmt", "payload_fmt", "level", "all_ranks", "authoritative",
    "recursive", "allocate", "preserve_owner", "addtorank", "yamlfile",
    "filename", "name", "color", "fmt", "pre_halo", "post_halo",
    "relativeCoords", "relative", "new_shape", "new_rank_id", "coord_ex",
    "max_coord", "ordered", "unique", "active_range", "interval", "position",
    "pos", "distance", "estimated_shape", "is_lazy", "spec", "consumable",
    "prefix", "type_", "iteration_num", "line", "metric", "inc", "rank",
    "file", "message", "num_cached_uses", "clear", "mode"}

FUNC_PARAM = {
    ("core/iterators.py", "other"): {"Fiber"},
    ("core/fiber.py", "other"): {"Fiber", IMM},
    ("core/iterators.py", "fibers"): ("list", {"Fiber"}),
    ("core/iterators.py", "args"): ("list", {"Fiber"}),
    ("core/rank.py", "fiber"): {"Fiber", "Payload"},
    ("core/tensor.py", "fiber"): {"Fiber"},
    ("core/tensor.py", "other"): {"Tensor"},
    ("core/payload.py", "other"): {"Payload", IMM},
    ("core/coord_payload.py", "other"): {"CoordPayload", "Payload", IMM},
}

# per-function parameter types (function qualname prefix, parameter)
QUAL_PARAM = {
    ("Fiber._splitNonUniform_iter", "splits"): {LIST},
    ("Fiber.splitNonUniform", "splits"): {LIST, "Fiber"},
}

BUILTIN_RET = {
    "len": {INT}, "int": {INT}, "str": {STR}, "float": {FLOAT}, "bool": {BOOL},
    "min": {IMM}, "max": {IMM}, "sum": {IMM}, "abs": {IMM}, "id": {INT},
    "dict": {DICT}, "set": {SET}, "range": ("list", {INT}),
    "isinstance": {BOOL}, "issubclass": {BOOL}, "callable": {BOOL},
    "all": {BOOL}, "any": {BOOL}, "open": {FILE}, "repr": {STR},
    "type": {"class"}, "chr": {STR}, "ord": {INT}, "print": {NONE},
    "hasattr": {BOOL}, "round": {IMM}, "frozenset": {SET}, "format": {STR},
    "divmod": {TUPLE}, "pow": {IMM}, "map": {ITER}, "filter": {ITER},
}

FIBER_ITER_METHODS = {
    "__iter__", "iterOccupancy", "iterShape", "iterShapeRef", "iterActive",
    "iterActiveShape", "iterActiveShapeRef", "iterRange", "iterRangeShape",
    "iterRangeShapeRef", "__reversed__", "iterUncompressed"}
CP_SHAPE = ("tuple", [{IMM}, {"Fiber", "Payload"}])


def flat(sh):
    if isinstance(sh, tuple):
        return {{"tuple": TUPLE, "list": LIST, "dict": DICT}[sh[0]]}
    return set(sh)


def merge(a, b):
    if not a:
        return b
    if not b:
        return a
    if isinstance(a, tuple) and isinstance(b, tuple) and a[0] == b[0]:
        if a[0] in ("list", "dict"):
            return (a[0], merge(a[1], b[1]))
        if len(a[1]) == len(b[1]):
            return ("tuple", [merge(x, y) for x, y in zip(a[1], b[1])])
    if isinstance(a, tuple) and not isinstance(b, tuple) and flat(a) == set(b):
        return a
    if isinstance(b, tuple) and not isinstance(a, tuple) and flat(b) == set(a):
        return b
    return flat(a) | flat(b)


def project(sh, path):
    for i in path:
        if isinstance(sh, tuple) and sh[0] == "tuple":
            sh = sh[1][i] if i < len(sh[1]) else set()
        elif not isinstance(sh, tuple) and "CoordPayload" in sh:
            sh = CP_SHAPE[1][i] if i < 2 else set()
        else:
            return set()
    return sh


PARAM = "<param>"


class Fact:
    __slots__ = ("kind", "value", "path", "stmt", "always", "scope")

    def __init__(self, kind, value, path, stmt, always, scope=None):
        self.kind = kind
        self.value = value
        self.path = path
        self.stmt = stmt
        self.always = always
        self.scope = scope      # comprehension node binding the name, if any

    def __iter__(self):
        yield self.kind
        yield self.value
        yield self.path


class Target:
    """Result of resolving one call site."""
    __slots__ = ("funcs", "kind", "cls", "name", "recv")

    def __init__(self, funcs, kind, cls=None, name=None, recv=None):
        self.funcs = funcs      # list of Func
        self.kind = kind  # resolved|byname|ambiguous|external|callback|ctor
        self.cls = cls          # ClassInfo for ctor
        self.name = name
        self.recv = recv        # receiver expression (None for plain calls)

    @property
    def certain(self):
        return self.kind in ("resolved", "byname", "ctor", "external")

    def __repr__(self):
        return "<Target %s %s %s>" % (self.kind, self.name,
                                      [f.key for f in self.funcs])


class Typing:
    def __init__(self, prog):
        self.prog = prog
        self._cache = {}
        self._busy = set()
        self._hits = 0
        self.class_names = set(prog.class_by_name)
        self._assigns = {}
        self._reach = {}

    # -- cycle-safe memoisation ------------------------------------------
    def _memo(self, key, compute, bottom=None):
        if key in self._cache:
            return self._cache[key]
        if key in self._busy:
            self._hits += 1
            return bottom() if bottom is not None else set()
        self._busy.add(key)
        h0 = self._hits
        try:
            val = compute()
        finally:
            self._busy.discard(key)
        if self._hits == h0 or not self._busy:
            self._cache[key] = val
        return val

    # ------------------------------------------------------------------
    def validate(self):
        missing = []
        for (c, m) in list(RET):
            if c in self.prog.class_by_name and \
                    self.prog.maybe_method(c, m) is None:
                missing.append("%s.%s" % (c, m))
        for c in ("Fiber", "Tensor", "Rank", "RankAttrs", "Payload",
                  "CoordPayload", "Metrics"):
            if c not in self.prog.class_by_name:
                missing.append(c)
        if missing:
            raise AnalysisError("typing table names vanished definitions: "
                                + ", ".join(missing))

    # ------------------------------------------------------------------
    def cls_of(self, tname):
        if tname.startswith("nested:"):
            return self.prog.classes.get(tname[7:])
        if tname.startswith("class:"):
            tname = tname[6:]
            if tname.startswith("nested:"):
                return self.prog.classes.get(tname[7:])
        lst = self.prog.class_by_name.get(tname)
        return lst[0] if lst else None

    def tname(self, ci):
        return ci.name if (ci.outer is None and "." not in ci.qual) \
            else "nested:" + ci.key

    def assignments(self, func):
        """name -> [Fact]; a Fact unpacks as (kind, value expr, path) with
        kinds: expr, elem (value is an iterable whose element is bound),
        add (value added as an element), exc."""
        if func in self._assigns:
            return self._assigns[func]
        facts = {}

        def put(name, kind, value, path, stmt, always=False, scope=None):
            facts.setdefault(name, []).append(
                Fact(kind, value, tuple(path), stmt, always, scope))

        def bind(target, kind, value, stmt, path=(), always=False, scope=None):
            if isinstance(target, ast.Name):
                put(target.id, kind, value, path, stmt, always, scope)
            elif isinstance(target, (ast.Tuple, ast.List)):
                for i, el in enumerate(target.elts):
                    if isinstance(el, ast.Starred):
                        el = el.value
                    bind(el, kind, value, stmt, path + (i,), always, scope)
            elif isinstance(target, ast.Subscript) and \
                    isinstance(target.value, ast.Name) and kind == "expr" and not path:
                put(target.value.id, "add", value, (), stmt, True)

        from .cfg import enclosing_stmt
        for n in own_nodes(func):
            if isinstance(n, ast.Assign):
                for t in n.targets:
                    bind(t, "expr", n.value, n)
            elif isinstance(n, ast.AnnAssign) and n.value is not None:
                bind(n.target, "expr", n.value, n)
            elif isinstance(n, ast.AugAssign):
                if isinstance(n.target, ast.Name):
                    put(n.target.id, "expr", n.value, (), n, True)
                else:
                    bind(n.target, "expr", n.value, n)
            elif isinstance(n, (ast.For, ast.AsyncFor)):
                bind(n.target, "elem", n.iter, n)
            elif isinstance(n, ast.comprehension):
                bind(n.target, "elem", n.iter, enclosing_stmt(n), always=True,
                     scope=getattr(n, "_parent", None))
            elif isinstance(n, ast.NamedExpr):
                bind(n.target, "expr", n.value, enclosing_stmt(n), always=True)
            elif isinstance(n, ast.With):
                for it in n.items:
                    if it.optional_vars is not None:
                        bind(it.optional_vars, "expr", it.context_expr, n)
            elif isinstance(n, ast.ExceptHandler) and n.name:
                put(n.name, "exc", None, (), n, True)
            elif isinstance(n, ast.Call) and isinstance(n.func, ast.Attribute) \
                    and isinstance(n.func.value, ast.Name):
                if n.func.attr in ("append", "add") and len(n.args) == 1:
                    put(n.func.value.id, "add", n.args[0], (), enclosing_stmt(n), True)
                elif n.func.attr == "insert" and len(n.args) == 2:
                    put(n.func.value.id, "add", n.args[1], (), enclosing_stmt(n), True)
        self._assigns[func] = facts
        return facts

    def reaching(self, func):
        """stmt -> {name: frozenset(Fact | PARAM)}: definitions of local
        names reaching the start of each statement (forward may-analysis on
        the statement CFG; 'always' facts are not tracked here)."""
        if func in self._reach:
            return self._reach[func]
        from .cfg import cfg_of, ENTRY
        g = cfg_of(func)
        facts = self.assignments(func)
        gen = {}
        for name, lst in facts.items():
            for fa in lst:
                if not fa.always and fa.stmt is not None:
                    gen.setdefault(fa.stmt, {}).setdefault(name, set()).add(fa)
        IN = {n: {} for n in g.succ}
        OUT = {n: {} for n in g.succ}
        OUT[ENTRY] = {p: frozenset([PARAM]) for p in func.all_param_names()}
        work = [n for n in g.succ if n != ENTRY]
        inw = set(work)
        while work:
            n = work.pop()
            inw.discard(n)
            new_in = {}
            for p in g.pred.get(n, ()):
                for name, s in OUT[p].items():
                    if name in new_in:
                        if not s <= new_in[name]:
                            new_in[name] = new_in[name] | s
                    else:
                        new_in[name] = s
            IN[n] = new_in
            gn = gen.get(n)
            if gn:
                new_out = dict(new_in)
                for name, s in gn.items():
                    new_out[name] = frozenset(s)
            else:
                new_out = new_in
            if new_out != OUT[n]:
                OUT[n] = new_out
                for m in g.succ.get(n, ()):
                    if m not in inw and m != ENTRY:
                        inw.add(m)
                        work.append(m)
        self._reach[func] = IN
        return IN

    def facts_at(self, func, name, node):
        """(facts, is_param) for `name` as seen by the use at `node`.
        Flow-sensitive when `node` lies in `func`'s own body."""
        allf = self.assignments(func).get(name, [])
        is_param = name in func.all_param_names()
        if node is not None and any(fa.scope is not None for fa in allf):
            # comprehension variables live in the comprehension's own scope
            from .cfg import ancestors
            anc = set(id(a) for a in ancestors(node))
            inside = [fa for fa in allf if fa.scope is not None and id(fa.scope) in anc]
            if inside:
                return inside, False
            allf = [fa for fa in allf if fa.scope is None]
            if not allf and not is_param:
                return [], False
        if node is None or not allf:
            return allf, is_param
        from .cfg import enclosing_stmt
        st = enclosing_stmt(node)
        IN = self.reaching(func)
        if st is None or st not in IN:
            return allf, is_param
        reach = IN[st].get(name)
        always = [fa for fa in allf if fa.always]
        if reach is None:
            # no tracked definition reaches: only 'always' facts (or dead code)
            if not always and not is_param:
                return allf, is_param
            return always, False
        out = [fa for fa in allf if fa.always or fa in reach]
        # a definition made by this very statement's loop header
        return out, (PARAM in reach)

    # ------------------------------------------------------------------
    def param_shape(self, func, name):
        if func.params and name == func.params[0] and func.self_type:
            return {func.self_type}
        out = set()
        d = func.defaults.get(name)
        if d is not None:
            sh = self.shape(func.outer or func, d)
            if flat(sh) != {NONE}:
                out = merge(out, sh if isinstance(sh, tuple) else set(sh) - {NONE})
        if name == func.vararg:
            out = merge(out, {TUPLE})
        if name == func.kwarg:
            out = merge(out, {DICT})
        fp = None
        for (q, pn), v in QUAL_PARAM.items():
            if pn == name and (func.qual == q or func.qual.startswith(q + ".")):
                fp = v
        if fp is None:
            fp = FUNC_PARAM.get((func.module.rel, name))
        if fp:
            if name == func.vararg:
                return fp
            out = merge(out, fp)
        elif not func.module.rel.startswith("codec/") and name in CORE_PARAM:
            out = merge(out, set(CORE_PARAM[name]))
        elif not func.module.rel.startswith("codec/") and name in IMM_PARAMS \
                and not out:
            out = {IMM}
        for st in func.body:
            if isinstance(st, ast.Assert):
                out = merge(out, self._isinstance_types(st.test, name))
        return out

    def _isinstance_types(self, test, name):
        out = set()
        for n in ast.walk(test):
            if isinstance(n, ast.Call) and text(n.func) == "isinstance" and \
                    len(n.args) == 2 and text(n.args[0]) == name:
                t = n.args[1]
                elts = t.elts if isinstance(t, ast.Tuple) else [t]
                for e in elts:
                    nm = text(e)
                    if nm in self.class_names:
                        out.add(nm)
                    elif nm == "list":
                        out.add(LIST)
                    elif nm == "dict":
                        out.add(DICT)
                    elif nm == "tuple":
                        out.add(TUPLE)
                    elif nm in ("int", "float", "str", "bool"):
                        out.add(IMM)
        return out

    def var(self, func, name, at=None):
        return flat(self.var_shape(func, name, at))

    def var_shape(self, func, name, at=None):
        facts, is_param = self.facts_at(func, name, at)
        allf = self.assignments(func).get(name, [])
        if len(facts) == len(allf) and is_param == (name in func.all_param_names()):
            key = ("var", func, name)
        else:
            key = ("var", func, name, frozenset(id(x) for x in facts), is_param)
        return self._memo(key, lambda: self._var_shape(func, name, facts, is_param))

    def _var_shape(self, func, name, facts, is_param):
        out = set()
        if is_param:
            out = self.param_shape(func, name)
        for kind, value, path in facts:
            if kind == "expr":
                sh = project(self.shape(func, value), path)
                if func.name == "__new__" and not path and \
                        isinstance(value, ast.Call) and \
                        text(value.func).endswith(".__new__") and func.cls:
                    sh = {self.tname(func.cls)}
            elif kind == "elem":
                sh = project(self.elem_shape(func, value), path)
            elif kind == "add":
                cur = flat(out)
                kindname = "dict" if DICT in cur and LIST not in cur else "list"
                sh = (kindname, self.shape(func, value))
            else:
                sh = set()
            out = merge(out, sh)
        if not self.assignments(func).get(name) and \
                name not in func.all_param_names():
            if func.outer is not None:
                return self.var_shape(func.outer, name)
            if func.cls is not None and func.cls.outer is not None:
                return self.var_shape(func.cls.outer, name)
            return self._global(func.module, name)
        return out

    def _global(self, mod, name):
        if name in mod.classes:
            return {"class:" + name}
        if name in mod.functions:
            return {FUNC}
        if name in mod.imports:
            src, nm = mod.imports[name]
            if nm is None:
                return {"module:" + src}
            target = self.prog.resolve_import(mod, src)
            if target is not None:
                if nm in target.classes:
                    return {"class:" + nm}
                if nm in target.functions:
                    return {FUNC}
                if nm in target.imports:
                    return self._global(target, nm)
                sub = self.prog.resolve_import(
                    mod, src + nm if src.endswith(".") else src + "." + nm)
                if sub is not None:
                    return {"module:" + sub.rel}
            if nm in self.class_names:
                return {"class:" + nm}
            return {"ext:" + src + "." + nm}
        return set()

    # ------------------------------------------------------------------
    def expr(self, func, node):
        return flat(self.shape(func, node))

    def shape(self, func, node):
        if node is None:
            return set()
        if isinstance(node, ast.Constant):
            v = node.value
            if v is None:
                return {NONE}
            if isinstance(v, bool):
                return {BOOL}
            if isinstance(v, int):
                return {INT}
            if isinstance(v, float):
                return {FLOAT}
            if isinstance(v, str):
                return {STR}
            return {IMM}
        if isinstance(node, ast.JoinedStr):
            return {STR}
        if isinstance(node, ast.Name):
            if node.id in ("True", "False"):
                return {BOOL}
            return self._narrow(func, node, self.var_shape(func, node.id, node))
        if isinstance(node, ast.List):
            el = set()
            for e in node.elts:
                el = merge(el, self.shape(func, e))
            return ("list", el)
        if isinstance(node, (ast.ListComp, ast.GeneratorExp)):
            return ("list", self.shape(func, node.elt))
        if isinstance(node, ast.Tuple):
            return ("tuple", [self.shape(func, e) for e in node.elts])
        if isinstance(node, ast.Dict):
            v = set()
            for e in node.values:
                v = merge(v, self.shape(func, e))
            return ("dict", v)
        if isinstance(node, ast.DictComp):
            return ("dict", self.shape(func, node.value))
        if isinstance(node, (ast.Set, ast.SetComp)):
            return {SET}
        if isinstance(node, ast.Lambda):
            return {FUNC}
        if isinstance(node, ast.Compare):
            return {BOOL}
        if isinstance(node, ast.BoolOp):
            out = set()
            for v in node.values:
                out = merge(out, self.shape(func, v))
            if isinstance(out, set):
                out = out - {NONE} or out
            return out
        if isinstance(node, ast.UnaryOp):
            if isinstance(node.op, ast.Not):
                return {BOOL}
            return self.shape(func, node.operand)
        if isinstance(node, ast.BinOp):
            l = self.shape(func, node.left)
            r = self.shape(func, node.right)
            lf, rf = flat(l), flat(r)
            if "Fiber" in lf and isinstance(node.op, (
                    ast.BitAnd, ast.BitOr, ast.BitXor, ast.LShift, ast.Sub,
                    ast.Add, ast.Mult, ast.Div, ast.FloorDiv)):
                return {"Fiber"}
            if LIST in lf or LIST in rf:
                if isinstance(node.op, ast.Mult):
                    return l if LIST in lf else r
                return merge(l if LIST in lf else set(), r if LIST in rf else set())
            if isinstance(node.op, ast.Mod) and STR in lf:
                return {STR}
            if TUPLE in lf or TUPLE in rf:
                return {TUPLE}
            if STR in lf or STR in rf:
                return {STR}
            if lf & {"Payload", "CoordPayload"} or rf & {"Payload", "CoordPayload"}:
                return {"Payload"}
            return {IMM}
        if isinstance(node, ast.IfExp):
            return merge(self.shape(func, node.body), self.shape(func, node.orelse))
        if isinstance(node, ast.Starred):
            return self.shape(func, node.value)
        if isinstance(node, ast.Attribute):
            return self._attr(func, node)
        if isinstance(node, ast.Subscript):
            return self._subscript(func, node)
        if isinstance(node, ast.Call):
            return self._call_shape(func, node)
        if isinstance(node, ast.NamedExpr):
            return self.shape(func, node.value)
        return set()

    def _narrow(self, func, node, sh):
        """isinstance / Payload.contains guards on the structural path."""
        from .cfg import atomic_guards, enclosing_stmt
        st = enclosing_stmt(node)
        if st is None:
            return sh
        name = node.id
        for test, pol in atomic_guards(st):
            if not isinstance(test, ast.Call) or len(test.args) != 2 or \
                    text(test.args[0]) != name:
                continue
            fn = text(test.func)
            if fn not in ("isinstance", "Payload.contains"):
                continue
            t = test.args[1]
            elts = t.elts if isinstance(t, ast.Tuple) else [t]
            names = set()
            for e in elts:
                nm = text(e)
                if nm in self.class_names:
                    names.add(nm)
                elif nm in ("list", "dict", "tuple"):
                    names.add(nm)
                elif nm in ("int", "float", "str", "bool"):
                    names |= {IMM, INT, STR, BOOL, FLOAT}
            if not names:
                continue
            if pol:
                if fn == "Payload.contains":
                    names = names | {"Payload"}
                cur = flat(sh)
                sh = (cur & names) or names
            else:
                cur = flat(sh) - names
                if isinstance(sh, tuple) and flat(sh) - names:
                    continue
                sh = cur
        return sh

    def _attr(self, func, node):
        base = self.expr(func, node.value)
        out = set()
        for b in base:
            isclass = b.startswith("class:")
            cname = b[6:] if isclass else b
            if cname in BUILTIN_KINDS or cname.startswith(("module:", "ext:")):
                continue
            f = FIELD.get((cname, node.attr))
            if f is not None:
                out = merge(out, f)
                continue
            ci = self.cls_of(cname)
            if ci is None:
                continue
            if node.attr in ci.methods or node.attr in ci.partial:
                out = merge(out, {FUNC})
            elif node.attr in ci.class_attrs:
                val = ci.class_attrs[node.attr]
                if ci.outer is not None:
                    out = merge(out, self.shape(ci.outer, val))
                elif isinstance(val, (ast.Constant, ast.List, ast.Dict,
                                      ast.Tuple, ast.Set)):
                    out = merge(out, self.shape(func, val))
                out = merge(out, self._instance_attr(ci, node.attr))
            else:
                out = merge(out, self._instance_attr(ci, node.attr))
        return out

    def _instance_attr(self, ci, attr):
        """``self.<attr> = value`` / ``cls.<attr> = value`` in methods."""
        def compute():
            out = set()
            for m in set(ci.methods.values()):
                if m.cls is not ci or not m.params or m.kind == "static":
                    continue
                selfname = m.params[0]
                for n in own_nodes(m):
                    if isinstance(n, ast.Assign):
                        for t in n.targets:
                            if isinstance(t, ast.Attribute) and t.attr == attr and \
                                    isinstance(t.value, ast.Name) and \
                                    t.value.id == selfname:
                                sh = self.shape(m, n.value)
                                if flat(sh) != {NONE}:
                                    out = merge(out, sh)
            return out
        return self._memo(("iattr", ci.key, attr), compute)

    def _subscript(self, func, node):
        base = self.shape(func, node.value)
        if isinstance(node.slice, ast.Slice):
            if isinstance(base, tuple) and base[0] == "list":
                return base
            bf = flat(base)
            return {LIST} if LIST in bf else ({TUPLE} if TUPLE in bf else set())
        if isinstance(base, tuple):
            if base[0] in ("list", "dict"):
                return base[1]
            if base[0] == "tuple":
                if isinstance(node.slice, ast.Constant) and \
                        isinstance(node.slice.value, int) and \
                        -len(base[1]) <= node.slice.value < len(base[1]):
                    return base[1][node.slice.value]
                out = set()
                for s in base[1]:
                    out = merge(out, s)
                return out
        out = set()
        for b in flat(base):
            if b in self.class_names:
                m = self.prog.maybe_method(b, "__getitem__")
                if m is not None:
                    out = merge(out, self.ret_shape(m))
        return out

    def _call_shape(self, func, node):
        f = node.func
        if isinstance(f, ast.Name):
            nm = f.id
            if nm in ("list", "sorted", "reversed", "tuple", "iter") and node.args \
                    and not self.assignments(func).get(nm):
                return ("list", self.elem_shape(func, node.args[0]))
            if nm == "deepcopy" and node.args:
                return self.shape(func, node.args[0])
            if nm == "next" and node.args:
                return self.elem_shape(func, node.args[0])
            if nm in ("zip", "enumerate") and node.args:
                return ("list", self.elem_shape(func, node))
        elif isinstance(f, ast.Attribute):
            full = text(f)
            if full in ("copy.deepcopy", "copy.copy") and node.args:
                return self.shape(func, node.args[0])
            if full == "pickle.loads":
                a = node.args[0] if node.args else None
                if isinstance(a, ast.Call) and text(a.func) == "pickle.dumps" and a.args:
                    return self.shape(func, a.args[0])
                return set()
        tg = self.resolve(func, node)
        if tg.kind == "ctor":
            tn = self.tname(tg.cls)
            if tn == "Payload":
                a = node.args[0] if node.args else None
                if a is not None and "Fiber" in self.expr(func, a):
                    return {"Payload", "Fiber"}
            return {tn}
        if tg.funcs and tg.kind in ("resolved", "byname"):
            out = set()
            for callee in tg.funcs:
                out = merge(out, self.ret_shape(callee))
            return out
        if isinstance(f, ast.Name) and f.id in BUILTIN_RET:
            return BUILTIN_RET[f.id]
        if isinstance(f, ast.Attribute):
            base = self.shape(func, f.value)
            if f.attr == "copy":
                return base
            if f.attr == "values" and isinstance(base, tuple) and base[0] == "dict":
                return ("list", base[1])
            if f.attr == "items" and isinstance(base, tuple) and base[0] == "dict":
                return ("list", ("tuple", [set(), base[1]]))
            if f.attr == "get" and isinstance(base, tuple) and base[0] == "dict":
                return base[1]
            if f.attr == "pop" and isinstance(base, tuple) and base[0] in ("list", "dict"):
                return base[1]
            if f.attr in ("keys", "split"):
                return ("list", set())
            if f.attr in ("join", "strip", "format"):
                return {STR}
            if f.attr == "indices":
                return {TUPLE}
        return set()

    def local_callable(self, func, name):
        """Nested def / class or module-level function named `name`."""
        f = func
        while f is not None:
            if name in f.inner_funcs:
                return f.inner_funcs[name]
            if name in f.inner_classes:
                return ("class", f.inner_classes[name])
            if f.outer is None and f.cls is not None and f.cls.outer is not None:
                f = f.cls.outer
            else:
                f = f.outer
        mod = func.module
        return self._module_callable(mod, name)

    def _module_callable(self, mod, name, depth=0):
        if name in mod.functions:
            return mod.functions[name]
        if name in mod.classes:
            return ("class", mod.classes[name])
        if name in mod.imports and depth < 4:
            src, nm = mod.imports[name]
            target = self.prog.resolve_import(mod, src)
            if target is not None and nm is not None:
                r = self._module_callable(target, nm, depth + 1)
                if r is not None:
                    return r
            if nm in self.prog.class_by_name:
                return ("class", self.prog.class_by_name[nm][0])
        return None

    # ------------------------------------------------------------------
    def ret_shape(self, callee):
        names = []
        if callee.cls is not None:
            names.append((callee.cls.name, callee.name))
        inj = getattr(callee, "injected_into", None)
        if inj is not None:
            names.append((inj.name, callee.name))
        for k in names:
            if k in RET:
                return RET[k]
        if callee.name in FIBER_ITER_METHODS and (inj is not None or (
                callee.cls is not None and callee.cls.name == "Fiber")):
            return ("list", CP_SHAPE)

        def compute():
            if callee.is_generator:
                out = set()
                for n in own_nodes(callee):
                    if isinstance(n, ast.Yield) and n.value is not None:
                        out = merge(out, self.shape(callee, n.value))
                return ("list", out)
            out = set()
            for n in own_nodes(callee):
                if isinstance(n, ast.Return) and n.value is not None:
                    sh = self.shape(callee, n.value)
                    if flat(sh) != {NONE}:
                        out = merge(out, sh)
            return out
        return self._memo(("ret", callee), compute)

    def ret(self, callee):
        return flat(self.ret_shape(callee))

    # ------------------------------------------------------------------
    def elem_shape(self, func, it):
        """Shape of one element produced by iterating expression `it`."""
        if isinstance(it, ast.Call):
            fn = text(it.func)
            if fn == "enumerate" and it.args:
                return ("tuple", [{INT}, self.elem_shape(func, it.args[0])])
            if fn == "zip":
                return ("tuple", [self.elem_shape(func, a) for a in it.args])
            if fn in ("reversed", "list", "sorted", "iter", "tuple") and it.args:
                return self.elem_shape(func, it.args[0])
            if fn == "range":
                return {INT}
        sh = self.shape(func, it)
        if isinstance(sh, tuple):
            if sh[0] == "list":
                return sh[1]
            if sh[0] == "dict":
                return set()
            out = set()
            for s in sh[1]:
                out = merge(out, s)
            return out
        if sh & {"Fiber", "CoordPayload", "Tensor"}:
            return CP_SHAPE
        return set()

    # ------------------------------------------------------------------
    def resolve(self, func, call):
        return self._memo(("call", func, call),
                          lambda: self._resolve(func, call),
                          bottom=lambda: Target([], "external"))

    def _resolve(self, func, call):
        f = call.func
        if isinstance(f, ast.Name):
            nm = f.id
            facts = self.assignments(func).get(nm)
            is_param = nm in func.all_param_names()
            if is_param and func.kind == "class" and func.params and \
                    nm == func.params[0] and not facts and func.cls is not None:
                ci = func.cls
                init = [ci.methods[m] for m in ("__new__", "__init__")
                        if m in ci.methods]
                return Target(init, "ctor", cls=ci, name=nm)
            if is_param or facts:
                targets = []
                for kind, value, path in (facts or []):
                    if kind == "expr" and not path:
                        targets.extend(self.callable_ref(func, value))
                if targets and not is_param:
                    return Target(_uniq(targets), "resolved", name=nm)
                return Target(_uniq(targets), "callback", name=nm)
            lc = self.local_callable(func, nm)
            if lc is None and nm == "cls":
                ft = func
                while ft is not None and not ft.self_type:
                    ft = ft.outer
                ci = self.cls_of(ft.self_type) if ft is not None else None
                lc = ("class", ci) if ci is not None else None
            if isinstance(lc, tuple):
                ci = lc[1]
                init = [ci.methods[m] for m in ("__new__", "__init__")
                        if m in ci.methods]
                return Target(init, "ctor", cls=ci, name=nm)
            if lc is not None:
                return Target([lc], "resolved", name=nm)
            # free variable of an enclosing function holding a callable
            if func.outer is not None or (func.cls and func.cls.outer):
                outer = func.outer or func.cls.outer
                ofacts = self.assignments(outer).get(nm)
                if ofacts or nm in outer.all_param_names():
                    targets = []
                    for kind, value, path in (ofacts or []):
                        if kind == "expr" and not path:
                            targets.extend(self.callable_ref(outer, value))
                    return Target(_uniq(targets), "callback", name=nm)
            return Target([], "external", name=nm)
        if isinstance(f, ast.Attribute):
            name = f.attr
            recv = f.value
            if isinstance(recv, ast.Call) and text(recv.func).startswith("super"):
                return Target([], "external", name=name, recv=recv)
            rt = self.expr(func, recv)
            funcs = []
            unknown = not rt
            ctor = None
            for t in rt:
                if t.startswith(("module:", "ext:")):
                    m = self.prog.modules.get(t[7:]) if t.startswith("module:") else None
                    if m is not None and name in m.functions:
                        funcs.append(m.functions[name])
                    elif m is not None and name in m.classes:
                        ctor = m.classes[name]
                    continue
                if t in BUILTIN_KINDS:
                    continue
                ci = self.cls_of(t)
                if ci is None:
                    unknown = True
                    continue
                if name in ci.methods:
                    funcs.append(ci.methods[name])
                elif name in ci.partial:
                    funcs.append(ci.methods[ci.partial[name][0]])
                elif name in ci.class_attrs or self._instance_attr(ci, name):
                    # a callable stored in an attribute
                    val = ci.class_attrs.get(name)
                    if val is not None and ci.outer is not None:
                        funcs.extend(self.callable_ref(ci.outer, val))
            if ctor is not None:
                init = [ctor.methods[m] for m in ("__new__", "__init__")
                        if m in ctor.methods]
                return Target(init, "ctor", cls=ctor, name=name, recv=recv)
            if funcs:
                return Target(_uniq(funcs), "resolved", name=name, recv=recv)
            if not unknown:
                return Target([], "external", name=name, recv=recv)
            cands = [m for m in self.prog.methods_by_name.get(name, [])
                     if m.cls is not None or getattr(m, "injected_into", None)]
            cands = [m for m in cands if m.kind != "lambda"]
            if not cands:
                return Target([], "external", name=name, recv=recv)
            cands = _uniq(cands)
            if len(cands) == 1 and name not in CONTAINER_METHODS:
                return Target(cands, "byname", name=name, recv=recv)
            return Target(cands, "ambiguous", name=name, recv=recv)
        if isinstance(f, ast.Lambda):
            return Target([f._func], "resolved", name="<lambda>")
        return Target([], "external", name=text(f))

    def callable_ref(self, func, value):
        """Functions denoted by a Name / Class.method / lambda expression."""
        if isinstance(value, ast.Lambda):
            return [value._func]
        if isinstance(value, ast.Name):
            lc = self.local_callable(func, value.id)
            if lc is not None and not isinstance(lc, tuple):
                return [lc]
            out = []
            for kind, v, path in self.assignments(func).get(value.id, []):
                if kind == "expr" and not path and isinstance(v, ast.Lambda):
                    out.append(v._func)
            return out
        if isinstance(value, ast.Attribute):
            out = []
            for t in self.expr(func, value.value):
                ci = self.cls_of(t)
                if ci is not None:
                    if value.attr in ci.methods:
                        out.append(ci.methods[value.attr])
                    elif value.attr in ci.partial:
                        out.append(ci.methods[ci.partial[value.attr][0]])
            return out
        return []


def _uniq(lst):
    out = []
    for x in lst:
        if x not in out:
            out.append(x)
    return out


_T = {}


def typing_of(prog):
    if id(prog) not in _T:
        t = Typing(prog)
        t.validate()
        _T[id(prog)] = t
    return _T[id(prog)]
