"""C08 -- splitting partitions a fiber losslessly (partial: the plumbing
every split shares; the partition arithmetic is integer reasoning over
run-time coordinates and is not decided)."""

import ast

from ..model import text, AnalysisError
from ..cfg import guards, enclosing_stmt, cfg_of
from .. import pat
from .c09 import r2 as true_positions

EXPLANATION = (
    "Decided clauses: (R1) the four fiber splits end in "
    "self._splitGeneric(splitter, depth=depth) after the rankid -> depth "
    "override, / and // delegate to splitUniform / splitEqual with the "
    "ceiling division of shape resp. occupancy, the six tensor entry points "
    "go through Tensor._splitGeneric with the fiber method of the same "
    "name; (R2) the splitter operates on copy.deepcopy(self), never on the "
    "operand; (R3) the depth descent stores each result at the true "
    "position of the element it was computed from; (R4) payload objects "
    "pass through the partition builders unmodified, relative coordinates "
    "only subtract the partition start, _splitFiber hands coords / payloads "
    "/ active range from the splitter to the Fiber constructor unchanged "
    "with the split fiber's default and shape; (R5) splitEqual / splitUnEqual "
    "count their boundaries over the same stream kind the shared partitioner "
    "distributes.  Partition boundaries, "
    "halos and clipped active ranges are not decided.")
RULE = "one obligation per split entry point and per plumbing clause"


def run(ctx):
    ctx.guard(r1)
    ctx.guard(r2)
    ctx.guard(r3)
    ctx.guard(r4)
    ctx.guard(r5_position_space)
    ctx.guard(r6_intervals)
    ctx.guard(r7_clip)


def _walk(stmts):
    from ..cfg import walk_own
    return walk_own(stmts)


def r1(ctx):
    for name in ("splitUniform", "splitNonUniform", "splitEqual", "splitUnEqual"):
        f = ctx.method("Fiber", name)
        rets = pat.returns(f)
        ok = len(rets) == 1 and isinstance(rets[0].value, ast.Call) and \
            text(rets[0].value.func) == "self._splitGeneric"
        if ok:
            c = rets[0].value
            d = pat.kwarg(c, "depth", 1)
            ok = d is not None and text(d) == "depth" and c.args and \
                isinstance(c.args[0], ast.Name)
        if ok:
            ctx.ok("C08.R1", f, rets[0], "ends in _splitGeneric(splitter, depth=depth)")
        else:
            ctx.bad("C08.R1", f, rets[-1] if rets else f.node, "Fiber.%s does "
                    "not end in self._splitGeneric(splitter, depth=depth): the "
                    "split bypasses the copy-then-descend funnel" % name,
                    text_="Fiber.%s funnel" % name)
        ov = False
        for n in f.own_nodes():
            if isinstance(n, ast.If) and text(n.test).replace(" ", "") == \
                    "rankidisnotNone":
                for b in n.body:
                    if isinstance(b, ast.Assign) and text(b.targets[0]) == "depth" \
                            and text(b.value).replace(" ", "") == \
                            "self._rankid2depth(rankid)":
                        if rets and cfg_of(f).dominates(n, rets[0]):
                            ov = True
        if ov:
            ctx.ok("C08.R1", f, f.node, "rankid overrides depth",
                   text_="Fiber.%s rankid override" % name)
        else:
            ctx.bad("C08.R1", f, f.node, "Fiber.%s lacks the `rankid -> depth` "
                    "override its siblings apply before splitting" % name,
                    text_="Fiber.%s rankid override" % name)
    # division shorthands
    for name, target, size in (("__truediv__", "splitUniform",
                                "self.getShape(all_ranks=False)"),
                               ("__floordiv__", "splitEqual", "len(self.coords)")):
        f = ctx.method("Fiber", name)
        rets = pat.returns(f)
        ok = False
        if len(rets) == 1 and isinstance(rets[0].value, ast.Call) and \
                text(rets[0].value.func) == "self." + target and rets[0].value.args:
            a = pat.inline(ctx, f, rets[0].value.args[0]).replace(" ", "")
            p = f.params[1]
            ok = a == "(%s+%s-1)//%s" % (size.replace(" ", ""), p, p)
        if ok:
            ctx.ok("C08.R1", f, rets[0], "%s(ceil(%s / partitions))" % (target, size))
        else:
            ctx.bad("C08.R1", f, rets[0] if rets else f.node, "Fiber.%s must be "
                    "%s((%s + partitions - 1) // partitions)" % (name, target, size),
                    text_="Fiber.%s" % name)
    for name in ("splitUniform", "splitNonUniform", "splitEqual", "splitUnEqual",
                 "__truediv__", "__floordiv__"):
        f = ctx.method("Tensor", name)
        rets = pat.returns(f)
        ok = len(rets) == 1 and isinstance(rets[0].value, ast.Call) and \
            text(rets[0].value.func) == "self._splitGeneric" and \
            rets[0].value.args and text(rets[0].value.args[0]) == "Fiber." + name
        if ok:
            ctx.ok("C08.R1", f, rets[0], "Tensor.%s -> _splitGeneric(Fiber.%s, ...)"
                   % (name, name))
        else:
            ctx.bad("C08.R1", f, rets[0] if rets else f.node, "Tensor.%s must go "
                    "through self._splitGeneric(Fiber.%s, ...)" % (name, name),
                    text_="Tensor.%s funnel" % name)


def r2(ctx):
    f = ctx.method("Fiber", "_splitGeneric")
    cp = [n for n in f.own_nodes() if isinstance(n, ast.Assign) and
          text(n.value).replace(" ", "") in ("copy.deepcopy(self)", "deepcopy(self)",
                                             "pickle.loads(pickle.dumps(self))")]
    if not cp:
        ctx.bad("C08.R2", f, f.node, "_splitGeneric no longer deep-copies the "
                "operand before splitting", text_="_splitGeneric copy")
        return
    var = text(cp[0].targets[0])
    calls = [c for c in f.own_nodes() if isinstance(c, ast.Call) and
             isinstance(c.func, ast.Attribute) and
             c.func.attr in ("_splitFiber", "updatePayloadsBelow", "updatePayloads")]
    ctx.require(calls, "C08.R2: split calls vanished from _splitGeneric")
    def receiver(c):
        # `Fiber.m(obj, ..)` is `obj.m(..)`
        if text(c.func.value) == "Fiber" and c.args and \
                not isinstance(c.args[0], ast.Starred):
            return text(c.args[0])
        return text(c.func.value)
    bad = [c for c in calls if receiver(c) != var]
    if bad:
        ctx.bad("C08.R2", f, bad[0], "`%s` runs on `%s`, not on the deep copy "
                "`%s`: the operand itself is transformed"
                % (text(bad[0])[:60], receiver(bad[0]), var))
    else:
        ctx.ok("C08.R2", f, cp[0], "every transformation runs on the deep copy")
    g = cfg_of(f)
    if all(g.dominates(cp[0], enclosing_stmt(c)) for c in calls):
        ctx.ok("C08.R2", f, cp[0], "copy precedes the transformation")
    else:
        ctx.bad("C08.R2", f, cp[0], "the deep copy does not precede every "
                "transformation")


def r3(ctx):
    before = len(ctx.findings)
    true_positions(ctx)
    for fnd in ctx.findings[before:]:
        fnd.rule = "C08.R3"
    for o in ctx.obligations:
        if o["rule"] == "C09.R2":
            o["rule"] = "C08.R3"
    # the descent itself
    f = ctx.method("Fiber", "updatePayloads")
    loops = [n for n in f.own_nodes() if isinstance(n, ast.For)
             and text(n.iter) == "self.payloads"]
    rec = [c for c in pat.calls(f, attr="updatePayloads")]
    ok = False
    for c in rec:
        d = pat.kwarg(c, "depth", 1)
        if d is not None and text(d).replace(" ", "") == "depth-1" and loops and \
                text(c.func.value) == text(loops[0].target):
            ok = True
    if ok:
        ctx.ok("C08.R3", f, rec[0], "descent recurses into every payload with depth - 1")
    else:
        ctx.bad("C08.R3", f, f.node, "updatePayloads no longer recurses into "
                "every payload of self.payloads with depth - 1",
                text_="updatePayloads descent")
    f = ctx.method("Fiber", "updatePayloadsBelow")
    okb = False
    fn_p = f.params[1] if len(f.params) > 1 else None
    for c in pat.calls(f, attr="updatePayloads"):
        if text(c.func.value) != f.params[0] or not c.args:
            continue
        d = pat.kwarg(c, "depth", 1)
        lam = pat.as_lambda(ctx, f, c.args[0])
        if not (lam is not None and len(lam[0]) == 3 and
                d is not None and text(d) == "depth"):
            continue
        body = lam[1]
        if isinstance(body, ast.Call) and text(body.func) == fn_p and body.args and \
                text(body.args[0]) == lam[0][2] and \
                [text(a) for a in body.args[1:]] == ["*" + (f.vararg or "?")] and \
                [k.arg for k in body.keywords] == [None] and \
                text(body.keywords[0].value) == (f.kwarg or "?"):
            okb = True
    if okb:
        ctx.ok("C08.R3", f, f.node, "callback applied to each payload at the "
               "requested depth", text_="def updatePayloadsBelow")
    else:
        ctx.bad("C08.R3", f, f.node, "updatePayloadsBelow no longer applies "
                "func(p, *args, **kwargs) to each payload at `depth`",
                text_="def updatePayloadsBelow")


def r4(ctx):
    # payload objects pass through the partition builders
    n = 0
    for key in ("core/fiber.py:Fiber.splitUniform._SplitterUniform.__iter__",
                "core/fiber.py:Fiber._splitNonUniform_iter._SplitterNonUniform_iter.__iter__"):
        f = ctx.func(key)
        loops = [x for x in f.own_nodes() if isinstance(x, ast.For)
                 and "__iter__" in text(x.iter)]
        ctx.require(loops, "C08.R4: element loop of %s not found" % key)
        pvar = text(loops[0].target.elts[1])
        cvar = text(loops[0].target.elts[0])
        # the per-partition lists: last two arguments of the zip(...) whose
        # elements are handed to build_elem
        LC = LP = None
        for lp2 in f.own_nodes():
            if not isinstance(lp2, ast.For):
                continue
            be = [c for c in _walk(lp2.body) if isinstance(c, ast.Call)
                  and text(c.func).endswith(".build_elem")]
            if not be or len(be[0].args) != 3:
                continue
            # the list each build_elem argument is an element of: a zip()
            # loop variable stands for its zip argument, `L[i]` for L
            z = lp2.iter
            tgt = lp2.target
            if isinstance(z, ast.Call) and text(z.func) == "enumerate" and z.args \
                    and isinstance(tgt, ast.Tuple) and len(tgt.elts) == 2:
                z, tgt = z.args[0], tgt.elts[1]
            via = {}
            if isinstance(z, ast.Call) and text(z.func) == "zip" and \
                    isinstance(tgt, ast.Tuple) and len(tgt.elts) == len(z.args):
                via = {text(t): text(a) for t, a in zip(tgt.elts, z.args)}
            elif isinstance(z, ast.Name) and isinstance(tgt, ast.Name):
                via = {tgt.id: z.id}

            def lst(a):
                if isinstance(a, ast.Name):
                    if text(a) in via:
                        return via[text(a)]
                    d = pat.single_def(ctx, f, a)
                    return lst(d) if d is not None else None
                if isinstance(a, ast.Subscript) and isinstance(a.value, ast.Name):
                    return text(a.value)
                return None
            LC, LP = lst(be[0].args[1]), lst(be[0].args[2])
        ctx.require(LC and LP, "C08.R4: per-partition lists of %s not found" % key)
        for c in _walk(loops[0].body):
            if isinstance(c, ast.Call) and isinstance(c.func, ast.Attribute) and \
                    c.func.attr == "append":
                tgt = text(c.func.value)
                if tgt.startswith(LP + "["):
                    n += 1
                    if c.args and text(c.args[0]) == pvar:
                        ctx.ok("C08.R4", f, c, "payload object passed through unchanged")
                    else:
                        ctx.bad("C08.R4", f, c, "the partition receives `%s` "
                                "instead of the element's own payload `%s`"
                                % (text(c.args[0]) if c.args else "", pvar))
                elif tgt.startswith(LC + "["):
                    if c.args and text(c.args[0]) == cvar:
                        ctx.ok("C08.R4", f, c, "coordinate passed through unchanged")
                    else:
                        ctx.bad("C08.R4", f, c, "the partition receives "
                                "coordinate `%s` instead of `%s`"
                                % (text(c.args[0]) if c.args else "", cvar))
    ctx.floor("C08.R4", n, 2, "partition payload appends")
    for key, start in (
            ("core/fiber.py:Fiber.splitUniform._SplitterUniform.build_elem", "part"),
            ("core/fiber.py:Fiber._splitNonUniform_iter._SplitterNonUniform_iter.build_elem",
             "self.splits[ind]")):
        f = ctx.func(key)
        cp = f.params[2] if len(f.params) > 2 else "coords"
        rel = [x for x in f.own_nodes() if isinstance(x, ast.Assign)
               and text(x.targets[0]) == cp]
        okrel = False
        if len(rel) == 1 and isinstance(rel[0].value, ast.ListComp) and \
                len(rel[0].value.generators) == 1:
            lc_ = rel[0].value
            g_ = lc_.generators[0]
            if isinstance(g_.target, ast.Name) and text(g_.iter) == cp and not g_.ifs \
                    and isinstance(lc_.elt, ast.BinOp) and isinstance(lc_.elt.op, ast.Sub) \
                    and text(lc_.elt.left) == g_.target.id and \
                    pat.inline(ctx, f, lc_.elt.right).replace(" ", "") == \
                    start.replace(" ", ""):
                okrel = True
        if okrel:
            ctx.ok("C08.R4", f, rel[0], "relative coordinates = coordinate - "
                   "partition start")
        else:
            ctx.bad("C08.R4", f, rel[0] if rel else f.node, "relative "
                    "coordinates are no longer `c - %s`" % start,
                    text_="%s relative" % f.name)
        rets = pat.returns(f)
        if rets and isinstance(rets[0].value, ast.Tuple) and \
                [text(e) for e in rets[0].value.elts][1:3] == ["coords", "payloads"]:
            ctx.ok("C08.R4", f, rets[0], "partition element carries coords and "
                   "payloads lists unchanged")
        else:
            ctx.bad("C08.R4", f, rets[0] if rets else f.node, "build_elem no "
                    "longer returns (start, coords, payloads, active_range)")
    f = ctx.method("Fiber", "_splitFiber")
    loops = [x for x in f.own_nodes() if isinstance(x, ast.For)]
    ctx.require(loops, "C08.R4: _splitFiber loop not found")
    names = [text(e) for e in loops[0].target.elts] if isinstance(
        loops[0].target, ast.Tuple) else []
    ctors = []
    for c in _walk(loops[0].body):
        if isinstance(c, ast.Call):
            c = pat.beta(ctx, f, c) or c        # a local one-line maker
            if text(c.func) == "Fiber":
                ctors.append(c)
    ok = len(names) == 4 and len(ctors) == 1
    if ok:
        part, coords, payloads, ar = names
        c = ctors[0]
        kw = {k.arg: text(k.value).replace(" ", "") for k in c.keywords}
        ok = kw.get("coords") == coords and kw.get("payloads") == payloads and \
            kw.get("active_range") == ar and kw.get("default") == "self.getDefault()" \
            and pat.inline(ctx, f, pat.kwarg(c, "shape")).replace(" ", "") == \
            "self.getRankAttrs().getShape()"
    if ok:
        ctx.ok("C08.R4", f, ctors[0], "lower fiber built from the splitter's "
               "lists unchanged, with the split fiber's default and shape")
        rv = [text(r.value) for r in pat.returns(f) if isinstance(r.value, ast.Name)]
        up = [c for c in _walk(loops[0].body) if isinstance(c, ast.Call)
              and rv and text(c.func) == rv[0] + ".coords.append"]
        if up and up[0].args and text(up[0].args[0]) == names[0]:
            ctx.ok("C08.R4", f, up[0], "upper coordinate is the partition start")
        else:
            ctx.bad("C08.R4", f, loops[0], "the upper level's coordinate is not "
                    "the partition start delivered by the splitter")
    else:
        ctx.bad("C08.R4", f, ctors[0] if ctors else loops[0], "_splitFiber no "
                "longer builds each lower fiber as Fiber(coords=coords, "
                "payloads=payloads, active_range=active_range, "
                "default=self.getDefault(), shape=<own shape>)",
                text_="_splitFiber lower")
    # the position-space splits reuse the coordinate-space partitioner
    for name in ("splitEqual", "splitUnEqual", "splitNonUniform"):
        f = ctx.method("Fiber", name)
        inner = [m for m in ctx.prog.funcs.values()
                 if m.outer is f and m.name == "__init__"]
        used = any(pat.calls(m, attr="_splitNonUniform_iter") for m in inner)
        if used:
            ctx.ok("C08.R4", f, f.node, "partitions built by the shared "
                   "_splitNonUniform_iter", text_="Fiber.%s partitioner" % name)
        else:
            ctx.bad("C08.R4", f, f.node, "Fiber.%s no longer builds its "
                    "partitions with _splitNonUniform_iter" % name,
                    text_="Fiber.%s partitioner" % name)


# -- R5: position-space splits count the elements the partitioner distributes --

def r5_position_space(ctx):
    """splitEqual / splitUnEqual choose the partition boundaries by counting
    elements, then hand the boundaries to _splitNonUniform_iter, which
    distributes the elements of the fiber's default (empties-skipping)
    iteration.  Both must enumerate the same stream: counting stored
    positions (raw coords / payloads lists) while distributing non-empty
    elements makes chunks short whenever the fiber stores an explicit
    default or an empty sub-fiber."""
    from ..sites import iter_kind, RAW, FILTERED
    dist = ctx.func("core/fiber.py:Fiber._splitNonUniform_iter."
                    "_SplitterNonUniform_iter.__iter__")
    dl = [x for x in dist.own_nodes() if isinstance(x, ast.For)
          and iter_kind(ctx, dist, x.iter)[0] is not None
          and "fiber" in text(x.iter)]
    ctx.require(dl, "C08.R5: distributing loop of _splitNonUniform_iter not found")
    dkind = iter_kind(ctx, dist, dl[0].iter)[0]
    n = 0
    for name in ("splitEqual", "splitUnEqual"):
        f = ctx.method("Fiber", name)
        inits = [m for m in ctx.prog.funcs.values()
                 if m.outer is f and m.name == "__init__"]
        ctx.require(inits, "C08.R5: splitter class of Fiber.%s not found" % name)
        m = inits[0]
        fp = m.params[1] if len(m.params) > 1 else None
        loops = [x for x in m.own_nodes() if isinstance(x, (ast.For, ast.comprehension))
                 and fp and any(isinstance(y, ast.Name) and y.id == fp
                                for y in ast.walk(x.iter))]
        ctx.require(loops, "C08.R5: boundary loop of Fiber.%s not found" % name)
        for lp in loops:
            n += 1
            kind, base = iter_kind(ctx, m, lp.iter)
            if kind is None:
                raise AnalysisError("C08.R5: cannot classify the stream `%s` "
                                    "Fiber.%s counts" % (text(lp.iter), name))
            it_txt = text(lp.iter)
            if isinstance(lp, ast.comprehension):
                lp = enclosing_stmt(lp)
            if kind == dkind:
                ctx.ok("C08.R5", m, lp, "boundaries counted over the same %s "
                       "stream the partitioner distributes" % kind,
                       text_="%s boundary stream" % name)
            else:
                ctx.bad("C08.R5", m, lp, "Fiber.%s counts elements over the %s "
                        "stream `%s` but _splitNonUniform_iter distributes the "
                        "%s stream `%s`: with a stored explicit default / empty "
                        "sub-fiber the chunks no longer hold the stated number "
                        "of elements and boundaries land on the wrong elements"
                        % (name, kind, it_txt, dkind, text(dl[0].iter)),
                        text_="%s boundary stream" % name)
    ctx.floor("C08.R5", n, 2, "position-space boundary loops")


# -- R6: half-open interval discipline in the partitioners -------------------------

def _role(ctx, f, e, env, depth=0):
    """'S' (inclusive start), 'E' (exclusive end), 'C' (coordinate) or None."""
    if depth > 5 or e is None:
        return None
    t = text(e).replace(" ", "")
    if t in env:
        return env[t]
    if isinstance(e, ast.Name):
        v = pat.single_def(ctx, f, e)
        if v is not None:
            return _role(ctx, f, v, env, depth + 1)
        return None
    if isinstance(e, ast.Call) and isinstance(e.func, ast.Attribute) and \
            e.func.attr in ("sub_pre_halo", "add_post_halo") and len(e.args) == 1:
        return _role(ctx, f, e.args[0], env, depth + 1)
    if isinstance(e, ast.BinOp) and isinstance(e.op, (ast.Add, ast.Sub)):
        rt = pat.inline(ctx, f, e.right).replace(" ", "")
        if rt in ("self.pre_halo", "self.post_halo"):
            return _role(ctx, f, e.left, env, depth + 1)        # a halo shift
        if rt == "self.step" and isinstance(e.op, ast.Add) and \
                _role(ctx, f, e.left, env, depth + 1) == "S":
            return "E"                                          # start + width
        return None
    if isinstance(e, ast.Subscript) and text(e.value).replace(" ", "") == "self.splits":
        idx = e.slice
        if isinstance(idx, ast.Name):
            return "S"
        if isinstance(idx, ast.BinOp) and isinstance(idx.op, ast.Add) and \
                text(idx.right) == "1" and isinstance(idx.left, ast.Name):
            return "E"
        return None
    if isinstance(e, ast.Subscript) and isinstance(e.value, ast.Call) and \
            isinstance(e.value.func, ast.Attribute) and e.value.func.attr == "getActive":
        return {"0": "S", "1": "E"}.get(text(e.slice))
    if isinstance(e, ast.BinOp) and isinstance(e.op, ast.Mult) and \
            pat.inline(ctx, f, e.right).replace(" ", "") == "self.step" and \
            isinstance(e.left, ast.BinOp) and isinstance(e.left.op, ast.FloorDiv) and \
            pat.inline(ctx, f, e.left.right).replace(" ", "") == "self.step":
        return "S"                      # floor to a multiple of the step
    return None


ALLOWED = {("S", "E"): {("<", "S", "E"), ("<=", "E", "S")},
           ("C", "S"): {("<", "C", "S"), ("<=", "S", "C")},
           ("C", "E"): {("<", "C", "E"), ("<=", "E", "C")}}
MEANING = {("<", "E", "S"): "`end < start` misses end == start (the ranges are "
                            "already disjoint then)",
           ("<=", "S", "E"): "`start <= end` also holds when start == end (an "
                             "empty overlap)",
           ("<=", "C", "S"): "`coord <= start` excludes the start itself, which "
                             "belongs to the range",
           ("<", "S", "C"): "`start < coord` excludes the start itself, which "
                            "belongs to the range",
           ("<", "E", "C"): "`end < coord` lets coord == end through, which is "
                            "outside the range",
           ("<=", "C", "E"): "`coord <= end` includes the end, which is outside "
                             "the range"}


def r6_intervals(ctx):
    """Active ranges and partitions are half-open [start, end).  Every
    comparison between an inclusive start, an exclusive end and a coordinate
    in the two partitioners must be one of the forms that are exact for
    half-open intervals; a strictness flip is an off-by-one at a boundary
    (a spurious partition starting at the active end, a coordinate equal to
    a boundary assigned to the wrong partition, ...)."""
    n = 0
    for key in ("core/fiber.py:Fiber.splitUniform._SplitterUniform.__iter__",
                "core/fiber.py:Fiber._splitNonUniform_iter._SplitterNonUniform_iter.__iter__"):
        f = ctx.func(key)
        env = {}
        for a in f.own_nodes():
            if isinstance(a, ast.Assign) and isinstance(a.targets[0], ast.Tuple) and \
                    len(a.targets[0].elts) == 2 and isinstance(a.value, ast.Call) and \
                    isinstance(a.value.func, ast.Attribute) and \
                    a.value.func.attr == "getActive":
                env[text(a.targets[0].elts[0])] = "S"
                env[text(a.targets[0].elts[1])] = "E"
            if isinstance(a, ast.For) and isinstance(a.target, ast.Tuple) and \
                    "__iter__" in text(a.iter):
                env[text(a.target.elts[0])] = "C"
        for cmp_ in f.own_nodes():
            if not (isinstance(cmp_, ast.Compare) and len(cmp_.ops) == 1 and
                    isinstance(cmp_.ops[0], (ast.Lt, ast.LtE))):
                continue
            l, r = cmp_.left, cmp_.comparators[0]
            rl, rr = _role(ctx, f, l, env), _role(ctx, f, r, env)
            if not rl or not rr or rl == rr:
                continue
            op = "<" if isinstance(cmp_.ops[0], ast.Lt) else "<="
            pair = tuple(sorted((rl, rr), key="CSE".index))
            form = (op, rl, rr)
            n += 1
            if form in ALLOWED[pair]:
                ctx.ok("C08.R6", f, cmp_, "half-open interval test %s %s %s"
                       % (rl, op, rr))
            else:
                ctx.bad("C08.R6", f, cmp_, "`%s` compares %s with %s as %s %s %s: "
                        "%s -- an off-by-one at a partition / active-range "
                        "boundary" % (text(cmp_), {"S": "an inclusive start",
                                                   "E": "an exclusive end",
                                                   "C": "a coordinate"}[rl],
                                      {"S": "an inclusive start", "E": "an exclusive end",
                                       "C": "a coordinate"}[rr], rl, op, rr,
                                      MEANING.get(form, "not exact for [start, end)")))
    ctx.floor("C08.R6", n, 8, "interval comparisons in the partitioners")


# -- R7: partitions are clipped to the active range of the fiber being split -----------

def r7_clip(ctx):
    """build_elem returns (start, coords, payloads, (max(start, A0), min(end,
    A1))).  (A0, A1) must be the active range of the splitter's own fiber
    (`self.fiber`): the splitter class is instantiated per sub-fiber when the
    split happens at depth > 0, so a range captured from the enclosing method
    belongs to the root and is stale for every sub-fiber."""
    for key in ("core/fiber.py:Fiber.splitUniform._SplitterUniform.build_elem",
                "core/fiber.py:Fiber._splitNonUniform_iter._SplitterNonUniform_iter.build_elem"):
        f = ctx.func(key)
        rets = pat.returns(f)
        ok = False
        why = "no (start, end) pair returned"
        if rets and isinstance(rets[0].value, ast.Tuple) and len(rets[0].value.elts) == 4:
            ar = rets[0].value.elts[3]
            if isinstance(ar, ast.Name):
                ar = pat.single_def(ctx, f, ar)
            if isinstance(ar, ast.Tuple) and len(ar.elts) == 2:
                parts = []
                for e, fn, idx in ((ar.elts[0], "max", "0"), (ar.elts[1], "min", "1")):
                    v = pat.single_def(ctx, f, e) if isinstance(e, ast.Name) else e
                    if isinstance(v, ast.Call) and text(v.func) == fn and len(v.args) == 2:
                        srcs = [pat.inline_x(ctx, f, a).replace(" ", "") for a in v.args]
                        parts.append("self.fiber.getActive()[%s]" % idx in srcs)
                        if not parts[-1]:
                            why = "`%s` does not clip to self.fiber.getActive()[%s]" % (text(v), idx)
                    else:
                        parts.append(False)
                        why = "`%s` is not %s(.., self.fiber.getActive()[%s])" % (text(e), fn, idx)
                ok = all(parts)
        if ok:
            ctx.ok("C08.R7", f, rets[0], "partition active range clipped to the "
                   "split fiber's own active range", text_="%s clip" % f.qual.split(".")[-2])
        else:
            ctx.bad("C08.R7", f, rets[0] if rets else f.node, "the partition's "
                    "active range is not its interval clipped to the active "
                    "range of the fiber being split (%s): for a split below "
                    "the root the range belongs to another fiber, so "
                    "partitions of partitions no longer tile the original"
                    % why, text_="%s clip" % f.qual.split(".")[-2])
