"""C10 -- value-returning operations never disturb or alias their operands;
read-only operations leave the tree and the rank lists untouched.

Decided with the interprocedural effect / alias summaries of sa/effects.py
(which quantify over all inputs): R1 observers have no tree/rank write
effect on anything rooted at a parameter, R2 value-returning operations
write only fresh objects, R3 their results are fresh and hold no
operand-rooted mutable object, R4 the copy hooks are the pickle round
trip, R5 rank defaults are handed out fresh.
"""

import ast

from ..model import text, AnalysisError
from ..cfg import cfg_of, guards, enclosing_stmt, atomic_guards
from ..effects import is_tree_loc, STATS_LOCS, FRESH, strip
from .. import pat

EXPLANATION = (
    "Effect and escape analysis over the resolved call graph (including "
    "operator dispatch, lazy-iterator edges, callbacks resolved through "
    "their call sites and constant propagation of the addtorank / "
    "preserve_owner flags): every observer in the property's read-only "
    "family must have an empty tree/rank write effect on objects rooted at "
    "its parameters; every value-returning operation must write only "
    "objects it allocated (or deep-copied) and return a fresh object that "
    "holds nothing rooted at an operand; the six __deepcopy__ hooks are the "
    "pickle round trip and no class defines a state hook that could drop or "
    "alias state; RankAttrs.getDefault hands out a fresh box; (R6) an "
    "element of a getter result whose elements are the stored objects (rank "
    "ids) is never edited in place unless a fresh store dominates the edit.")
RULE = ("one obligation per (observer x write-effect query), per "
        "(value-returning operation x {writes, result roots, held roots}), "
        "per copy hook and per getDefault return path")

V_FIBER = ["splitUniform", "splitNonUniform", "splitEqual", "splitUnEqual",
           "__truediv__", "__floordiv__", "swapRanks", "flattenRanks",
           "mergeRanks", "unflattenRanks", "__add__", "__radd__", "__mul__",
           "__rmul__", "copy", "__deepcopy__"]
V_TENSOR = ["splitUniform", "splitNonUniform", "splitEqual", "splitUnEqual",
            "__truediv__", "__floordiv__", "swapRanks", "flattenRanks",
            "mergeRanks", "unflattenRanks", "swizzleRanks", "updateCoords",
            "updatePayloads", "__deepcopy__"]
O_FIBER = ["getPayload", "getPosition", "__getitem__", "__iter__",
           "iterOccupancy", "iterShape", "iterActive", "iterActiveShape",
           "iterRange", "iterRangeShape", "coiterShape", "coiterActiveShape",
           "coiterRangeShape", "__and__", "__or__", "__xor__", "__sub__",
           "intersection", "union", "__eq__", "isEmpty", "countValues",
           "__len__", "minCoord", "maxCoord", "getShape", "estimateShape",
           "getDepth", "getRankIds", "getDefault", "getActive", "__str__",
           "__repr__", "__format__", "print", "fiber2dict", "dump",
           "uncompress", "nonEmpty", "getCoords", "getPayloads", "isLazy",
           "getOwner", "getRankAttrs", "__reversed__", "project", "prune"]
O_TENSOR = ["getPayload", "__eq__", "countValues", "getShape", "getDepth",
            "getRankIds", "getDefault", "getFormat", "__str__", "__repr__",
            "__format__", "print", "dump", "getRoot", "getName", "getColor",
            "isMutable", "__iter__", "__getitem__"]
O_OTHER = [("Rank", "__str__"), ("Rank", "__repr__"), ("Rank", "getShape"),
           ("Rank", "getFibers"), ("Rank", "getRankIds"), ("Rank", "getDefault"),
           ("RankAttrs", "getDefault"), ("RankAttrs", "getShape"),
           ("Format", "getFiber"), ("Format", "getRank"), ("Format", "getRoot"),
           ("Format", "getSubTree"), ("Format", "getTensor"),
           ("TensorImage", "__init__"), ("TreeImage", "__init__"),
           ("UncompressedImage", "__init__"),
           ("Payload", "isEmpty"), ("Payload", "get"), ("Payload", "contains"),
           ("Payload", "__eq__"), ("Payload", "__str__"), ("Payload", "__format__")]
ALLOWED_PREFIX = ("Metrics.", "ImageUtils.", "FS.")
# observers that may write their *own* object: the renderers initialise the
# image object under construction (self), never the tensor they are given
SELF_INIT = {("TensorImage", "__init__"), ("TreeImage", "__init__"),
             ("UncompressedImage", "__init__")}


def run(ctx):
    eff = ctx.eff
    ctx.guard(r1_observers, eff)
    ctx.guard(r2_r3_value_returning, eff)
    ctx.guard(r4_copy_hooks)
    ctx.guard(r5_defaults)
    ctx.guard(r6_getter_elements)
    ctx.assume("user callbacks (trans_fn, merge_fn, func of updateCoords/"
               "updatePayloads, loop bodies) are opaque: their own effects are "
               "excluded")
    ctx.assume("pixel identity of two renderings depends on PIL and is not "
               "decided; ImageUtils colour memoisation is allowed state")
    ctx.extra["fixpoint_evaluations"] = eff.evals


def _operand_roots(f):
    return {("p", n) for n in f.all_param_names()}


def _tree_writes(eff, f, roots):
    out = []
    for loc, r, cond, w in eff.writes(f, tree_only=False):
        if r not in roots:
            continue
        if loc in STATS_LOCS or loc.startswith(ALLOWED_PREFIX):
            continue
        if not is_tree_loc(loc):
            continue
        out.append((loc, r, cond, w))
    return out


def _report_writes(ctx, rule, f, ws, what):
    """One finding per distinct writing construct (deepest frame)."""
    seen = {}
    for loc, r, cond, w in ws:
        site_key, site_text = w.site()
        k = (site_key, site_text)
        seen.setdefault(k, []).append((loc, r, cond, w))
    for (site_key, site_text), lst in sorted(seen.items()):
        certain = [x for x in lst if not x[3].uncertain]
        if not certain:
            ctx.errors.append(
                "%s: an unresolved receiver decides the verdict for %s: %s"
                % (rule, f.key, lst[0][3].render()))
            continue
        loc, r, cond, w = certain[0]
        locs = sorted({x[0] for x in certain})
        condtxt = ""
        if cond:
            condtxt = " (when %s)" % " and ".join(
                "%s%s is %s" % ("" if k == "truthy" else "", n,
                                ("None" if p else "not None") if k == "none"
                                else ("true" if p else "false"))
                for n, k, p in sorted(cond))
        ctx.bad(rule, f, f.node,
                "%s writes %s of an object rooted at parameter `%s`%s via %s"
                % (what, ", ".join(locs), r[1], condtxt, w.render()),
                text_="%s -> %s: %s" % (f.name, site_key.split(":")[-1], site_text),
                detail={"locations": locs, "witness": w.render()})


def r1_observers(ctx, eff):
    prog = ctx.prog
    obs = [("Fiber", m) for m in O_FIBER] + [("Tensor", m) for m in O_TENSOR] + O_OTHER
    n = 0
    for cname, mname in obs:
        f = prog.maybe_method(cname, mname)
        if f is None:
            raise AnalysisError("C10.R1: observer %s.%s vanished" % (cname, mname))
        ctx.consulted.add(f.module.rel)
        roots = _operand_roots(f)
        if (cname, mname) in SELF_INIT and f.params:
            roots.discard(("p", f.params[0]))
        ws = _tree_writes(eff, f, roots)
        ws = [x for x in ws if not _dead_lazy_setroot(ctx, x[3])]
        n += 1
        if ws:
            _report_writes(ctx, "C10.R1", f, ws,
                           "read-only operation %s.%s" % (cname, mname))
        else:
            ctx.ok("C10.R1", f, f.node, "no tree/rank write effect on any "
                   "parameter-rooted object (transitively, incl. lazy iteration)",
                   text_="%s.%s" % (cname, mname))
    ctx.floor("C10.R1", n, 80, "observers")


def _dead_lazy_setroot(ctx, w):
    """Frozen exception: the renderers call setRoot(Fiber.fromLazy(root))
    under `isinstance(root, Fiber) and root.isLazy()`; a tensor root is never
    lazy (setRoot -> _addFiber -> getPayloads() asserts eagerness), so the
    write is dead.  Valid only while that guard and that assert exist."""
    for key, line, txt in w.frames:
        if "setRoot(Fiber.fromLazy(" in txt.replace(" ", "") and \
                key.startswith("graphics/"):
            f = ctx.prog.maybe_func(key)
            if f is None:
                return False
            guarded = False
            for n in f.own_nodes():
                if isinstance(n, ast.Call) and text(n.func).endswith("setRoot") \
                        and n.args and "fromLazy" in text(n.args[0]):
                    gs = [text(t).replace(" ", "") for t, pol in
                          atomic_guards(enclosing_stmt(n)) if pol]
                    if any(g.endswith(".isLazy()") for g in gs):
                        guarded = True
            gp = ctx.prog.method("Fiber", "getPayloads")
            asserts = any(isinstance(a, ast.Assert) and
                          "isLazy" in text(a.test) for a in gp.own_nodes())
            af = ctx.prog.method("Tensor", "_addFiber")
            uses = any(isinstance(c, ast.Call) and text(c.func).endswith("getPayloads")
                       for c in af.own_nodes())
            return guarded and asserts and uses
    return False


def r2_r3_value_returning(ctx, eff):
    prog = ctx.prog
    fam = [("Fiber", m) for m in V_FIBER] + [("Tensor", m) for m in V_TENSOR]
    n = 0
    for cname, mname in fam:
        f = prog.maybe_method(cname, mname)
        if f is None:
            raise AnalysisError("C10.R2: operation %s.%s vanished" % (cname, mname))
        ctx.consulted.add(f.module.rel)
        n += 1
        operands = {("p", f.params[0])}
        if mname in ("__add__", "__radd__", "__mul__", "__rmul__") and len(f.params) > 1:
            operands.add(("p", f.params[1]))
        ws = _tree_writes(eff, f, operands)
        if (cname, mname) == ("Fiber", "copy"):
            # detach / re-attach pair, restored before returning (C02.R4)
            ws = [x for x in ws if not (x[0] == "Fiber._owner" and
                                        ("preserve_owner", "truthy", False) in x[2])]
        if ws:
            _report_writes(ctx, "C10.R2", f, ws,
                           "value-returning operation %s.%s" % (cname, mname))
        else:
            ctx.ok("C10.R2", f, f.node, "every tree/rank write is to an object "
                   "allocated or deep-copied by the operation",
                   text_="%s.%s" % (cname, mname))
        s = eff.sum[f]
        bad_r = {strip(r) for r in s.rets} & operands
        rets = pat.returns(f)
        anchor = rets[-1] if rets else f.node
        if mname in ("__radd__", "__rmul__"):
            pass
        if bad_r:
            ctx.bad("C10.R3", f, anchor,
                    "%s.%s may return (part of) its operand `%s` itself instead "
                    "of a new object: mutating the result mutates the operand"
                    % (cname, mname, sorted(bad_r)[0][1]),
                    text_="%s returns operand" % f.name)
        else:
            ctx.ok("C10.R3", f, anchor, "result is a fresh object",
                   text_="%s.%s result identity" % (cname, mname))
        held = {strip(r) for r in s.hrets} & operands
        if held:
            site = _sharing_site(ctx, f)
            ctx.bad("C10.R3", f, site[0],
                    "the result of %s.%s holds objects rooted at its operand "
                    "`%s` without a copy barrier (deepcopy / pickle round trip "
                    "/ re-boxing): payload boxes or sub-fibers are shared, so "
                    "an update through the result changes the operand and vice "
                    "versa" % (cname, mname, sorted(held)[0][1]),
                    text_=site[1])
        else:
            ctx.ok("C10.R3", f, anchor, "result holds nothing rooted at an operand",
                   text_="%s.%s result contents" % (cname, mname))
    ctx.floor("C10.R2", n, 30, "value-returning operations")


def _sharing_site(ctx, f):
    """Best-effort construct that puts an operand-rooted object into the
    result: an append / constructor argument fed from the operand's
    payload list."""
    for n in f.own_nodes():
        if isinstance(n, ast.Call) and isinstance(n.func, ast.Attribute) and \
                n.func.attr in ("append", "insert") and n.args:
            a = n.args[-1]
            if isinstance(a, ast.Name):
                facts, _ = ctx.ty.facts_at(f, a.id, a)
                for fa in facts:
                    if fa.kind == "elem" and "payloads" in text(fa.value):
                        return n, None
    rets = pat.returns(f)
    return (rets[-1] if rets else f.node), "%s result" % f.name


def r4_copy_hooks(ctx):
    prog = ctx.prog
    n = 0
    for cname in ("Fiber", "Tensor", "Rank", "RankAttrs", "Payload", "CoordPayload"):
        ci = prog.cls(cname)
        m = ci.methods.get("__deepcopy__")
        if m is None:
            ctx.info("C10.R4: %s has no __deepcopy__ (default deep copy)" % cname)
        else:
            n += 1
            rets = pat.returns(m)
            if len(rets) == 1 and text(rets[0].value).replace(" ", "") == \
                    "pickle.loads(pickle.dumps(self))":
                ctx.ok("C10.R4", m, rets[0], "pickle round trip")
            else:
                ctx.bad("C10.R4", m, m.node, "%s.__deepcopy__ is not "
                        "pickle.loads(pickle.dumps(self)): a deep copy may "
                        "share or drop state" % cname,
                        text_="def __deepcopy__(self, memo)")
        for hook in ("__getstate__", "__setstate__", "__reduce__",
                     "__reduce_ex__", "__copy__", "__getnewargs__"):
            if hook in ci.methods:
                ctx.bad("C10.R4", ci.methods[hook], ci.methods[hook].node,
                        "%s defines %s, which customises what the pickle-based "
                        "deep copy carries over (state can be dropped or "
                        "aliased)" % (cname, hook), text_="def %s" % hook)
            else:
                ctx.ok("C10.R4", ci, ci.node, "no %s hook" % hook,
                       text_="class %s: %s absent" % (cname, hook))
    ctx.floor("C10.R4", n, 6, "__deepcopy__ hooks")
    # setRoot copies a root that already has an owner before adopting it
    f = ctx.method("Tensor", "setRoot")
    store = [s for s in f.own_nodes() if isinstance(s, ast.Assign) and
             text(s.targets[0]) == "self._root"]
    ctx.require(store, "C10.R4: Tensor.setRoot no longer assigns self._root")
    P = f.params[1] if len(f.params) > 1 else None
    ctx.require(P, "C10.R4: Tensor.setRoot has no root parameter")
    from ..cfg import atomic_guards as _ag
    unowned = {pat.A("is", P + ".getOwner()", "None"),
               pat.T(P + ".getOwner()", False)}
    owned = {pat.A("is not", P + ".getOwner()", "None"), pat.T(P + ".getOwner()", True)}

    def is_copy(v):
        t = pat.inline(ctx, f, v).replace(" ", "")
        return ("deepcopy(" in t or "pickle.loads(" in t) and P in t

    def adopted_ok(value, stmt):
        """`value` (bound / stored at `stmt`) is a copy, or the caller's
        object on a path where it has no owner."""
        if is_copy(value):
            return True
        if pat.inline(ctx, f, value).replace(" ", "") == P:
            gs = {pat.catom(ctx, f, t, pol, False) for t, pol in _ag(stmt)}
            return bool(gs & unowned)
        return False

    ok = True
    for st in store:
        sv = st.value
        if not isinstance(sv, ast.Name):
            ok = ok and adopted_ok(sv, st)
            continue
        facts, is_param = ctx.ty.facts_at(f, sv.id, sv)
        for fa in facts:
            if fa.kind != "expr" or fa.path or not adopted_ok(fa.value, fa.stmt):
                ok = False
        if is_param:
            # the parameter itself reaches the store: every path on which it
            # is owned must have rebound it to a copy first
            dom = bool({pat.catom(ctx, f, t, pol, False) for t, pol in _ag(st)} & unowned)
            for n_ in f.own_nodes():
                if isinstance(n_, ast.If) and cfg_of(f).dominates(n_, st):
                    for pol, blk in ((True, n_.body), (False, n_.orelse)):
                        if pat.catoms(ctx, f, n_.test, pol, False) & owned and any(
                                isinstance(b, ast.Assign) and text(b.targets[0]) == sv.id
                                and is_copy(b.value) for b in blk):
                            dom = True
            ok = ok and dom
    if ok:
        ctx.ok("C10.R4", f, store[0], "an already-owned root is deep-copied "
               "before it is adopted")
    else:
        ctx.bad("C10.R4", f, store[0], "Tensor.setRoot adopts a root that "
                "already belongs to another tensor without copying it: the two "
                "tensors then share fibers (Tensor.fromFiber(ids, t.getRoot()) "
                "aliases t)")


def r5_defaults(ctx):
    f = ctx.method("RankAttrs", "getDefault")
    rets = pat.returns(f)
    ctx.require(rets, "C10.R5: RankAttrs.getDefault has no return")
    for r in rets:
        v = r.value
        if isinstance(v, ast.Name):
            d = pat.single_def(ctx, f, v)
            v = d if d is not None else v
        fresh = isinstance(v, ast.Call) and text(v.func) in (
            "Payload", "deepcopy", "copy.deepcopy", "Payload.maybe_box")
        if fresh and text(v.func) == "Payload.maybe_box":
            # maybe_box(x) returns x itself for non-scalars
            fresh = False
        if fresh:
            ctx.ok("C10.R5", f, r, "default handed out as a new box / deep copy")
        else:
            ctx.bad("C10.R5", f, r, "RankAttrs.getDefault returns `%s`, not a "
                    "new box: every absent read and every inserted default "
                    "then shares one Payload object with the rank's stored "
                    "default, so `ref += v` on one element changes the default "
                    "of the whole rank" % text(v))


# -- R6: elements of getter results are not edited in place --------------------

_EDIT = {"append", "extend", "insert", "pop", "remove", "clear", "sort",
         "reverse", "update", "add"}


def _getter_aliases_elements(ctx, f, call):
    """True when `call` is `<param>.getX()` whose (single) return builds a
    list / tuple from stored attributes (`[r.getId() for r in self.ranks]`,
    `self._x`): the container may be new, its elements are the stored ones."""
    tg = ctx.ty.resolve(f, call)
    if tg.kind not in ("resolved", "byname") or len(tg.funcs) != 1:
        return None
    callee = tg.funcs[0]
    rets = pat.returns(callee)
    if len(rets) != 1 or rets[0].value is None:
        return None
    v = rets[0].value
    if isinstance(v, (ast.ListComp, ast.GeneratorExp)):
        e = v.elt
        if isinstance(e, ast.Call) and isinstance(e.func, ast.Attribute) and not e.args:
            # element = accessor call: does the accessor return a stored field?
            if _returns_stored(ctx, callee, e):
                return callee
        if isinstance(e, ast.Attribute):
            return callee
    return None


def _returns_stored(ctx, f, call, depth=0):
    """The no-argument accessor call returns a stored attribute (possibly
    through further delegating accessors)."""
    if depth > 4:
        return False
    for g in ctx.ty.resolve(f, call).funcs:
        r2 = pat.returns(g)
        if len(r2) != 1 or r2[0].value is None:
            continue
        v = r2[0].value
        if isinstance(v, ast.Attribute) and isinstance(v.value, ast.Name) and \
                g.params and v.value.id == g.params[0]:
            return True
        if isinstance(v, ast.Call) and isinstance(v.func, ast.Attribute) and \
                not v.args and _returns_stored(ctx, g, v, depth + 1):
            return True
    return False


def _fresh_store_dominates(f, node, base):
    """`X[i] = <new container>` dominates the edit of X[i] (same index text)."""
    g = cfg_of(f, assert_edges=False)
    st = enclosing_stmt(node)
    want = text(base)
    for a in f.own_nodes():
        if isinstance(a, ast.Assign) and len(a.targets) == 1 and \
                text(a.targets[0]) == want and a is not st:
            v = a.value
            fresh = isinstance(v, (ast.List, ast.ListComp, ast.Dict, ast.Set)) or \
                (isinstance(v, ast.Call) and text(v.func) in (
                    "list", "dict", "set", "copy.deepcopy", "deepcopy", "copy.copy"))
            if fresh and g.dominates(a, st):
                return True
    return False


def r6_getter_elements(ctx):
    n = 0
    for f in ctx.prog.funcs.values():
        if not f.module.rel.startswith("core/") or f.cls is None or \
                f.cls.name not in ("Tensor", "Fiber", "Rank"):
            continue
        params = set(f.all_param_names())
        for node in f.own_nodes():
            base = None
            if isinstance(node, ast.Call) and isinstance(node.func, ast.Attribute) \
                    and node.func.attr in _EDIT and isinstance(node.func.value, ast.Subscript):
                base = node.func.value
            elif isinstance(node, ast.AugAssign) and isinstance(node.target, ast.Subscript) \
                    and isinstance(node.op, (ast.Add, ast.BitOr)):
                base = node.target
            elif isinstance(node, (ast.Assign, ast.Delete)):
                for t in node.targets:
                    if isinstance(t, ast.Subscript) and isinstance(t.value, ast.Subscript):
                        base = t.value
            if base is None or not isinstance(base.value, ast.Name):
                continue
            x = base.value
            if _fresh_store_dominates(f, node, base):
                continue
            facts, is_param = ctx.ty.facts_at(f, x.id, x)
            for fa in facts:
                v = fa.value if fa.kind == "expr" else None
                if isinstance(v, ast.Call) and isinstance(v.func, ast.Attribute) and \
                        isinstance(v.func.value, ast.Name) and v.func.value.id in params:
                    callee = _getter_aliases_elements(ctx, f, v)
                    if callee is None:
                        continue
                    n += 1
                    ctx.bad("C10.R6", f, node,
                            "`%s` edits in place an element of `%s = %s`: %s "
                            "builds a new list but its elements are the stored "
                            "objects themselves (a rank id that is already a "
                            "list is shared), so the operand is modified and "
                            "shares the object with the result -- copy first "
                            "(copy.deepcopy)" % (text(node)[:60], x.id, text(v),
                                                 callee.qual))
    # positive control: the flatten helper edits a *deep copy* of the rank ids
    f = ctx.method("Tensor", "_flattenRankIdsShape")
    cp = [a for a in f.own_nodes() if isinstance(a, ast.Assign)
          and isinstance(a.value, ast.Call)
          and text(a.value.func) in ("copy.deepcopy", "deepcopy")
          and a.value.args and isinstance(a.value.args[0], ast.Call)
          and text(a.value.args[0].func).endswith("getRankIds")]
    if cp:
        ctx.ok("C10.R6", f, cp[0], "rank-id lists are deep-copied before the "
               "flattened id is assembled in place")
    elif not n:
        raise AnalysisError("C10.R6: _flattenRankIdsShape neither deep-copies "
                            "the rank ids nor was seen editing them in place")
