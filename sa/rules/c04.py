"""C04 -- co-iteration operators compute exactly their coordinate-set truth
tables (the four two-operand operators; n-ary folds structurally).

Oracle: the two-finger schema M(op).  Streams A, B strictly increasing,
`next` returns (None, None) at exhaustion.

    (ha,pa) := next(A); (hb,pb) := next(B)
    while ha != None and hb != None:
        ha == hb : emit_eq(op)    ; advance A and B
        ha <  hb : emit_Aonly(op) ; advance A only
        ha >  hb : emit_Bonly(op) ; advance B only
    while ha != None: emit_Aonly(op) ; advance A        (tail A)
    while hb != None: emit_Bonly(op) ; advance B        (tail B)

              emit_eq  emit_Aonly  emit_Bonly  tail A  tail B
      a & b     yes       no          no         -       -
      a | b     yes       yes         yes        yes     yes
      a ^ b     no        yes         yes        yes     yes
      a - b     no        yes         no         yes     -

Invariant: every coordinate smaller than min(ha, hb) has been emitted iff
the truth table says so, ascending, once.  Each branch re-establishes it
given strict monotonicity (the equal branch consumes the coordinate on both
sides, the `<` branch consumes a coordinate that B cannot contain any more
because hb > ha and B is increasing, symmetrically for `>`); the tails
finish the longer stream.  Hence a loop that is an instance of M(op)
computes exactly the set operation; this module decides instance-of.
"""

import ast

from ..model import text, AnalysisError
from ..cfg import cfg_of, guards, atomic_guards, enclosing_stmt, is_within, block_always_leaves, parent_block
from ..effects import is_tree_loc, STATS_LOCS
from .. import pat

EXPLANATION = (
    "Each of Fiber.__and__/__or__/__xor__/__sub__ is recognised as an "
    "instance of the proven two-finger merge schema with the operator's "
    "truth table: one merge loop over heads obtained by _get_next from the "
    "two operands' default iterations; exactly the three branches ==, <, >; "
    "each branch advances exactly the finger(s) the schema prescribes "
    "(for & through the arity-dependent succ_next table); a yield is "
    "present in exactly the branches/tails the truth table marks; the "
    "emitted coordinate, payload slots (the operand's own payload variable "
    "for a present side, a default freshly created from the absent side's "
    "fiber, unregistered) and mask literal are those of the schema; the "
    "tails drain the right side; the operands are not written (effect "
    "summary); the n-ary forms fold the binary operators left to right. "
    "Not decided: tuple un-nesting in intersection()/union(), "
    "leader-follower lookups.  (R7) the ANY-padded projection of the "
    "shorter-arity operand has, as a symbolic tuple length over the two "
    "arities, exactly the longer operand's arity in the int and in the "
    "tuple case.")
RULE = ("per operator: recognition, three-way split, per-branch advance set, "
        "per-branch/tail emission, emitted coordinate/slots/mask, tails, "
        "operand purity; plus the n-ary fold shape; distinct = distinct "
        "(operator, branch, clause)")

TABLE = {   # op: (eq, A-only, B-only, tailA, tailB)
    "__and__": (True, False, False, False, False),
    "__or__": (True, True, True, True, True),
    "__xor__": (False, True, True, True, True),
    "__sub__": (False, True, False, True, False),
}
MASKED = {"__or__", "__xor__"}
ALLOWED_PREFIX = ("Metrics.", "FS.", "ImageUtils.")


def run(ctx):
    for op in TABLE:
        ctx.guard(check_operator, op)
    ctx.guard(get_next)
    ctx.guard(nary)
    ctx.guard(purity)
    ctx.assume("operand streams are strictly increasing (C01 + the "
               "`assert self._ordered and self._unique` at the top of each "
               "operator)")


class Side:
    def __init__(self, tag, head, payload, itvar, fiber_attr):
        self.tag = tag              # 'A' / 'B'
        self.head = head            # coordinate variable
        self.payload = payload      # payload variable
        self.itvar = itvar          # iterator variable
        self.fiber_attr = fiber_attr    # a_fiber / b_fiber


def _next_assign(st):
    """`x, y = _get_next(it)` -> (x, y, it)"""
    if isinstance(st, ast.Assign) and isinstance(st.targets[0], ast.Tuple) and \
            len(st.targets[0].elts) == 2 and isinstance(st.value, ast.Call) and \
            text(st.value.func) == "_get_next" and st.value.args:
        a, b = st.targets[0].elts
        if isinstance(a, ast.Name) and isinstance(b, ast.Name):
            return a.id, b.id, text(st.value.args[0])
    return None


def check_operator(ctx, op):
    R = "C04."
    f = ctx.func("core/iterators.py:" + op)
    builds = ctx.eff.lazy_iters.get(f, [])
    if len(builds) != 1:
        raise AnalysisError("C04.R1: %s builds %d lazy iterators, expected 1"
                            % (op, len(builds)))
    call, ci = builds[0]
    it = ci.methods.get("__iter__")
    ctx.require(it is not None, "C04.R1: iterator class of %s has no __iter__" % op)
    # operand binding of the class attributes
    p_self, p_other = f.params[0], f.params[1]
    attrs = {k: text(v) for k, v in ci.class_attrs.items()}
    fa = [k for k, v in attrs.items() if v == p_self]
    fb = [k for k, v in attrs.items() if v == p_other]
    if len(fa) != 1 or len(fb) != 1:
        ctx.bad(R + "R1", f, ci.node, "%s: the iterator class does not bind "
                "exactly one attribute to each operand (%s)" % (op, attrs),
                text_="%s iterator operands" % op)
        return
    fa, fb = fa[0], fb[0]
    # the merge loop
    loops = [n for n in it.own_nodes() if isinstance(n, ast.While)]
    main = None
    for lp in loops:
        cj = pat.conjuncts(lp.test)
        heads = []
        for t, pol in cj:
            p = pat.cmp_parts(ctx, it, t, pol)
            if p and p[0] == "is not" and p[2] == "None":
                heads.append(p[1])
        if len(cj) == 2 and len(heads) == 2:
            if main is not None:
                ctx.bad(R + "R1", it, lp, "%s has more than one merge loop" % op)
                return
            main = (lp, heads)
    merged_tail = None
    loop_pos = None
    if main is None:
        # one loop for both phases: `while ha is not None:` whose branches test
        # `hb is None` -- read under the two cases (hb still there / exhausted)
        # as the merge loop and the tail loop of side a
        from .. import symcase
        for lp in loops:
            p = pat.cmp_parts(ctx, it, lp.test)
            if not (p and p[0] == "is not" and p[2] == "None"):
                continue
            ha = p[1]
            others = set()
            for n in _walk(lp.body):
                if isinstance(n, ast.Compare):
                    q = pat.cmp_raw(n)
                    if q and q[0] in ("is", "is not") and q[2] == "None" and q[1] != ha \
                            and q[1].isidentifier():
                        others.add(q[1])
            if len(others) != 1:
                continue
            hb = others.pop()

            def decider(gone):
                def decide(t):
                    q = pat.cmp_raw(t)
                    if q and q[1] == hb and q[2] == "None" and q[0] in ("is", "is not"):
                        return gone if q[0] == "is" else not gone
                    return None
                return decide
            vmain = ast.While(test=lp.test, body=symcase.specialise(lp.body, decider(False)),
                              orelse=[])
            vtail = ast.While(test=lp.test, body=symcase.specialise(lp.body, decider(True)),
                              orelse=[])
            ast.copy_location(vmain, lp)
            ast.copy_location(vtail, lp)
            main = (vmain, [ha, hb])
            merged_tail = (ha, vtail)
            loop_pos = lp
            break
    if main is None:
        ctx.bad(R + "R1", it, it.node, "%s: no two-finger merge loop `while ha "
                "is not None and hb is not None` found" % op,
                text_="%s merge loop" % op)
        return
    loop, heads = main
    loop_pos = loop_pos or loop
    # which head belongs to which side: via the priming _get_next assignments
    sides = {}
    for n in it.own_nodes():
        na = _next_assign(n) if isinstance(n, ast.Assign) else None
        if na and na[0] in heads and not is_within(n, loop_pos) and \
                not any(is_within(n, l2) for l2 in loops):
            itname = na[2]
            # iterator variable must come from the operand's default iteration
            src = None
            for m in it.own_nodes():
                if isinstance(m, ast.Assign) and text(m.targets[0]) == itname:
                    s = text(m.value).replace(" ", "")
                    for attr, tag in ((fa, "A"), (fb, "B")):
                        if s.startswith("self.%s.__iter__(" % attr) or \
                                s.startswith("self.%s.project(" % attr) and \
                                ".__iter__(" in s:
                            if src is None:
                                src = (attr, tag)
                            elif src != (attr, tag):
                                src = ("?", "?")
            if src and src[1] in ("A", "B"):
                prev = sides.get(src[1])
                if prev is None:
                    sides[src[1]] = Side(src[1], na[0], na[1], itname, src[0])
                elif (prev.head, prev.payload, prev.itvar) != na:
                    sides[src[1]] = None
    if set(sides) != {"A", "B"} or None in sides.values() or \
            {sides["A"].head, sides["B"].head} != set(heads):
        ctx.bad(R + "R1", it, loop, "%s: the loop heads are not primed by "
                "_get_next from the default iterations of the two operands"
                % op, text_="%s heads" % op)
        return
    A, B = sides["A"], sides["B"]
    ctx.ok(R + "R1", it, loop, "merge loop over heads %s (from self.%s) and %s "
           "(from self.%s)" % (A.head, A.fiber_attr, B.head, B.fiber_attr))
    # default iteration: for & | the operands' __iter__; ticking is metrics only
    # -- R2 three-way split
    branches = _branches(ctx, it, loop, A, B)
    if branches is None:
        ctx.bad(R + "R2", it, loop, "%s: the loop body is not a three-way "
                "comparison of the two heads (==, <, >, each exactly once)"
                % op, text_="%s three-way split" % op)
        return
    ctx.ok(R + "R2", it, loop, "branches: " + ", ".join(sorted(branches)),
           text_="%s three-way split" % op)
    want_emit = dict(zip(("eq", "lt", "gt"), TABLE[op][:3]))
    want_adv = {"eq": {"A", "B"}, "lt": {"A"}, "gt": {"B"}}
    for rel in ("eq", "lt", "gt"):
        stmts = branches[rel]
        anchor = stmts[0] if stmts else loop
        # -- R3 advance discipline
        adv = _advances(ctx, it, stmts, A, B)
        arity = None
        if rel == "eq" and op == "__and__":
            arity = _arity_cases(ctx, it, loop, stmts, A, B)
        if arity is not None:
            _succ_next_table(ctx, it, stmts, A, B, arity)
        elif adv == want_adv[rel]:
            ctx.ok(R + "R3", it, anchor, "%s branch advances %s"
                   % (rel, sorted(adv)), text_="%s %s advance" % (op, rel))
        else:
            ctx.bad(R + "R3", it, anchor,
                    "%s: the `%s` branch advances %s, the schema requires %s: "
                    "%s" % (op, {"eq": "==", "lt": "<", "gt": ">"}[rel],
                            sorted(adv) if adv else "nothing",
                            sorted(want_adv[rel]),
                            "an element is skipped (wrong for interleavings "
                            "where the skipped coordinate matches)"
                            if adv and adv - want_adv[rel] else
                            "the finger never moves (non-termination) or the "
                            "wrong stream is consumed"),
                    text_="%s %s advance" % (op, rel))
        # -- R4 emission
        ys = _yields(stmts)
        if bool(ys) != want_emit[rel] or len(ys) > 1:
            ctx.bad(R + "R4", it, anchor,
                    "%s: the `%s` branch %s a coordinate; the truth table of "
                    "%s says it must %s" % (
                        op, {"eq": "==", "lt": "<", "gt": ">"}[rel],
                        "emits" if ys else "does not emit", op,
                        "emit exactly once" if want_emit[rel] else "not emit"),
                    text_="%s %s emission" % (op, rel))
        else:
            ctx.ok(R + "R4", it, anchor, "%s branch %s" % (
                rel, "emits once" if ys else "emits nothing"),
                text_="%s %s emission" % (op, rel))
            if ys:
                _check_emission(ctx, it, op, rel, ys[0], stmts, A, B, arity=arity)
    # -- R6 tails
    after = _stmts_after(it, loop_pos)
    tails = {}
    if merged_tail is not None:
        tails["A" if merged_tail[0] == A.head else "B"] = merged_tail[1]
    # a tail may sit under tests that hold anyway once the merge loop is left
    # with this side still present: `<own head> is not None` (the loop's own
    # test) and `<other head> is None` (the merge loop ended, so one side did)
    after_set = set(map(id, after))
    for st in _walk(after):
        if isinstance(st, ast.While):
            p = pat.cmp_parts(ctx, it, st.test)
            if p and p[0] == "is not" and p[2] == "None":
                tag = "A" if p[1] == A.head else "B" if p[1] == B.head else None
                if not tag:
                    continue
                own, oth = (A, B) if tag == "A" else (B, A)
                holds = {pat.A("is not", own.head, "None"), pat.A("is", oth.head, "None")}
                top = st
                while id(top) not in after_set and getattr(top, "_parent", None) is not None:
                    top = top._parent
                if id(top) not in after_set:
                    continue
                gs = set() if top is st else {
                    pat.catom(ctx, it, t, pol, False)
                    for t, pol in atomic_guards(st, stop=top._parent, asserts=False)
                    if any(is_within(t, a_) for a_ in after)}
                if gs <= holds:
                    tails[tag] = st
    for tag, idx, rel, side in (("A", 3, "lt", A), ("B", 4, "gt", B)):
        want = TABLE[op][idx]
        have = tag in tails
        if want != have:
            ctx.bad(R + "R6", it, tails.get(tag, loop),
                    "%s: tail loop for side %s is %s; the truth table requires "
                    "it to be %s: the remaining elements of the longer operand "
                    "are %s" % (op, tag, "present" if have else "missing",
                                "present" if want else "absent",
                                "dropped" if want else "wrongly emitted"),
                    text_="%s tail %s" % (op, tag))
            continue
        if not want:
            ctx.ok(R + "R6", it, loop, "no tail for side %s" % tag,
                   text_="%s tail %s" % (op, tag))
            continue
        t = tails[tag]
        adv = _advances(ctx, it, t.body, A, B)
        ys = _yields(t.body)
        if adv != {tag} or len(ys) != 1:
            ctx.bad(R + "R6", it, t, "%s: tail %s must emit once per iteration "
                    "and advance only side %s (advances %s, %d yields)"
                    % (op, tag, tag, sorted(adv or []), len(ys)),
                    text_="%s tail %s" % (op, tag))
        else:
            ctx.ok(R + "R6", it, t, "tail %s drains side %s" % (tag, tag),
                   text_="%s tail %s" % (op, tag))
            _check_emission(ctx, it, op, rel, ys[0], t.body, A, B, tail=True)
    if op == "__and__":
        _padding(ctx, it, A, B)
    # operators assert the stream precondition
    pre = [n for n in f.own_nodes() if isinstance(n, ast.Assert) and
           "_ordered" in text(n.test) and "_unique" in text(n.test)]
    if pre:
        ctx.ok(R + "R1", f, pre[0], "ordered/unique precondition asserted")
    else:
        ctx.bad(R + "R1", f, f.node, "%s no longer asserts that the fiber is "
                "ordered and unique (the merge schema's precondition)" % op,
                text_="%s precondition" % op)


# -- R7: arity of the ANY-padded projection ---------------------------------

def _lin_add(a, b, k=1):
    out = dict(a)
    for s_, c in b.items():
        out[s_] = out.get(s_, 0) + k * c
        if out[s_] == 0:
            del out[s_]
    return out


def _arity_vars(it, A, B):
    """{var name: side tag} for `v = len(head) if isinstance(head, tuple)
    else 1` (in either the expression or the statement form)."""
    from ..cfg import atomic_guards as _ag
    out = {}
    defs = {}
    for n in it.own_nodes():
        if isinstance(n, ast.Assign) and len(n.targets) == 1 and \
                isinstance(n.targets[0], ast.Name):
            defs.setdefault(n.targets[0].id, []).append(n)
    for name, ds in defs.items():
        for S in (A, B):
            tup = "isinstance(%s,tuple)" % S.head
            if len(ds) == 1 and isinstance(ds[0].value, ast.IfExp):
                v = ds[0].value
                if text(v.test).replace(" ", "") == tup and \
                        text(v.body).replace(" ", "") == "len(%s)" % S.head and \
                        text(v.orelse) == "1":
                    out[name] = S.tag
            elif len(ds) == 2:
                got = set()
                for d in ds:
                    gs = {(text(t).replace(" ", ""), pol) for t, pol in _ag(d)}
                    val = text(d.value).replace(" ", "")
                    if (tup, True) in gs and val == "len(%s)" % S.head:
                        got.add("len")
                    if (tup, False) in gs and val == "1":
                        got.add("one")
                if got == {"len", "one"}:
                    out[name] = S.tag
    return out


def _def_at(ctx, it, e, env):
    """Defining expression of a Name; inside a local `def` the closure
    variable is looked up where the def stands (env['#at'])."""
    v = pat.single_def(ctx, it, e)
    at = env.get("#at")
    if v is None and at is not None:
        facts, is_param = ctx.ty.facts_at(it, e.id, at)
        facts = [fa for fa in facts if fa.kind != "add"]
        if not is_param and len(facts) == 1 and facts[0].kind == "expr" and \
                not facts[0].path and not isinstance(facts[0].stmt, ast.AugAssign):
            v = facts[0].value
    return v


def _tuple_len(ctx, it, e, env, depth=0):
    """Symbolic length of a tuple-valued expression as a linear form over
    {'1', 'A', 'B'} (arity of side A / B), or None."""
    if depth > 6:
        return None
    if isinstance(e, ast.Tuple):
        if any(isinstance(x, ast.Starred) for x in e.elts):
            return None
        return {"1": len(e.elts)} if e.elts else {}
    if isinstance(e, ast.BinOp) and isinstance(e.op, ast.Add):
        l = _tuple_len(ctx, it, e.left, env, depth + 1)
        r = _tuple_len(ctx, it, e.right, env, depth + 1)
        return None if l is None or r is None else _lin_add(l, r)
    if isinstance(e, ast.BinOp) and isinstance(e.op, ast.Mult):
        for t, k in ((e.left, e.right), (e.right, e.left)):
            tl = _tuple_len(ctx, it, t, env, depth + 1)
            if tl is not None and set(tl) <= {"1"}:
                kk = _int_lin(ctx, it, k, env, depth + 1)
                if kk is not None:
                    return {s_: c * tl.get("1", 0) for s_, c in kk.items()
                            if c * tl.get("1", 0)}
        return None
    if isinstance(e, ast.Name):
        if e.id in env:
            return env[e.id]
        if e.id in env.get("#params", {}):
            cf, cenv = env["#caller"]
            return _tuple_len(ctx, cf, env["#params"][e.id], cenv, depth + 1)
        v = _def_at(ctx, it, e, env)
        if v is not None:
            return _tuple_len(ctx, it, v, env, depth + 1)
    return None


def _int_lin(ctx, it, e, env, depth=0):
    if depth > 6:
        return None
    if isinstance(e, ast.Constant) and isinstance(e.value, int):
        return {"1": e.value} if e.value else {}
    if isinstance(e, ast.Name):
        if e.id in env.get("#arity", {}):
            return {env["#arity"][e.id]: 1}
        if e.id in env.get("#params", {}):
            cf, cenv = env["#caller"]
            return _int_lin(ctx, cf, env["#params"][e.id], cenv, depth + 1)
        v = _def_at(ctx, it, e, env)
        if v is not None:
            return _int_lin(ctx, it, v, env, depth + 1)
        return None
    if isinstance(e, ast.BinOp) and isinstance(e.op, (ast.Add, ast.Sub)):
        l = _int_lin(ctx, it, e.left, env, depth + 1)
        r = _int_lin(ctx, it, e.right, env, depth + 1)
        if l is None or r is None:
            return None
        return _lin_add(l, r, 1 if isinstance(e.op, ast.Add) else -1)
    return None


def _padding(ctx, it, A, B):
    """A shorter-arity operand is projected through a lambda that pads its
    coordinates with ANY; tuples compare equal only at equal length, so the
    padded coordinate must have exactly the longer side's arity.

    The projection may sit in `it` itself or in a module-level helper that
    `it` calls with the operand, its head and the two arity variables; the
    helper's parameters are then read as what the call site binds them to."""
    R = "C04.R7"
    av = _arity_vars(it, A, B)
    n = 0
    sites = []      # (host func, project call, receiver->text map, outer guards, arity vars)
    for c in it.own_nodes():
        if not isinstance(c, ast.Call):
            continue
        if isinstance(c.func, ast.Attribute) and c.func.attr == "project":
            sites.append((it, c, {}, [], av))
        elif isinstance(c.func, ast.Name):
            tg = ctx.ty.resolve(it, c)
            for h in getattr(tg, "funcs", []) or []:
                if h is it or h.node is None or len(h.params) < len(c.args):
                    continue
                bind = {}
                for prm, a in zip(h.params, c.args):
                    bind[prm] = text(a)
                    bind["#ast:" + prm] = a
                for kw in c.keywords:
                    if kw.arg:
                        bind[kw.arg] = text(kw.value)
                        bind["#ast:" + kw.arg] = kw.value
                if any(len(ctx.ty.facts_at(h, prm, h.node.body[-1])[0]) > 0
                       for prm in bind if not prm.startswith("#")):
                    continue    # a rebound parameter: not a pure renaming
                hav = {prm: av[t] for prm, t in bind.items()
                       if isinstance(t, str) and t in av}
                outer = list(guards(enclosing_stmt(c)))
                for pc in h.own_nodes():
                    if isinstance(pc, ast.Call) and isinstance(pc.func, ast.Attribute) \
                            and pc.func.attr == "project":
                        sites.append((h, pc, bind, outer, hav))
    expanded = []
    for host, c, bind, outer, hav in sites:
        lam = pat.kwarg(c, "trans_fn", 0)
        if isinstance(lam, ast.Name):
            # trans_fn=<variable>: one obligation per lambda it may hold, each
            # under the conditions of its own assignment
            facts, is_param = ctx.ty.facts_at(host, lam.id, lam)
            if not is_param and facts and all(
                    isinstance(fa.value, ast.Lambda) for fa in facts):
                for fa in facts:
                    expanded.append((host, c, bind, outer, hav, fa.value, fa.stmt))
                continue
            # ... or local one-expression functions of that name defined in
            # the same branch (`def widen(c): return ..` under if / else)
            defs = [d for d in host.own_nodes() if isinstance(d, ast.FunctionDef)
                    and d.name == lam.id]
            pb = parent_block(enclosing_stmt(c))
            here_ = [d for d in defs if pb is not None and any(
                d is s_ or is_within(d, s_) for s_ in pb[0])]
            shaped = []
            for d in here_:
                body = [b for b in d.body if not (isinstance(b, ast.Expr) and
                                                  isinstance(b.value, ast.Constant))]
                if len(body) == 1 and isinstance(body[0], ast.Return) and \
                        body[0].value is not None and not d.args.vararg and not d.args.kwarg:
                    lm = ast.Lambda(args=d.args, body=body[0].value)
                    ast.copy_location(lm, d)
                    shaped.append((lm, d))
            if not is_param and not facts and shaped and len(shaped) == len(here_):
                for lm, d in shaped:
                    expanded.append((host, c, bind, outer, hav, lm, d))
                continue
        expanded.append((host, c, bind, outer, hav, lam, None))
    for host, c, bind, outer, hav, lam, lam_stmt in expanded:
        def actual(t):
            t = text(t) if not isinstance(t, str) else t
            return bind.get(t, t)
        side = None
        for S in (A, B):
            if actual(c.func.value) == "self." + S.fiber_attr:
                side = S
        if side is None or not isinstance(lam, ast.Lambda):
            continue
        n += 1
        other = B if side is A else A
        if set(av.values()) != {"A", "B"}:
            ctx.bad(R, it, c, "__and__: the arities of the two heads are no "
                    "longer computed as `len(head) if isinstance(head, tuple) "
                    "else 1`", text_="padding arity vars")
            return
        # which case: relation of the arity variables, and int-ness of the head
        poss = {"lt", "eq", "gt"}       # arity(side) ? arity(other)
        is_int = None
        for t, pol in [x for g_ in outer for x in _flat(g_)]:
            p = pat.cmp_raw(t, pol)
            if p and p[1] in av and p[2] in av and av[p[1]] != av[p[2]]:
                poss &= _arity_rel(p[0], av[p[1]], side)
        here = list(guards(enclosing_stmt(c)))
        if lam_stmt is not None:
            here += list(guards(lam_stmt))
        here = [x for g_ in here for x in _flat(g_)]
        for t, pol in here:
            p = pat.cmp_raw(t, pol)
            if p and p[1] in hav and p[2] in hav and hav[p[1]] != hav[p[2]]:
                poss &= _arity_rel(p[0], hav[p[1]], side)
            if isinstance(t, ast.Call) and text(t.func) == "isinstance" and \
                    len(t.args) == 2 and actual(t.args[0]) == side.head:
                if text(t.args[1]) == "int":
                    is_int = pol
                elif text(t.args[1]) == "tuple":
                    is_int = not pol
        if poss != {"lt"}:
            ctx.bad(R, it, c, "__and__: operand %s is re-projected with padded "
                    "coordinates outside the branch where its arity is the "
                    "smaller one (arity relation here: %s)"
                    % (side.fiber_attr, sorted(poss)),
                    text_="padding %s case" % side.tag)
            continue
        # an exhausted operand has head None: it has no arity, and projecting
        # an empty fiber through a tuple-building function fails -- the
        # re-projection must be reached only when both heads are there
        present = {pat.catom(ctx, it, t, pol, False) for t, pol in
                   [x for g_ in outer for x in _flat(g_)] +
                   [x for g_ in guards(enclosing_stmt(c)) for x in _flat(g_)]}
        need_heads = {pat.A("is not", A.head, "None"), pat.A("is not", B.head, "None")}
        if host is not it:
            # inside a helper the guards of the call site count
            pass
        if need_heads <= present:
            ctx.ok(R, it, c, "re-projection only with both heads present",
                   text_="padding %s %s heads present" % (side.tag, "int" if is_int else "tuple"))
        else:
            ctx.bad(R, it, c, "__and__: operand %s is re-projected with padded "
                    "coordinates although a head may be None (an empty operand): "
                    "`len(head) if isinstance(head, tuple) else 1` gives an "
                    "exhausted head arity 1, so `empty & tuple-coordinate fiber` "
                    "reaches the projection and raises instead of yielding nothing"
                    % side.fiber_attr,
                    text_="padding %s %s heads present" % (side.tag, "int" if is_int else "tuple"))
        if len(lam.args.args) != 1:
            ctx.bad(R, it, c, "__and__: padding trans_fn must take one "
                    "coordinate", text_="padding %s lambda" % side.tag)
            continue
        prm = lam.args.args[0].arg
        env = {"#arity": hav}
        if isinstance(lam_stmt, ast.FunctionDef):
            env["#at"] = lam_stmt
        if host is not it:
            # parameters of the helper stand for the call site's arguments
            env["#params"] = {k[5:]: v for k, v in bind.items() if k.startswith("#ast:")}
            env["#caller"] = (it, {"#arity": av})
        if is_int is False:
            env[prm] = {side.tag: 1}
        got = _tuple_len(ctx, host, lam.body, env)
        if is_int and got is not None and side.tag in got:
            # an int head has arity 1 by the definition of the arity variable
            got = _lin_add({k: v for k, v in got.items() if k != side.tag},
                           {"1": got[side.tag]})
        kind = "int" if is_int else "tuple" if is_int is False else "unknown-kind"
        want = {other.tag: 1}
        if got == want:
            ctx.ok(R, it, c, "%s coordinate of operand %s padded to the longer "
                   "arity" % (kind, side.fiber_attr),
                   text_="padding %s %s" % (side.tag, kind))
        else:
            ctx.bad(R, it, c, "__and__: the %s coordinates of the shorter "
                    "operand %s are padded by `%s` to arity %s, not to the "
                    "longer operand's arity: padded tuples of the wrong length "
                    "never compare equal, so a prefix match yields nothing"
                    % (kind, side.fiber_attr, text(lam)[:60],
                       _lin_text(got)), text_="padding %s %s" % (side.tag, kind))
    ctx.floor(R, n, 4, "ANY-padded projections")


def _flat(g):
    """Atomic conjuncts of one guard.  A positive disjunction whose other
    alternatives are `<head> is None` (the empty-operand escape: the merge
    loop does not run then) counts as its remaining alternative."""
    from ..cfg import flatten_conj
    out = []
    for t, pol in flatten_conj(g[0], g[1]):
        if pol and isinstance(t, ast.BoolOp) and isinstance(t.op, ast.Or):
            rest = []
            for v in t.values:
                q = pat.cmp_raw(v)
                if q and q[0] == "is" and q[2] == "None" and q[1].isidentifier():
                    continue
                rest.append(v)
            if len(rest) == 1:
                out.extend(flatten_conj(rest[0], True))
                continue
        out.append((t, pol))
    return out


def _arity_rel(op_, left_tag, side):
    rel = {"==": {"eq"}, "!=": {"lt", "gt"}, "<": {"lt"},
           "<=": {"lt", "eq"}}.get(op_)
    if rel is None:
        return {"lt", "eq", "gt"}
    if left_tag != side.tag:
        rel = {{"lt": "gt", "gt": "lt", "eq": "eq"}[r] for r in rel}
    return rel


def _lin_text(l):
    if l is None:
        return "<not a fixed-arity tuple>"
    names = {"A": "arity(a)", "B": "arity(b)", "1": "1"}
    return " + ".join("%s*%s" % (c, names[s_]) if s_ != "1" else str(c)
                      for s_, c in sorted(l.items())) or "0"


def _branches(ctx, f, loop, A, B):
    """{'eq': stmts, 'lt': stmts, 'gt': stmts} or None."""
    body = pat.real_stmts(loop.body)

    def rel_of(test):
        p = pat.cmp_parts(ctx, f, test)
        if p is None:
            return None
        op, l, r = p
        if op == "==" and {l, r} == {A.head, B.head}:
            return "eq"
        if op == "<" and (l, r) == (A.head, B.head):
            return "lt"
        if op == "<" and (l, r) == (B.head, A.head):
            return "gt"
        return None
    out = {}

    def split(stmts):
        """if/elif/else chains, `if ..: ..; continue` sequences and any mix:
        what follows a branch that ends in `continue` is its else part."""
        stmts = pat.real_stmts(stmts)
        if not stmts:
            return True
        st = stmts[0]
        r = rel_of(st.test) if isinstance(st, ast.If) else None
        if r is None:
            rest = {"eq", "lt", "gt"} - set(out)
            if len(rest) != 1:
                return False
            out[rest.pop()] = stmts
            return True
        if r in out:
            return False
        out[r] = st.body
        if st.orelse:
            return len(stmts) == 1 and split(st.orelse)
        if len(stmts) == 1:
            return True
        if isinstance(pat.real_stmts(st.body)[-1], ast.Continue):
            return split(stmts[1:])
        return False
    if not split(body):
        return None
    if set(out) != {"eq", "lt", "gt"}:
        return None
    return out


def _walk(stmts):
    from ..cfg import walk_own
    return walk_own(stmts)


def _advances(ctx, f, stmts, A, B):
    """Set of sides whose head is re-bound by _get_next of its own iterator;
    None if an advance goes through another helper."""
    out = set()
    other = False
    for n in _walk(stmts):
        if isinstance(n, ast.Assign):
            na = _next_assign(n)
            if na:
                for s in (A, B):
                    if na[0] == s.head:
                        if na[1] == s.payload and na[2] == s.itvar:
                            out.add(s.tag)
                        else:
                            out.add(s.tag + "!wrong-iterator")
            elif isinstance(n.targets[0], ast.Tuple):
                names = [text(e) for e in n.targets[0].elts]
                if A.head in names or B.head in names:
                    other = True
    if other and not out:
        return None
    return out


def _yields(stmts):
    return [n for n in _walk(stmts) if isinstance(n, ast.Yield)]


def _stmts_after(f, loop):
    from ..cfg import parent_block
    pb = parent_block(loop)
    return pb[0][pb[1] + 1:] if pb else []


def _default_of(ctx, f, name_node, stmts, absent):
    """`name` is, in this branch, the fresh default of the absent side."""
    if isinstance(name_node, ast.Name):
        facts, is_param = ctx.ty.facts_at(f, name_node.id, name_node)
        if is_param or len(facts) != 1:
            return False, "no unique definition"
        fa = facts[0]
        if not any(is_within(fa.stmt, s) or fa.stmt is s for s in stmts):
            return False, "the default is not created in this branch (one object " \
                          "would be shared by several emissions)"
        v = fa.value
    else:
        v = name_node       # created in the emission itself: fresh per element
    # a local zero-argument helper `def mk(): return <expr>` stands for <expr>
    if isinstance(v, ast.Call) and isinstance(v.func, ast.Name) and \
            not v.args and not v.keywords:
        defs = [n for n in f.own_nodes() if isinstance(n, ast.FunctionDef)
                and n.name == v.func.id]
        if len(defs) == 1 and not defs[0].args.args and len(defs[0].body) == 1 \
                and isinstance(defs[0].body[0], ast.Return) and \
                len(ctx.ty.facts_at(f, v.func.id, v)[0]) <= 1:
            v = defs[0].body[0].value
    if not (isinstance(v, ast.Call) and isinstance(v.func, ast.Attribute) and
            v.func.attr == "_createDefault"):
        return False, "it is `%s`, not a _createDefault() call" % text(v)
    if text(v.func.value) != "self." + absent.fiber_attr:
        return False, "the default is created from `%s`, not from the absent " \
                      "side's fiber self.%s (wrong default value/shape when " \
                      "the operands' defaults differ)" % (text(v.func.value),
                                                          absent.fiber_attr)
    return True, ""


def _check_emission(ctx, f, op, rel, y, stmts, A, B, tail=False, arity=None):
    R = "C04.R5"
    where = "%s %s%s" % (op, "tail " if tail else "", rel)
    v = y.value
    if not (isinstance(v, ast.Tuple) and len(v.elts) == 2):
        ctx.bad(R, f, y, "%s: emission is not a (coordinate, payload) pair"
                % where, text_=where + " emission shape")
        return
    coord, pay = v.elts
    ctext = text(coord)
    present = {"eq": (A, B), "lt": (A,), "gt": (B,)}[rel]
    okc = ctext in [s.head for s in present]
    if op == "__and__" and rel == "eq" and arity is not None:
        okc = _succ_yield_table(ctx, f, A, B, arity)
    if not okc:
        ctx.bad(R, f, y, "%s: emits coordinate `%s`, must be the head of a "
                "present side (%s)" % (where, ctext,
                                       "/".join(s.head for s in present)),
                text_=where + " coordinate")
        return
    if op in MASKED:
        if not (isinstance(pay, ast.Tuple) and len(pay.elts) == 3):
            ctx.bad(R, f, y, "%s: payload must be (mask, A-slot, B-slot)" % where,
                    text_=where + " slots")
            return
        mask, sa, sb = pay.elts
        want_mask = {"eq": "AB", "lt": "A", "gt": "B"}[rel]
        if not (isinstance(mask, ast.Constant) and mask.value == want_mask):
            ctx.bad(R, f, y, "%s: mask is %s, must be '%s' (the sides present)"
                    % (where, text(mask), want_mask), text_=where + " mask")
            return
        for slot, side in ((sa, A), (sb, B)):
            if side in present:
                if text(slot) != side.payload:
                    ctx.bad(R, f, y, "%s: slot %s holds `%s`, must be the "
                            "operand's own stored payload `%s` (updates "
                            "through it would not reach the operand)"
                            % (where, side.tag, text(slot), side.payload),
                            text_=where + " slot " + side.tag)
                    return
            else:
                if not isinstance(slot, (ast.Name, ast.Call)):
                    ctx.bad(R, f, y, "%s: absent slot %s is `%s`" % (
                        where, side.tag, text(slot)), text_=where + " slot " + side.tag)
                    return
                ok, why = _default_of(ctx, f, slot, stmts, side)
                if not ok:
                    ctx.bad(R, f, y, "%s: absent-side slot %s (`%s`): %s"
                            % (where, side.tag, text(slot), why),
                            text_=where + " slot " + side.tag)
                    return
        ctx.ok(R, f, y, "mask '%s', present side's own payload, fresh default "
               "of the absent side" % want_mask, text_=where + " emission")
    elif op == "__and__":
        if isinstance(pay, ast.Tuple) and [text(e) for e in pay.elts] == \
                [A.payload, B.payload]:
            ctx.ok(R, f, y, "emits both operands' own payloads in (A, B) order",
                   text_=where + " emission")
        else:
            ctx.bad(R, f, y, "%s: must emit (%s, %s), emits `%s`"
                    % (where, A.payload, B.payload, text(pay)),
                    text_=where + " slots")
    else:   # __sub__
        if text(pay) == A.payload:
            ctx.ok(R, f, y, "emits the first operand's own payload",
                   text_=where + " emission")
        else:
            ctx.bad(R, f, y, "%s: must emit `%s`, emits `%s`"
                    % (where, A.payload, text(pay)), text_=where + " slots")


def _succ_next_def(d):
    """(sides advanced, well-formed) for a closure `succ_next(a, a_coord,
    a_payload, b, b_coord, b_payload)` returning the four next heads, None
    when it cannot be read."""
    ret = [x for x in ast.walk(d) if isinstance(x, ast.Return)]
    if len(ret) != 1 or not isinstance(ret[0].value, ast.Tuple):
        return None
    names = [a.arg for a in d.args.args]
    adv = set()
    flat = []
    for e in ret[0].value.elts:
        if isinstance(e, ast.Starred) and isinstance(e.value, ast.Call) and \
                text(e.value.func) == "_get_next" and e.value.args:
            flat.append(("next", text(e.value.args[0])))
            flat.append(("next2", text(e.value.args[0])))
        else:
            flat.append(("keep", text(e)))
    if len(flat) != 4 or len(names) != 6:
        return None
    okshape = True
    for i, (side, base) in enumerate((("A", 0), ("A", 0), ("B", 3), ("B", 3))):
        kind, val = flat[i]
        if kind.startswith("next"):
            if val != names[base]:
                okshape = False
            adv.add(side)
        else:
            if val != names[base + 1 + (i % 2)]:
                okshape = False
    return adv, okshape


def _arity_cases(ctx, it, loop, eq_stmts, A, B):
    """What a match does in each arity case (len_a ==, <, > len_b), whatever
    carries the case into the loop -- closures defined per case, flags set
    per case, or the arity test repeated in the loop: {rel: (sides advanced
    or an error text, emitted coordinate text or None, anchor)}.

    The statements before the loop are read under the case (both heads
    present, the comparison of the two arities settled); constants and local
    functions bound there, and not re-bound in the loop, are known in the
    loop; the match branch is read under the case and those bindings."""
    from ..symcase import simplify, specialise
    av = _arity_vars(it, A, B)
    if set(av.values()) != {"A", "B"}:
        return None
    pb = parent_block(loop)
    if pb is None:
        return None
    pre = pb[0][:pb[1]]
    inside = set()
    for n in _walk([loop]):
        if isinstance(n, (ast.Assign, ast.AugAssign)):
            for t in (n.targets if isinstance(n, ast.Assign) else [n.target]):
                for x in ast.walk(t):
                    if isinstance(x, ast.Name):
                        inside.add(x.id)
        elif isinstance(n, ast.FunctionDef):
            inside.add(n.name)
    heads = {A.head, B.head}
    out = {}
    for rel in ("eq", "lt", "gt"):
        def arity(test, rel=rel):
            p = pat.cmp_raw(test)
            if p is None:
                return None
            op_, l, r = p
            if l in av and r in av and av[l] != av[r]:
                # relation of len(A) to len(B)
                if av[l] == "B":
                    cur = {"eq": "eq", "lt": "gt", "gt": "lt"}[rel]
                else:
                    cur = rel
                return {"==": cur == "eq", "!=": cur != "eq", "<": cur == "lt",
                        "<=": cur in ("lt", "eq")}.get(op_)
            if op_ in ("is", "is not") and r == "None" and l in heads:
                return op_ == "is not"
            return None
        consts, fdefs = {}, {}

        def scan(stmts, top=True):
            for st in stmts:
                if isinstance(st, ast.FunctionDef):
                    if top:
                        fdefs[st.name] = st
                    else:
                        fdefs.pop(st.name, None)
                    continue
                if isinstance(st, ast.Assign):
                    pairs = []
                    for t in st.targets:
                        if isinstance(t, ast.Name):
                            pairs.append((t.id, st.value))
                        elif isinstance(t, ast.Tuple) and isinstance(st.value, ast.Tuple) \
                                and len(t.elts) == len(st.value.elts):
                            for a_, b_ in zip(t.elts, st.value.elts):
                                if isinstance(a_, ast.Name):
                                    pairs.append((a_.id, b_))
                        else:
                            for x in ast.walk(t):
                                if isinstance(x, ast.Name):
                                    pairs.append((x.id, None))
                    for nm, v in pairs:
                        if top and isinstance(v, ast.Constant) and \
                                isinstance(v.value, bool):
                            consts[nm] = v.value
                        else:
                            consts.pop(nm, None)
                    continue
                for fld in ("body", "orelse", "finalbody"):
                    sub = getattr(st, fld, None)
                    if isinstance(sub, list):
                        scan(sub, False)
        scan(specialise(pre, arity))
        for nm in inside:
            consts.pop(nm, None)
            fdefs.pop(nm, None)

        def decide(test):
            if isinstance(test, ast.Name) and test.id in consts:
                return consts[test.id]
            return arity(test)
        spec = specialise(eq_stmts, decide)
        adv = set()
        err = None

        def visit(stmts, cond):
            nonlocal err
            for st in stmts:
                if isinstance(st, ast.Assign):
                    na = _next_assign(st)
                    if na:
                        for S in (A, B):
                            if na[0] == S.head:
                                if cond:
                                    err = "advances side %s only under `%s`" % (S.tag, cond)
                                elif na[1] == S.payload and na[2] == S.itvar:
                                    adv.add(S.tag)
                                else:
                                    err = "re-binds the head of side %s from the wrong iterator" % S.tag
                    elif isinstance(st.targets[0], ast.Tuple) and \
                            (A.head in [text(e) for e in st.targets[0].elts] or
                             B.head in [text(e) for e in st.targets[0].elts]):
                        names = [text(e) for e in st.targets[0].elts]
                        v = st.value
                        d = fdefs.get(v.func.id) if isinstance(v, ast.Call) and \
                            isinstance(v.func, ast.Name) else None
                        r = _succ_next_def(d) if d is not None else None
                        if cond or r is None or \
                                names != [A.head, A.payload, B.head, B.payload] or \
                                [text(a) for a in v.args] != [A.itvar, A.head, A.payload,
                                                              B.itvar, B.head, B.payload]:
                            err = "re-binds the heads through `%s`, which cannot be read" % text(v)
                        elif not r[1]:
                            err = "re-binds the heads with permuted values"
                        else:
                            adv.update(r[0])
                    continue
                if isinstance(st, ast.If):
                    c = text(st.test)
                    visit(st.body, cond or c)
                    visit(st.orelse, cond or ("not " + c))
                elif isinstance(st, (ast.While, ast.For, ast.With, ast.Try)):
                    for fld in ("body", "orelse", "finalbody"):
                        visit(getattr(st, fld, []) or [], cond or "a loop")
        visit(spec, None)
        # the emitted coordinate
        ys = [n for n in _walk(spec) if isinstance(n, ast.Yield)]
        coord = None
        if len(ys) == 1 and isinstance(ys[0].value, ast.Tuple) and ys[0].value.elts:
            e = ys[0].value.elts[0]
            for _ in range(4):
                if isinstance(e, ast.IfExp):
                    r = simplify(e.test, decide)
                    if isinstance(r, bool):
                        e = e.body if r else e.orelse
                        continue
                if isinstance(e, ast.Call) and isinstance(e.func, ast.Name) and \
                        e.func.id in fdefs and not e.keywords:
                    d = fdefs[e.func.id]
                    body = [b for b in d.body if not (isinstance(b, ast.Expr) and
                                                      isinstance(b.value, ast.Constant))]
                    ps = [a.arg for a in d.args.args]
                    if len(body) == 1 and isinstance(body[0], ast.Return) and \
                            isinstance(body[0].value, ast.Name) and \
                            body[0].value.id in ps and len(ps) == len(e.args):
                        e = e.args[ps.index(body[0].value.id)]
                        continue
                break
            coord = text(e)
        out[rel] = (err if err else adv, coord, spec[0] if spec else loop)
    return out



def _arity_defs(ctx, f, name):
    """{'eq'|'lt'|'gt' (len_a ? len_b): FunctionDef} for the three
    definitions of a helper under the arity split."""
    out = {}
    for n in f.own_nodes():
        if isinstance(n, ast.FunctionDef) and n.name == name:
            rel = None
            for t, pol in [x for g_ in guards(n) for x in _flat(g_)]:
                p = pat.cmp_parts(ctx, f, t, pol)
                if p and {p[1], p[2]} == {"len_a", "len_b"}:
                    if p[0] == "==":
                        rel = "eq"
                    elif p[0] == "<":
                        rel = "lt" if p[1] == "len_a" else "gt"
                    elif p[0] == "!=":
                        pass
            # else-branch of the chain: remaining relation
            out.setdefault(rel, []).append(n)
    return out


def _succ_next_table(ctx, f, stmts, A, B, arity):
    R = "C04.R3"
    want = {"eq": {"A", "B"}, "lt": {"B"}, "gt": {"A"}}
    for rel, w in want.items():
        adv, coord, anchor = arity[rel]
        sym = {"eq": "==", "lt": "<", "gt": ">"}[rel]
        if adv == w:
            ctx.ok(R, f, anchor, "arity case %s: a match advances %s" % (rel, sorted(adv)),
                   text_="succ_next %s" % rel)
        else:
            ctx.bad(R, f, anchor, "__and__: for len_a %s len_b a match must advance "
                    "%s (the shorter, ANY-padded side may match several longer "
                    "coordinates); it %s"
                    % (sym, sorted(w), adv if isinstance(adv, str) else
                       "advances %s" % (sorted(adv) or "nothing")),
                    text_="succ_next %s" % rel)


def _len_rel(ctx, f, d, A, B):
    """Arity case a nested def belongs to, from the if/elif/else chain on
    len_a / len_b that contains it."""
    from ..cfg import parent_block
    pb = parent_block(d)
    if pb is None:
        return None
    blk, idx, parent, field = pb
    if not isinstance(parent, ast.If):
        return None
    # collect the chain
    chain = []
    n = parent
    top = n
    while True:
        up = parent_block(top)
        if up and isinstance(up[2], ast.If) and up[3] == "orelse" and len(up[0]) == 1:
            top = up[2]
        else:
            break
    n = top
    rels = []
    av = _arity_vars(f, A, B)
    while True:
        tst = n.test
        fl = _flat((tst, True))
        if len(fl) == 1:
            tst = fl[0][0]          # `len_a == len_b or <a head is None>`
        p = pat.cmp_raw(tst)
        r = None
        if p and p[1] in av and p[2] in av and av[p[1]] != av[p[2]]:
            first = av[p[1]]        # side of the left operand
            if p[0] == "==":
                r = "eq"
            elif p[0] == "<":
                r = "lt" if first == "A" else "gt"
            elif p[0] == "<=":
                r = None
        rels.append(r)
        if d in n.body:
            return r
        if len(n.orelse) == 1 and isinstance(n.orelse[0], ast.If):
            n = n.orelse[0]
            continue
        if d in n.orelse:
            rest = {"eq", "lt", "gt"} - set(x for x in rels if x)
            return rest.pop() if len(rest) == 1 else None
        return None


def _succ_yield_table(ctx, f, A, B, arity):
    """The coordinate a match emits, per arity case: the longer side's (the
    shorter side's is padded with ANY)."""
    R = "C04.R5"
    want = {"eq": (A.head, B.head), "lt": (B.head,), "gt": (A.head,)}
    ok = True
    for rel, w in want.items():
        adv, coord, anchor = arity[rel]
        if coord in w:
            ctx.ok(R, f, anchor, "arity case %s yields the longer side's coordinate"
                   % rel, text_="succ_yield %s" % rel)
        else:
            ok = False
            ctx.bad(R, f, anchor, "__and__: for len_a %s len_b the emitted coordinate "
                    "must be the longer side's (%s), the match emits %s"
                    % ({"eq": "==", "lt": "<", "gt": ">"}[rel], "/".join(w), coord),
                    text_="succ_yield %s" % rel)
    return ok


def get_next(ctx):
    f = ctx.func("core/iterators.py:_get_next")
    handlers = [h for n in f.own_nodes() if isinstance(n, ast.Try)
                for h in n.handlers]
    ok = False
    for h in handlers:
        if text(h.type) == "StopIteration":
            for r in ast.walk(h):
                if isinstance(r, ast.Return) and text(r.value).replace(" ", "") == \
                        "(None,None)":
                    ok = True
    if ok:
        ctx.ok("C04.R1", f, f.node, "_get_next maps exhaustion to (None, None)",
               text_="def _get_next")
    else:
        ctx.bad("C04.R1", f, f.node, "_get_next no longer maps StopIteration "
                "to (None, None): empty operands / exhausted streams break "
                "the merge loops", text_="def _get_next")


def nary(ctx):
    for name, sym in (("intersection", ast.BitAnd), ("union", ast.BitOr)):
        f = ctx.func("core/iterators.py:" + name)
        first = step = False
        for n in f.own_nodes():
            if isinstance(n, ast.Assign) and isinstance(n.value, ast.BinOp) and \
                    isinstance(n.value.op, sym):
                t = text(n.targets[0])
                l, r = text(n.value.left), text(n.value.right)
                if (l, r) == ("args[0]", "args[1]"):
                    first = True
                lp = [a for a in _anc(n) if isinstance(a, ast.For)]
                if lp and l == t and r == text(lp[0].target) and \
                        text(lp[0].iter).replace(" ", "") == "args[2:]":
                    step = True
        # the same left fold spelled functools.reduce(operator.<op>, args[2:], args[0] <op> args[1])
        opname = {ast.BitAnd: "and_", ast.BitOr: "or_"}[sym]
        for n in f.own_nodes():
            if isinstance(n, ast.Call) and text(n.func) in ("functools.reduce", "reduce") \
                    and len(n.args) == 3 and not n.keywords and \
                    text(n.args[0]) in ("operator." + opname, opname) and \
                    text(n.args[1]).replace(" ", "") == "args[2:]" and \
                    isinstance(n.args[2], ast.BinOp) and isinstance(n.args[2].op, sym) and \
                    (text(n.args[2].left), text(n.args[2].right)) == ("args[0]", "args[1]"):
                first = step = True
        if first and step:
            ctx.ok("C04.R1", f, f.node, "%s folds the binary operator left to "
                   "right over args" % name, text_="def %s" % name)
        else:
            ctx.bad("C04.R1", f, f.node, "%s no longer folds `args[0] %s args[1]` "
                    "and then every further argument" % (
                        name, "&" if sym is ast.BitAnd else "|"),
                    text_="def %s" % name)


def _anc(n):
    from ..cfg import ancestors
    return ancestors(n)


def purity(ctx):
    eff = ctx.eff
    for key in ("core/iterators.py:__and__", "core/iterators.py:__or__",
                "core/iterators.py:__xor__", "core/iterators.py:__sub__",
                "core/iterators.py:intersection", "core/iterators.py:union"):
        f = ctx.func(key)
        roots = {("p", n) for n in f.all_param_names()}
        bad = [(loc, r, c, w) for loc, r, c, w in eff.writes(f, tree_only=True)
               if r in roots and loc not in STATS_LOCS]
        if not bad:
            ctx.ok("C04.R8", f, f.node, "neither operand (nor its tensor) is "
                   "written, including while the result is iterated",
                   text_=f.name)
            continue
        certain = [b for b in bad if not b[3].uncertain]
        if not certain:
            ctx.errors.append("C04.R8: unresolved receiver decides %s: %s"
                              % (key, bad[0][3].render()))
            continue
        seen = set()
        for loc, r, c, w in certain:
            k = w.site()
            if k in seen:
                continue
            seen.add(k)
            ctx.bad("C04.R8", f, f.node, "%s writes %s of its operand `%s` "
                    "(or of the tensor it belongs to) via %s"
                    % (f.name, loc, r[1], w.render()),
                    text_="%s -> %s: %s" % (f.name, k[0].split(":")[-1], k[1]))
