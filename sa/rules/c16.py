"""C16 -- traces are well-formed (partial): header/row arity agreement, flush
discipline, and 'positions are positions' at every trace call site."""

import ast

from ..model import text, AnalysisError
from ..cfg import cfg_of, guards, atomic_guards, enclosing_stmt, is_within
from ..sites import iter_kind, RAW, FILTERED, DENSE, LAZY
from .. import pat

EXPLANATION = (
    "Decided clauses: (R1) the header built by _startTrace and every row "
    "built by addUse have the same length 2*(depth+1)+1, both taking the "
    "depth from the same two-way choice (rank in line_order, else its "
    "matched rank) -- by a symbolic list-length normal form; (R2) flush "
    "discipline: _writeTrace appends to the file and rebinds the buffer to "
    "a fresh list, _startTrace truncates once, addUse puts the same row "
    "into the file and the memory buffer and flushes when the buffer length "
    "reaches num_cached_uses, endCollect flushes every file buffer before "
    "dropping the traces -- from which the file content is the "
    "concatenation of all rows in append order for every threshold; (R3) "
    "the position argument of every Metrics.addUse call outside metrics.py "
    "must be a position of the traced fiber (index from _coord2pos, "
    "start + enumerate over the raw positional generator) or a "
    "destination-side populate address; an ordinal of a default-skipping "
    "stream is reported; (R4) every ticking generator (iterRange, "
    "iterRangeShape, iterRangeShapeRef) refreshes the current point "
    "(Metrics.addUse for its rank with the coordinate it is about to yield, "
    "directly or through an accessor that does so whenever collecting) on "
    "every path to its yield, so that rows of deeper ranks carry the "
    "coordinate of the element being visited.  Row order and stamp "
    "monotonicity are not decided.")
RULE = ("one obligation per arity clause, per flush clause and per "
        "Metrics.addUse call site (position domain)")

M = "core/metrics.py:Metrics."


def run(ctx):
    ctx.guard(r1_arity)
    ctx.guard(r2_flush)
    ctx.guard(r3_positions)
    ctx.guard(r4_point)
    ctx.guard(r5_stale_extent)


def _walk(stmts):
    from ..cfg import walk_own
    return walk_own(stmts)


# -- R5: positions are compared with the destination's *current* extent -------

EXTENT = ("len(%s)", "len(%s.coords)", "len(%s.payloads)", "%s.maxCoord()",
          "%s.minCoord()", "len(%s.getCoords())")


def r5_stale_extent(ctx):
    """The populate iterator inserts into the destination while it walks the
    source, and decides with the destination's extent (length, maximum
    coordinate) which positions are read, searched and traced.  A local that
    holds such an extent, is bound outside the loop and read inside it goes
    stale with the first insertion (a hoisted `a_len = len(self.a_fiber)`):
    the guard of the `populate_read` rows then compares with the length on
    entry and rows go missing once as many elements were inserted as the
    destination held.  Reads that only happen for the first source element
    (`<loop index> == 0`) see the value still fresh."""
    it = ctx.func("core/iterators.py:__lshift__.lshift_iterator.__iter__")
    loops = [n for n in it.own_nodes() if isinstance(n, ast.For)
             and any(isinstance(x, ast.Yield) for x in _walk(n.body))]
    ctx.require(len(loops) == 1, "C16.R5: populate loop not found")
    lp = loops[0]
    # receivers the loop body inserts into / deletes from
    grown = set()
    for c in _walk(lp.body):
        if isinstance(c, ast.Call) and isinstance(c.func, ast.Attribute):
            if c.func.attr in ("_create_payload", "insert", "append", "insertOrLookup"):
                base = text(c.func.value)
                for suf in (".coords", ".payloads"):
                    if base.endswith(suf):
                        base = base[:-len(suf)]
                grown.add(base.replace(" ", ""))
        if isinstance(c, ast.Delete):
            for t in c.targets:
                if isinstance(t, ast.Subscript):
                    base = text(t.value)
                    for suf in (".coords", ".payloads"):
                        if base.endswith(suf):
                            base = base[:-len(suf)]
                    grown.add(base.replace(" ", ""))
    ctx.require(grown, "C16.R5: the populate loop no longer inserts into its destination")
    idx = None
    if isinstance(lp.target, ast.Tuple) and isinstance(lp.target.elts[0], ast.Name):
        idx = lp.target.elts[0].id
    n = 0
    for u in _walk(lp.body):
        if not (isinstance(u, ast.Name) and isinstance(u.ctx, ast.Load)):
            continue
        facts, is_param = ctx.ty.facts_at(it, u.id, u)
        facts = [fa for fa in facts if fa.kind == "expr" and not fa.path]
        if is_param or not facts:
            continue
        ext = []
        for fa in facts:
            v = text(fa.value).replace(" ", "")
            if any(v == pat_ % g for g in grown for pat_ in EXTENT):
                ext.append(fa)
        if not ext:
            continue
        outside = [fa for fa in ext if not is_within(fa.stmt, lp)]
        if not outside:
            n += 1
            continue            # re-read in the loop: current
        first_only = idx is not None and pat.A("==", idx, "0") in \
            pat.catoms_of_guards(ctx, it, enclosing_stmt(u), stop=lp)
        # `i == 0 and <uses the extent>`: short-circuit is a guard too
        child, par = u, getattr(u, "_parent", None)
        while idx is not None and par is not None and not isinstance(par, ast.stmt):
            if isinstance(par, ast.BoolOp) and isinstance(par.op, ast.And):
                k = next((i for i, v in enumerate(par.values) if v is child), None)
                if k and any(pat.catom(ctx, it, v, True, False) == pat.A("==", idx, "0")
                             for v in par.values[:k]):
                    first_only = True
            child, par = par, getattr(par, "_parent", None)
        n += 1
        if first_only:
            ctx.ok("C16.R5", it, u, "extent read only for the first source element")
        else:
            ctx.bad("C16.R5", it, u,
                    "`%s` holds `%s`, bound before the populate loop, and is read "
                    "inside it although the loop inserts into %s: from the first "
                    "insertion on the value is stale, so the positions that are "
                    "searched and traced are decided against the destination's "
                    "extent on entry (destination elements walked past get no "
                    "populate_read row once enough elements were inserted)"
                    % (u.id, text(outside[0].value), sorted(grown)[0]),
                    text_="stale extent %s" % text(outside[0].value).replace(" ", ""))
    if not any(f_.rule == "C16.R5" for f_ in ctx.findings):
        ctx.ok("C16.R5", it, lp, "no extent of the destination is carried into the "
               "loop (%d extent reads are current)" % n, text_="populate extents current")


# ---------------------------------------------------------------------------
def _len_nf(ctx, f, e, env, depth=0):
    """Symbolic length of a list expression as {symbol: coef} with '' the
    constant term; None if not expressible."""
    if depth > 6:
        return None
    if isinstance(e, ast.Name):
        if e.id in env:
            return env[e.id]
        d = pat.single_def(ctx, f, e)
        if d is not None:
            return _len_nf(ctx, f, d, env, depth + 1)
        return None
    if isinstance(e, ast.List):
        if any(isinstance(x, ast.Starred) for x in e.elts):
            return None
        return {"": len(e.elts)}
    if isinstance(e, ast.BinOp) and isinstance(e.op, ast.Add):
        a = _len_nf(ctx, f, e.left, env, depth + 1)
        b = _len_nf(ctx, f, e.right, env, depth + 1)
        if a is None or b is None:
            return None
        out = dict(a)
        for k, v in b.items():
            out[k] = out.get(k, 0) + v
        return out
    if isinstance(e, ast.Subscript) and isinstance(e.slice, ast.Slice):
        s = e.slice
        if s.lower is None and s.step is None and s.upper is not None:
            return _int_nf(ctx, f, s.upper, depth + 1)
        return None
    if isinstance(e, ast.Call) and text(e.func) == "list" and e.args:
        return _len_nf(ctx, f, e.args[0], env, depth + 1)
    if isinstance(e, (ast.GeneratorExp, ast.ListComp)) and len(e.generators) == 1 \
            and not e.generators[0].ifs:
        return _len_nf(ctx, f, e.generators[0].iter, env, depth + 1)
    return None


def _int_nf(ctx, f, e, depth=0):
    """Linear normal form of an integer expression over opaque symbols."""
    if isinstance(e, ast.Constant) and isinstance(e.value, int):
        return {"": e.value}
    if isinstance(e, ast.BinOp) and isinstance(e.op, (ast.Add, ast.Sub)):
        a = _int_nf(ctx, f, e.left, depth + 1)
        b = _int_nf(ctx, f, e.right, depth + 1)
        if a is None or b is None:
            return None
        out = dict(a)
        sg = 1 if isinstance(e.op, ast.Add) else -1
        for k, v in b.items():
            out[k] = out.get(k, 0) + sg * v
        return out
    if isinstance(e, ast.Name):
        return {"$" + e.id: 1}
    return {"$" + text(e).replace(" ", ""): 1}


def _buffers(f):
    """(file buffer var, memory buffer var) unpacked from cls.traces[..][..]."""
    cls_ = f.params[0]
    for n in f.own_nodes():
        if isinstance(n, ast.Assign) and isinstance(n.targets[0], ast.Tuple) and \
                len(n.targets[0].elts) >= 2 and \
                text(n.value).replace(" ", "").startswith("%s.traces[" % cls_):
            return text(n.targets[0].elts[0]), text(n.targets[0].elts[1])
    return None, None


def _branch_def(ctx, f, name_node, branch):
    """Defining expression of a Name under the two-way choice
    `rank in cls.line_order` (branch True / False)."""
    facts, is_param = ctx.ty.facts_at(f, name_node.id, name_node)
    vals = [fa for fa in facts if fa.kind == "expr" and not fa.path
            and not isinstance(fa.stmt, ast.AugAssign)]
    if is_param or not vals:
        return None
    if len(vals) == 1:
        return vals[0].value
    test = "%sin%s.line_order" % (f.params[1], f.params[0])
    pick = []
    for fa in vals:
        gs = {(text(t).replace(" ", ""), pol) for t, pol in atomic_guards(fa.stmt)}
        if (test, branch) in gs:
            pick.append(fa.value)
    return pick[0] if len(pick) == 1 else None


def _len_b(ctx, f, e, branch, depth=0):
    """Length of a list expression as a linear form over opaque integer
    atoms, evaluated under one branch of the depth choice."""
    if depth > 16:
        return None
    if isinstance(e, ast.Name):
        d = _branch_def(ctx, f, e, branch)
        return _len_b(ctx, f, d, branch, depth + 1) if d is not None else None
    if isinstance(e, ast.List):
        if any(isinstance(x, ast.Starred) for x in e.elts):
            return None
        return {"": len(e.elts)}
    if isinstance(e, ast.BinOp) and isinstance(e.op, ast.Add):
        a = _len_b(ctx, f, e.left, branch, depth + 1)
        b = _len_b(ctx, f, e.right, branch, depth + 1)
        if a is None or b is None:
            return None
        out = dict(a)
        for k, v in b.items():
            out[k] = out.get(k, 0) + v
        return out
    if isinstance(e, ast.Subscript) and isinstance(e.slice, ast.Slice):
        sl = e.slice
        if sl.lower is None and sl.step is None and sl.upper is not None:
            return _int_b(ctx, f, sl.upper, branch, depth + 1)
        return None
    if isinstance(e, ast.Call) and text(e.func) == "list" and e.args:
        return _len_b(ctx, f, e.args[0], branch, depth + 1)
    if isinstance(e, (ast.GeneratorExp, ast.ListComp)) and len(e.generators) == 1 \
            and not e.generators[0].ifs:
        return _len_b(ctx, f, e.generators[0].iter, branch, depth + 1)
    return None


def _int_b(ctx, f, e, branch, depth=0):
    if depth > 16:
        return None
    if isinstance(e, ast.Constant) and isinstance(e.value, int):
        return {"": e.value}
    if isinstance(e, ast.BinOp) and isinstance(e.op, (ast.Add, ast.Sub)):
        a = _int_b(ctx, f, e.left, branch, depth + 1)
        b = _int_b(ctx, f, e.right, branch, depth + 1)
        if a is None or b is None:
            return None
        out = dict(a)
        sg = 1 if isinstance(e.op, ast.Add) else -1
        for k, v in b.items():
            out[k] = out.get(k, 0) + sg * v
        return out
    if isinstance(e, ast.Name):
        d = _branch_def(ctx, f, e, branch)
        if d is not None:
            return _int_b(ctx, f, d, branch, depth + 1)
        return {"$" + e.id: 1}
    if isinstance(e, ast.IfExp):
        tt = text(e.test).replace(" ", "")
        for pol_, pre in ((True, ""), (False, "not")):
            for t0 in ("%sin%s.line_order" % (f.params[1], f.params[0]),
                       "%sin%s.line_order.keys()" % (f.params[1], f.params[0])):
                if tt == pre + t0 or tt == pre + "(" + t0 + ")":
                    pick = e.body if (branch == pol_) else e.orelse
                    return _int_b(ctx, f, pick, branch, depth + 1)
        t1 = text(e.test).replace(" ", "")
        if t1 == "%snotin%s.line_order" % (f.params[1], f.params[0]):
            return _int_b(ctx, f, e.orelse if branch else e.body, branch, depth + 1)
    if isinstance(e, ast.Call) and hasattr(e, "_parent"):
        # a helper that makes the same two-way choice: read it under this branch
        from .. import symcase
        tests = ("%sin%s.line_order" % (f.params[1], f.params[0]),
                 "%sin%s.line_order.keys()" % (f.params[1], f.params[0]))

        def decide(t_):
            if isinstance(t_, ast.UnaryOp) and isinstance(t_.op, ast.Not):
                d_ = decide(t_.operand)
                return None if d_ is None else not d_
            return branch if symcase.norm(t_) in tests else None
        res = symcase.Evaluator(ctx, decide).inline_call(f, e, {})
        if res is not None:
            return _int_b(ctx, f, res, branch, depth + 1)
    # an opaque integer: named by its expression, with the temporaries in it
    # read under this branch (`cls.line_order[loop_rank]` where loop_rank was
    # chosen by the same two-way test)
    from ..symcase import clone

    def sub(x, d_=0):
        class S(ast.NodeTransformer):
            def visit_Name(self, n):
                if isinstance(n.ctx, ast.Load) and d_ < 4 and hasattr(n, "_parent"):
                    v = _branch_def(ctx, f, n, branch)
                    if isinstance(v, (ast.Name, ast.Attribute, ast.Subscript)) and \
                            not any(isinstance(y, ast.Call) for y in ast.walk(v)):
                        return sub(v, d_ + 1)
                return n
        # (visit a copy; the originals keep their parent links for the lookups)
        if isinstance(x, ast.Name):
            r = S().visit_Name(x)
            return clone(r) if r is x else r
        new = clone(x)
        for orig, cp in zip(ast.walk(x), ast.walk(new)):
            if hasattr(orig, "_parent"):
                cp._parent = orig._parent
        return S().visit(new)
    t = text(sub(e)).replace(" ", "")
    # the two functions name their parameters alike; normalise cls / rank
    t = t.replace(f.params[0] + ".", "cls.").replace("[%s]" % f.params[1], "[rank]")
    return {"$" + t: 1}


def _two_way(ctx, f, var):
    """The two definitions of `var` under `rank in cls.line_order` / else:
    returns (text under the test, text under else) or None."""
    defs = [n for n in f.own_nodes() if isinstance(n, ast.Assign)
            and text(n.targets[0]) == var]
    a = b = None
    for d in defs:
        gs = [(text(t).replace(" ", ""), pol) for t, pol in atomic_guards(d)]
        if ("rankincls.line_order", True) in gs:
            a = d.value
        elif ("rankincls.line_order", False) in gs:
            b = d.value
    if a is None or b is None or len(defs) != 2:
        return None
    return a, b


def r1_arity(ctx):
    st = ctx.func(M + "_startTrace")
    au = ctx.func(M + "addUse")
    sfb, smb = _buffers(st)
    afb, amb = _buffers(au)
    ctx.require(sfb and afb, "C16.R1: the (file, memory) buffers are no longer "
                "unpacked from cls.traces[rank][type_]")
    heads = [c for c in pat.calls(st, attr="append")
             if text(c.func.value) in (sfb, smb) and c.args]
    ctx.require(len(heads) == 2, "C16.R1: _startTrace no longer appends the "
                "header to both buffers")
    rows = [c for c in pat.calls(au, attr="append")
            if text(c.func.value) in (afb, amb) and c.args]
    ctx.require(len(rows) == 2, "C16.R1: addUse no longer appends to both buffers")
    clean = lambda d: {k: v for k, v in d.items() if v}
    for branch in (True, False):
        hl = _len_b(ctx, st, heads[0].args[0], branch)
        rl = _len_b(ctx, au, rows[0].args[0], branch)
        if hl is None or rl is None:
            raise AnalysisError("C16.R1: list length of header/row not "
                                "expressible (header %s, row %s)" % (hl, rl))
        what = "rank in line_order" if branch else "matched rank"
        if clean(hl) == clean(rl):
            ctx.ok("C16.R1", au, rows[0], "row length %s equals header length "
                   "(%s)" % (clean(rl), what), text_="trace row/header arity " + what)
        else:
            ctx.bad("C16.R1", au, rows[0],
                    "a trace row has length %s but the header has length %s "
                    "(case: %s): rows and header columns do not line up (a "
                    "coordinate or position column is dropped or duplicated)"
                    % (clean(rl), clean(hl), what),
                    text_="trace row/header arity " + what)
    # both buffers receive the same row object
    if text(rows[0].args[0]) == text(rows[1].args[0]):
        ctx.ok("C16.R2", au, rows[1], "(c) file and memory buffers receive the "
               "same row")
    else:
        ctx.bad("C16.R2", au, rows[1], "(c) the file buffer receives `%s` but "
                "the consumable buffer `%s`: in-memory traces deliver "
                "different rows" % (text(rows[0].args[0]), text(rows[1].args[0])))


def _add1(nf):
    if nf is None:
        return None
    out = dict(nf)
    out[""] = out.get("", 0) + 1
    return out


# ---------------------------------------------------------------------------
def _open_mode(call):
    m = pat.kwarg(call, "mode", 1)
    return m.value if isinstance(m, ast.Constant) else None


def r2_flush(ctx):
    wt = ctx.func(M + "_writeTrace")
    st = ctx.func(M + "_startTrace")
    au = ctx.func(M + "addUse")
    ec = ctx.func(M + "endCollect")
    opens = [c for c in wt.own_nodes() if isinstance(c, ast.Call) and text(c.func) == "open"]
    if len(opens) == 1 and _open_mode(opens[0]) == "a":
        ctx.ok("C16.R2", wt, opens[0], "(a) flush appends to the trace file")
    else:
        ctx.bad("C16.R2", wt, opens[0] if opens else wt.node, "(a) _writeTrace "
                "must open the trace file in append mode: with 'w' every flush "
                "overwrites the rows flushed before, so the file content "
                "depends on num_cached_uses", text_="_writeTrace open mode")
    opens = [c for c in st.own_nodes() if isinstance(c, ast.Call) and text(c.func) == "open"]
    if len(opens) == 1 and _open_mode(opens[0]) == "w":
        ctx.ok("C16.R2", st, opens[0], "(a) the file is truncated once when the "
               "trace starts")
    else:
        ctx.bad("C16.R2", st, opens[0] if opens else st.node, "(a) _startTrace "
                "no longer truncates the trace file", text_="_startTrace open mode")
    # (b) buffer reset
    wfb, wmb = _buffers(wt)
    ctx.require(wfb, "C16.R2: _writeTrace no longer unpacks the buffers")
    resets = [n for n in wt.own_nodes() if isinstance(n, ast.Assign) and
              text(n.targets[0]).replace(" ", "") ==
              "%s.traces[%s][%s]" % tuple(wt.params[:3])]
    ok = False
    for n in resets:
        v = n.value
        if isinstance(v, ast.Tuple) and v.elts and isinstance(v.elts[0], ast.List) \
                and not v.elts[0].elts:
            wr = [c for c in pat.calls(wt, attr="write")]
            g = cfg_of(wt, assert_edges=False)
            if wr and g.can_reach(enclosing_stmt(wr[0]), n):
                ok = True
    if ok:
        ctx.ok("C16.R2", wt, resets[0], "(b) the file buffer is rebound to a "
               "fresh empty list after writing")
    else:
        ctx.bad("C16.R2", wt, wt.node, "(b) _writeTrace does not reset the "
                "file buffer to a fresh empty list after writing: the same "
                "rows are written again at the next flush",
                text_="_writeTrace buffer reset")
    # what is written is the whole buffer
    okw = False
    for c in pat.calls(wt, attr="write"):
        a0 = c.args[0] if c.args else None
        if isinstance(a0, ast.Name):
            a0 = pat.single_def(ctx, wt, a0)        # the text was built beforehand
        if isinstance(a0, ast.Call) and isinstance(a0.func, ast.Attribute) and \
                a0.func.attr == "join" and a0.args:
            lst = a0.args[0]
            if isinstance(lst, ast.Name):
                m_ = pat.resolve_list_map(pat.list_maps(wt), lst.id)
                if m_ is not None and text(m_[0]) == wfb:
                    okw = True      # one string per buffered row, in order
                lst = pat.single_def(ctx, wt, lst)
            if isinstance(lst, (ast.ListComp, ast.GeneratorExp)) and \
                    len(lst.generators) == 1 and not lst.generators[0].ifs and \
                    text(lst.generators[0].iter) == wfb:
                okw = True
    if okw:
        ctx.ok("C16.R2", wt, wt.node, "every buffered row is written, in order",
               text_="_writeTrace rows")
    else:
        ctx.bad("C16.R2", wt, wt.node, "_writeTrace no longer writes every "
                "buffered row in order", text_="_writeTrace rows")
    # (e) flush test after the append
    cls_ = au.params[0]
    fl = [c for c in pat.calls(au, name="%s._writeTrace" % cls_)]
    fb = None
    for n in au.own_nodes():
        if isinstance(n, ast.Assign) and isinstance(n.targets[0], ast.Tuple) and \
                text(n.value).replace(" ", "").startswith("%s.traces[" % cls_):
            fb = text(n.targets[0].elts[0])
    ok = False
    if len(fl) == 1 and fb:
        gs = set()
        for t, pol in atomic_guards(enclosing_stmt(fl[0])):
            gs.add(pat.catom(ctx, au, t, pol, False))
        app = [c for c in pat.calls(au, attr="append")
               if text(c.func.value) == fb]
        g = cfg_of(au, assert_edges=False)
        full = pat.A("==", "len(%s)" % fb, "%s.num_cached_uses" % cls_) in gs or \
            pat.A("<=", "%s.num_cached_uses" % cls_, "len(%s)" % fb) in gs
        ok = full and pat.A("is not", fb, "None") in gs and bool(app) and \
            g.can_reach(enclosing_stmt(app[0]), enclosing_stmt(fl[0])) and \
            not g.can_reach(enclosing_stmt(fl[0]), enclosing_stmt(app[0]))
    if ok:
        ctx.ok("C16.R2", au, fl[0], "(e) flush when the buffer reaches "
               "num_cached_uses, after the append")
    else:
        ctx.bad("C16.R2", au, fl[0] if fl else au.node, "(e) addUse no longer "
                "flushes exactly when len(file_trace) == num_cached_uses after "
                "appending the row", text_="addUse flush test")
    # (d) endCollect flushes before dropping the traces
    g = cfg_of(ec, assert_edges=False)
    ecls = ec.params[0]
    fl = [c for c in pat.calls(ec, name="%s._writeTrace" % ecls)]
    drop = [n for n in ec.own_nodes() if isinstance(n, ast.Assign)
            and text(n.targets[0]) == "%s.traces" % ecls]
    ok = False
    if fl and drop:
        loops = [a for a in _anc(fl[0]) if isinstance(a, ast.For)]
        outer = [l for l in loops if text(l.iter).replace(" ", "") ==
                 "%s.traces.items()" % ecls]
        whole = False
        fbv = None
        if len(loops) == 2 and outer and isinstance(outer[0].target, ast.Tuple) \
                and len(outer[0].target.elts) == 2:
            dvar = text(outer[0].target.elts[1])
            inner = [l for l in loops if l is not outer[0]][0]
            if text(inner.iter).replace(" ", "") == "%s.items()" % dvar and \
                    isinstance(inner.target, ast.Tuple) and \
                    isinstance(inner.target.elts[1], ast.Tuple):
                whole = True
                fbv = text(inner.target.elts[1].elts[0])
        gs = {pat.catom(ctx, ec, t, pol, False) for t, pol in
              atomic_guards(enclosing_stmt(fl[0]))}
        ok = whole and gs == {pat.A("is not", fbv, "None")} and \
            g.can_reach(loops[-1], drop[0]) and not g.can_reach(drop[0], loops[-1])
    if ok:
        ctx.ok("C16.R2", ec, fl[0], "(d) every file buffer is flushed before the "
               "traces are dropped")
    else:
        ctx.bad("C16.R2", ec, ec.node, "(d) endCollect does not flush every "
                "trace that has a file buffer before it clears cls.traces: the "
                "rows still buffered at the end are lost",
                text_="endCollect final flush")


def _anc(n):
    from ..cfg import ancestors
    return list(ancestors(n))


# ---------------------------------------------------------------------------
def _stream_kind(ctx, f, name_node):
    """Kind of the stream a loop / next() draws from."""
    d = pat.single_def(ctx, f, name_node) if isinstance(name_node, ast.Name) else name_node
    if d is None:
        # several definitions (iterRange: lazy stream vs raw generator)
        facts, _ = ctx.ty.facts_at(f, name_node.id, name_node)
        kinds = set()
        for fa in facts:
            kinds.add(_expr_kind(ctx, f, fa.value))
        if kinds <= {RAW, LAZY} and kinds:
            return RAW
        return kinds.pop() if len(kinds) == 1 else None
    return _expr_kind(ctx, f, d)


def _expr_kind(ctx, f, e, depth=0):
    if isinstance(e, (ast.GeneratorExp, ast.ListComp)) and len(e.generators) == 1:
        g = e.generators[0]
        if g.ifs:
            # a filtering comprehension: ordinals no longer are positions
            return FILTERED
        if isinstance(g.iter, ast.Name) and depth < 4:
            facts, _ = ctx.ty.facts_at(f, g.iter.id, g.iter)
            kinds = {_expr_kind(ctx, f, fa.value, depth + 1) for fa in facts
                     if fa.kind == "expr"}
            if len(kinds) == 1:
                return kinds.pop()
            if kinds and kinds <= {RAW, LAZY}:
                return RAW
            return FILTERED if FILTERED in kinds else None
        k, base = iter_kind(ctx, f, g.iter)
        if k == RAW:
            return RAW
    k, base = iter_kind(ctx, f, e)
    return k


def _raw_offset(ctx, f, src):
    """Start variable of `((x.coords[j], x.payloads[j]) for j in range(i,
    len(x.coords)))`, if the raw stream does not start at 0."""
    cands = []
    if isinstance(src, ast.Name):
        facts, _ = ctx.ty.facts_at(f, src.id, src)
        cands = [fa.value for fa in facts if fa.kind == "expr"]
    else:
        cands = [src]
    for e in cands:
        if isinstance(e, ast.GeneratorExp) and len(e.generators) == 1:
            it = e.generators[0].iter
            if isinstance(it, ast.Call) and text(it.func) == "range" and len(it.args) >= 2:
                a0 = it.args[0]
                if not (isinstance(a0, ast.Constant) and a0.value == 0):
                    return text(a0)
    return None


def _type_texts(ctx, f, ty, depth=0):
    """Texts (temporaries inlined) of the values a trace-type expression can
    take: a variable with several definitions (`t = name if traced else
    None`) stands for each of them."""
    if isinstance(ty, ast.IfExp):
        return _type_texts(ctx, f, ty.body, depth) + _type_texts(ctx, f, ty.orelse, depth)
    if isinstance(ty, ast.Name) and depth < 3:
        facts, is_param = ctx.ty.facts_at(f, ty.id, ty)
        vals = [fa.value for fa in facts if fa.kind == "expr" and not fa.path]
        if not is_param and vals and len(vals) == len(facts) and len(vals) > 1:
            out = []
            for v in vals:
                out.extend(_type_texts(ctx, f, v, depth + 1))
            return out
    return [pat.inline(ctx, f, ty).replace(" ", "")]


def _classify_pos(ctx, f, call):
    """('POS'|'ORD'|'DEST'|None, explanation)"""
    pos = call.args[2] if len(call.args) > 2 else pat.kwarg(call, "pos")
    ty = pat.kwarg(call, "type_", 3)
    if ty is not None:
        tts = [t for t in _type_texts(ctx, f, ty) if t != "None"]
        if tts and all(t.startswith(("'populate_read_'", "'populate_write_'")) for t in tts):
            return "DEST", "destination-side populate address (staging exemption)"
    if pos is None:
        return None, "no position argument"
    return _pos_domain(ctx, f, pos, call)


def _pos_domain(ctx, f, pos, call, depth=0):
    if depth > 4:
        return None, "too deep"
    if isinstance(pos, ast.BinOp) and isinstance(pos.op, ast.Add):
        a, wa = _pos_domain(ctx, f, pos.left, call, depth + 1)
        b, wb = _pos_domain(ctx, f, pos.right, call, depth + 1)
        if "ORD" in (a, b):
            return "ORD", wa if a == "ORD" else wb
        for x, y, tx in ((a, b, pos.right), (b, a, pos.left)):
            if x and x.startswith("REL:"):
                if y == "OFF" and text(tx) == x[4:]:
                    return "POS", "start offset + index over the raw positional stream"
                return "ORD", "a position relative to the start offset `%s` is " \
                              "not combined with that offset" % x[4:]
        if a in ("POS", "OFF") and b in ("POS", "OFF"):
            return "POS", "%s + %s" % (wa, wb)
        return None, "sum of %s and %s" % (wa, wb)
    if isinstance(pos, ast.Name):
        facts, is_param = ctx.ty.facts_at(f, pos.id, pos)
        allf = ctx.ty.assignments(f).get(pos.id, [])
        # loop index of enumerate(stream)
        for fa in facts:
            if fa.kind == "elem" and fa.path == (0,) and \
                    isinstance(fa.value, ast.Call) and text(fa.value.func) == "enumerate":
                src = fa.value.args[0]
                k = _stream_kind(ctx, f, src)
                if k == RAW:
                    off = _raw_offset(ctx, f, src)
                    if off:
                        return "REL:" + off, ("index over the raw positional "
                                              "stream starting at `%s`" % off)
                    return "POS", "index over the raw positional stream `%s`" % text(src)
                if k in (FILTERED, DENSE, LAZY):
                    return "ORD", ("`%s` counts the elements of the %s stream "
                                   "`%s`" % (pos.id, k, text(src)))
                return None, "enumerate over unclassified stream `%s`" % text(src)
        # _coord2pos result
        vals = [fa.value for fa in facts if fa.kind == "expr" and not fa.path]
        if vals and all((isinstance(v, ast.Call) and isinstance(v.func, ast.Attribute)
                         and v.func.attr == "_coord2pos") or
                        (isinstance(v, ast.Name) and v.id.endswith("_pos") and
                         v.id in f.all_param_names()) for v in vals) and \
                any(isinstance(v, ast.Call) for v in vals):
            return "POS", "result of _coord2pos (or the caller's start position)"
        # hand-incremented counter: `x = 0` ... `x += 1`
        consts = [fa for fa in allf if fa.kind == "expr" and
                  isinstance(fa.value, ast.Constant) and
                  not isinstance(fa.stmt, ast.AugAssign)]
        augs = [fa for fa in allf if isinstance(fa.stmt, ast.AugAssign)]
        if augs and len(consts) + len(augs) == len(allf) and \
                all(isinstance(fa.value, ast.Constant) and fa.value.value == 1
                    for fa in augs):
            k, why = _counter_stream(ctx, f, pos.id, text(call.args[1]) if len(call.args) > 1 else None)
            if k == RAW:
                return "POS", why
            if k:
                return "ORD", why
            return None, why
        # offsets: start position variables (`i = start_pos` / `i = 0`)
        if vals and all(isinstance(v, ast.Constant) or
                        (isinstance(v, ast.Name) and "start" in v.id) or
                        (isinstance(v, ast.Attribute) and "start" in v.attr)
                        for v in vals):
            return "OFF", "start offset `%s`" % pos.id
        if is_param and "pos" in pos.id:
            return "POS", "position parameter"
        return None, "unclassified name `%s`" % pos.id
    if isinstance(pos, ast.Constant):
        return "OFF", "constant"
    return None, "unclassified expression `%s`" % text(pos)


def _counter_stream(ctx, f, cname, coord=None):
    """A hand-incremented position counter belongs to the stream whose head
    coordinate is the one reported with it: the iterator `it` of the
    priming / advancing assignment `<coord>, _ = _get_next(it)`.  Returns the
    kind of that stream."""
    its = set()
    for n in f.own_nodes():
        if isinstance(n, ast.Assign) and isinstance(n.targets[0], ast.Tuple) and \
                isinstance(n.value, ast.Call) and text(n.value.func) == "_get_next" \
                and n.value.args and isinstance(n.value.args[0], ast.Name) and \
                n.targets[0].elts and text(n.targets[0].elts[0]) == coord:
            its.add(n.value.args[0].id)
    kinds = set()
    for it in its:
        for n in f.own_nodes():
            if isinstance(n, ast.Call) and text(n.func) == "_get_next" and n.args \
                    and isinstance(n.args[0], ast.Name) and n.args[0].id == it:
                k = _stream_kind(ctx, f, n.args[0])
                if k:
                    kinds.add(k)
    if len(kinds) == 1:
        k = kinds.pop()
        return k, "`%s` is incremented once per element taken from the %s stream " \
                  "that delivers `%s`" % (cname, k, coord)
    return None, "counter `%s` (reported with coordinate `%s`) advanced with " \
                 "streams %s" % (cname, coord, sorted(kinds))


def r3_positions(ctx):
    n = 0
    for f in ctx.prog.funcs.values():
        if f.module.rel == "core/metrics.py" or \
                f.module.rel.startswith(("codec/", "notebook/")):
            continue
        for c in pat.calls(f, name="Metrics.addUse"):
            n += 1
            ctx.consulted.add(f.module.rel)
            ty = pat.kwarg(c, "type_", 3)
            if isinstance(ty, ast.Constant) and ty.value is None:
                ctx.ok("C16.R3", f, c, "type_=None: refreshes the current point "
                       "only, no row (and no position) is recorded")
                continue
            kind, why = _classify_pos(ctx, f, c)
            if kind and kind.startswith("REL:"):
                kind, why = "ORD", ("a position relative to the start offset "
                                    "`%s` is reported without that offset" % kind[4:])
            if kind in ("POS", "DEST"):
                ctx.ok("C16.R3", f, c, "position argument: %s" % why)
            elif kind == "ORD":
                ctx.bad("C16.R3", f, c,
                        "the position written to the trace is an ordinal, not "
                        "the element's index in the fiber: %s; with an explicit "
                        "default (or an empty sub-fiber) ahead of the element "
                        "the trace addresses the wrong slot (e.g. Fiber([0,1,2],"
                        "[0,5,6]) reports positions 0,1 for coordinates 1,2)"
                        % why)
            else:
                ctx.errors.append("C16.R3: cannot classify the position "
                                  "argument of `%s` in %s (%s)"
                                  % (text(c)[:70], f.key, why))
    ctx.floor("C16.R3", n, 20, "Metrics.addUse call sites")


# -- R4: the current point is refreshed before every yield of a ticking rank ----

def _collect_names(ctx, f):
    """({names true iff collecting}, rank variable) of a ticking generator."""
    coll, rank = set(), None
    for n in f.own_nodes():
        if isinstance(n, ast.Assign) and isinstance(n.value, ast.Call):
            fn = text(n.value.func)
            if fn == "_prep_metrics_inc" and isinstance(n.targets[0], ast.Tuple) \
                    and len(n.targets[0].elts) == 2:
                coll.add(text(n.targets[0].elts[0]))
                rank = text(n.targets[0].elts[1])
            elif fn == "Metrics.isCollecting" and isinstance(n.targets[0], ast.Name):
                coll.add(n.targets[0].id)
    return coll, rank


def _accessor_refreshes(ctx, callee):
    """The accessor calls Metrics.addUse(<own rank>, <its first coordinate>, ..)
    under no other branch condition than 'collecting', on every path to a
    normal return.  -> (ok, reason)"""
    from ..cfg import ENTRY
    uses = [c for c in pat.calls(callee, name="Metrics.addUse")]
    if not uses:
        return False, "%s never calls Metrics.addUse" % callee.qual
    g = cfg_of(callee, assert_edges=False)
    why = None
    for c in uses:
        st = enclosing_stmt(c)
        bad = None
        for t, pol in guards(st, asserts=False):
            for a, apol in pat.conjuncts(t, pol):
                tt = text(a).replace(" ", "")
                if not (apol and tt == "Metrics.isCollecting()"):
                    bad = tt if apol else "not " + tt
        if bad:
            why = "its Metrics.addUse is additionally conditioned on `%s`" % bad
            continue
        coord_ok = len(c.args) > 1 and callee.vararg and \
            text(c.args[1]).replace(" ", "") == "%s[0]" % callee.vararg
        if not coord_ok:
            why = "its Metrics.addUse does not pass the accessed coordinate"
            continue
        top = st
        while getattr(top, "_parent", None) is not None and top not in callee.body:
            top = top._parent
        rets = pat.returns(callee)
        if all(r not in g.reachable(ENTRY, avoid={top}) for r in rets):
            return True, None
        why = "a return of %s is reachable without passing its Metrics.addUse" % callee.qual
    return False, why


def r4_point(ctx):
    I = "core/iterators.py:"
    for name in ("iterRange", "iterRangeShape", "iterRangeShapeRef"):
        f0 = ctx.func(I + name)
        coll, rank = _collect_names(ctx, f0)
        ctx.require(coll and rank, "C16.R4: %s does not obtain (collecting, rank) "
                    "from _prep_metrics_inc" % name)
        # the function as it reads while collecting with tick=True
        from ..symcase import case_view, names_decider
        case = {c: True for c in coll}
        if "tick" in f0.all_param_names():
            case["tick"] = True
        f = case_view(f0, names_decider(case), "collecting+tick")
        ys = pat.yields(f)
        ctx.require(len(ys) == 1, "C16.R4: %s must have one yield (while collecting "
                    "with tick=True)" % name)
        y = enclosing_stmt(ys[0])
        yv = ys[0].value
        ctx.require(isinstance(yv, ast.Call) and yv.args, "C16.R4: %s does not "
                    "yield CoordPayload(coord, payload)" % name)
        cvar = text(yv.args[0])
        loops = [a for a in _anc(y) if isinstance(a, ast.For)]
        ctx.require(loops, "C16.R4: yield of %s is not in a loop" % name)
        loop = loops[0]
        g = cfg_of(f, assert_edges=False)
        tickp = {"tick"} & set(f.all_param_names())
        found, reasons = None, []
        for c in f.own_nodes():
            if not isinstance(c, ast.Call) or not is_within(c, loop):
                continue
            st = enclosing_stmt(c)
            if text(c.func) == "Metrics.addUse":
                if len(c.args) < 2 or text(c.args[0]) != rank or text(c.args[1]) != cvar:
                    continue
                # conditioned only on collecting (and tick)
                top = st
                conds = []
                for t, pol in guards(st, stop=loop, asserts=False):
                    conds.append((t, pol))
                # guards shared with the yield do not count
                ycond = {(text(t), pol) for t, pol in guards(y, stop=loop, asserts=False)}
                extra = []
                for t, pol in conds:
                    if (text(t), pol) in ycond:
                        continue
                    for a, apol in pat.conjuncts(t, pol):
                        tt = text(a).replace(" ", "")
                        if not (apol and (tt in coll or tt in tickp)):
                            extra.append(tt)
                    top = [x for x in _anc(c) if isinstance(x, ast.If) and x.test is t][0] \
                        if any(isinstance(x, ast.If) and x.test is t for x in _anc(c)) else top
                if extra:
                    reasons.append("addUse additionally conditioned on %s" % extra)
                    continue
                if g.dominates(top, y) or top is y:
                    found = (c, "Metrics.addUse(%s, %s, ..) in front of the yield"
                             % (rank, cvar))
                else:
                    reasons.append("addUse does not dominate the yield")
            elif isinstance(c.func, ast.Attribute) and \
                    c.func.attr in ("getPayload", "getPayloadRef") and \
                    text(c.func.value) == f.params[0] and c.args and \
                    text(c.args[0]) == cvar and len(c.args) == 1:
                callee = ctx.prog.maybe_method("Fiber", c.func.attr)
                if callee is None:
                    continue
                ok, why = _accessor_refreshes(ctx, callee)
                if ok and g.dominates(st, y):
                    found = found or (c, "%s(%s) records the coordinate whenever "
                                      "collecting" % (c.func.attr, cvar))
                elif not ok:
                    reasons.append("%s: %s" % (c.func.attr, why))
        if found:
            ctx.ok("C16.R4", f, found[0], "current point refreshed before the "
                   "yield: %s" % found[1], text_="%s point refresh" % name)
        else:
            ctx.bad("C16.R4", f, y, "%s yields coordinate `%s` without "
                    "refreshing the current point of rank `%s` (%s): rows that "
                    "deeper traced ranks write while this element is visited "
                    "carry a stale coordinate for this rank (0 or the one left "
                    "by an earlier access)" % (name, cvar, rank,
                                               "; ".join(reasons) or "no "
                                               "Metrics.addUse / recording accessor on the path"),
                    text_="%s point refresh" % name)
