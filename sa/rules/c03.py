"""C03 -- point access behaves like a map from points to values (partial).

Decided clauses: R1 reads do not write tree/rank state; R2 a reference is
an alias of the stored payload (never a copy, never the un-inserted
default) and the tensor wrappers delegate unchanged; R3 in-place box
operators keep identity (every __i*__ returns self); R4 defaults are fresh
per call.  Map semantics over histories / start_pos equivalence are value
properties and are not decided.
"""

import ast

from ..model import text, AnalysisError
from ..cfg import cfg_of, EXIT, enclosing_stmt, guards
from ..effects import is_tree_loc, STATS_LOCS, FRESH, strip, fields_of
from ..sites import field_mutations
from .. import pat

EXPLANATION = (
    "Structural clauses of point access decided from effect/alias summaries "
    "and the CFG: the read accessors (getPayload, getPosition, __getitem__, "
    "Tensor.getPayload and everything they reach, with addtorank propagated "
    "as a constant) have no tree/rank write effect; getPayloadRef / "
    "getPositionRef return (or leave behind) an element loaded from the "
    "fiber's own payload list after any insertion, never a fresh object; "
    "_create_payload returns the stored element; the Tensor wrappers return "
    "the rank-0 box itself and otherwise delegate with *args/**kwargs "
    "unchanged; every in-place operator method returns self on every normal "
    "path; defaults handed out by _createDefault are fresh; (R5) whether "
    "getPayload / getPayloadRef treat a coordinate as present is decided "
    "from the coordinate lists alone (never from the stored payload's "
    "value, so a stored default or empty sub-fiber is still the element "
    "that was written); (R6) fiber assignment (`<<=`, what a handle obtained at "
    "a partial point is written through) reaches every normal return only "
    "through the step that drops the old content and the loop that copies "
    "the new one -- no path leaves the old content in place.  Last-write-wins "
    "over histories, prefix reads and start_pos equivalence are not decided.")
RULE = ("one obligation per read accessor (effect query), per return path of "
        "the reference accessors, per tensor wrapper and per in-place "
        "operator method")

READS = [("Fiber", "getPayload"), ("Fiber", "getPosition"),
         ("Fiber", "__getitem__"), ("Tensor", "getPayload"),
         ("Tensor", "__getitem__"), ("Fiber", "_coord2pos"),
         ("Fiber", "_coordExists"), ("Fiber", "payload")]
ALLOWED_PREFIX = ("Metrics.", "ImageUtils.", "FS.")


def run(ctx):
    eff = ctx.eff
    ctx.guard(r1, eff)
    ctx.guard(r2, eff)
    ctx.guard(r3)
    ctx.guard(r4, eff)
    ctx.guard(r5)
    ctx.guard(r6_assign)
    ctx.guard(r7_shortcut)
    ctx.assume("saved-position statistics (Fiber._saved_*) are an accelerator; "
               "writes to them are not tree effects")


def r1(ctx, eff):
    for cname, mname in READS:
        f = ctx.method(cname, mname)
        roots = {("p", n) for n in f.all_param_names()}
        bad = []
        for loc, r, cond, w in eff.writes(f, tree_only=True):
            if r in roots and loc not in STATS_LOCS:
                bad.append((loc, r, cond, w))
        certain = [b for b in bad if not b[3].uncertain]
        if bad and not certain:
            ctx.errors.append("C03.R1: an unresolved receiver decides the "
                              "verdict for %s: %s" % (f.key, bad[0][3].render()))
            continue
        if certain:
            seen = set()
            for loc, r, cond, w in certain:
                k = w.site()
                if k in seen:
                    continue
                seen.add(k)
                ctx.bad("C03.R1", f, f.node,
                        "read accessor %s.%s writes %s of an object rooted at "
                        "`%s`: a read changes the tree (e.g. a miss registers "
                        "or inserts a default) via %s"
                        % (cname, mname, loc, r[1], w.render()),
                        text_="%s -> %s: %s" % (mname, k[0].split(":")[-1], k[1]))
        else:
            ctx.ok("C03.R1", f, f.node, "no tree/rank write effect "
                   "(Fiber._saved_* and Metrics excepted)",
                   text_="%s.%s" % (cname, mname))


def _alias_only(ctx, eff, f, what):
    """rets of f: no fresh object, every identity root is a sub-object of
    `self` reached through the payload list."""
    s = eff.sum[f]
    selfp = ("p", f.params[0])
    for r in s.rets:
        b = strip(r)
        if b[0] == "glob":
            continue
        if b == FRESH:
            return False, "may return a fresh object (a copy or a default " \
                          "that was not stored)"
        if b != selfp:
            if b[0] == "p" and b[1] in ("payload",):
                continue        # the caller-supplied payload, which is inserted
            return False, "may return something rooted at `%s`" % (b[1] if len(b) > 1 else b)
        if r[0] != "sub":
            return False, "may return the fiber itself"
    return True, ""


def r2(ctx, eff):
    # _create_payload returns the stored element
    f = ctx.method("Fiber", "_create_payload")
    ins = [m for m in field_mutations(ctx, f, {"payloads"}) if m.kind == "call:insert"]
    ctx.require(ins, "C03.R2: _create_payload no longer inserts")
    g = cfg_of(f, assert_edges=False)
    for r in pat.returns(f):
        v = r.value
        src = pat.inline(ctx, f, v).replace(" ", "") if v is not None else ""
        pos = pat.inline(ctx, f, ins[0].args[0]).replace(" ", "")
        stored = text(ins[0].args[1])
        ok = False
        if isinstance(v, ast.Name):
            facts, is_param = ctx.ty.facts_at(f, v.id, v)
            ok = all(fa.kind == "expr" and text(fa.value).replace(" ", "") ==
                     "self.payloads[%s]" % text(ins[0].args[0]).replace(" ", "")
                     and g.dominates(ins[0].stmt, fa.stmt) for fa in facts) \
                and not is_param and bool(facts)
            if not ok and v.id == stored and g.dominates(ins[0].stmt, r):
                ok = True
        if ok:
            ctx.ok("C03.R2", f, r, "returns the element stored in the payload list")
        else:
            ctx.bad("C03.R2", f, r, "_create_payload returns `%s`, which is not "
                    "the element it just stored: the reference handed to the "
                    "caller does not alias the tree" % text(v))
    for mname in ("getPayloadRef",):
        f = ctx.method("Fiber", mname)
        ok, why = _alias_only(ctx, eff, f, mname)
        rets = pat.returns(f)
        ctx.require(rets, "C03.R2: %s has no return" % mname)
        if ok:
            ctx.ok("C03.R2", f, rets[-1], "every returned value is an element "
                   "of the fiber's own payload list (after insertion)")
        else:
            ctx.bad("C03.R2", f, rets[-1],
                    "Fiber.%s %s: assignment or in-place arithmetic through "
                    "the returned handle is then invisible to later reads"
                    % (mname, why), text_="%s return value" % mname)
        # the recursive path returns the callee's result unchanged
        for r in rets:
            if isinstance(r.value, ast.Call) and isinstance(r.value.func, ast.Attribute) \
                    and r.value.func.attr == mname:
                args = [text(a) for a in r.value.args]
                if args and args[0].replace(" ", "") == "*coords[1:]":
                    ctx.ok("C03.R2", f, r, "recursion on the remaining coordinates")
                else:
                    ctx.bad("C03.R2", f, r, "recursive %s call does not pass "
                            "the remaining coordinates `*coords[1:]`" % mname)
        # insertion happens exactly when the coordinate is absent
        cps = pat.calls(f, attr="_create_payload")
        ctx.require(cps, "C03.R2: %s no longer calls _create_payload" % mname)
    # getPositionRef inserts a missing coordinate
    f = ctx.method("Fiber", "getPositionRef")
    if pat.calls(f, attr="_create_payload"):
        ctx.ok("C03.R2", f, f.node, "getPositionRef creates the missing element",
               text_="def getPositionRef")
    else:
        ctx.bad("C03.R2", f, f.node, "getPositionRef no longer creates the "
                "missing element", text_="def getPositionRef")
    # tensor wrappers
    for mname in ("getPayload", "getPayloadRef"):
        f = ctx.method("Tensor", mname)
        rets = pat.returns(f)
        rank0 = deleg = False
        for r in rets:
            v = r.value
            if isinstance(v, ast.Name):
                d = pat.single_def(ctx, f, v)
                from ..cfg import atomic_guards
                gs = {pat.catom(ctx, f, t, pol, False) for t, pol in atomic_guards(r)}
                if d is not None and text(d) == "self.getRoot()" and \
                        pat.T("isinstance(%s, Payload)" % v.id) in gs:
                    rank0 = True
            if isinstance(v, ast.Call) and isinstance(v.func, ast.Attribute) and \
                    v.func.attr == mname:
                a = [text(x) for x in v.args] + ["**" + text(k.value)
                                                 for k in v.keywords if k.arg is None]
                if a == ["*" + f.vararg, "**" + f.kwarg] and \
                        pat.inline(ctx, f, v.func.value) == "self.getRoot()":
                    deleg = True
        if rank0 and deleg:
            ctx.ok("C03.R2", f, rets[-1], "rank-0 returns the root box itself; "
                   "otherwise delegates to the root with unchanged arguments")
        else:
            ctx.bad("C03.R2", f, f.node, "Tensor.%s no longer returns the "
                    "rank-0 root box itself / delegates to "
                    "root.%s(*args, **kwargs) unchanged" % (mname, mname),
                    text_="def %s(self, *args, **kwargs)" % mname)


INPLACE = ["__iadd__", "__isub__", "__imul__", "__itruediv__", "__ifloordiv__",
           "__ilshift__", "__irshift__", "__iand__", "__ior__", "__ixor__",
           "__imod__", "__ipow__", "__idiv__"]


def r3(ctx):
    n = 0
    for cname in ("Payload", "CoordPayload", "Fiber"):
        ci = ctx.prog.cls(cname)
        for mname in INPLACE:
            f = ci.methods.get(mname)
            if f is None:
                continue
            n += 1
            ctx.consulted.add(f.module.rel)
            g = cfg_of(f, assert_edges=False)
            selfn = f.params[0]
            bad = None
            for p in g.pred.get(EXIT, ()):
                if isinstance(p, ast.Return):
                    if p.value is None or text(p.value) != selfn:
                        bad = p
                else:
                    bad = p        # falls off the end: returns None
            if bad is None:
                ctx.ok("C03.R3", f, f.node, "every normal path returns self",
                       text_="%s.%s" % (cname, mname))
            else:
                ctx.bad("C03.R3", f, bad,
                        "%s.%s does not return self on the path ending at `%s`: "
                        "Python rebinds the left-hand name to the returned "
                        "object, so after `x %s= v` the handle is lost (None) "
                        "or no longer the stored box"
                        % (cname, mname, text(bad)[:50],
                           {"__ilshift__": "<<", "__iadd__": "+",
                            "__imul__": "*", "__isub__": "-"}.get(mname, "op")),
                        text_="%s.%s return" % (cname, mname))
    ctx.floor("C03.R3", n, 8, "in-place operator methods")


def r4(ctx, eff):
    f = ctx.method("Fiber", "_createDefault")
    s = eff.sum[f]
    shared = [r for r in s.rets if strip(r)[0] == "p"]
    if shared:
        ctx.bad("C03.R4", f, f.node, "_createDefault may hand out an object "
                "rooted at `%s` instead of a fresh default per call"
                % strip(shared[0])[1], text_="def _createDefault")
    else:
        ctx.ok("C03.R4", f, f.node, "default is fresh per call",
               text_="def _createDefault")


# -- R5: presence is decided by the coordinates, not by the stored value ------

def _mentions_payload(e):
    for n in ast.walk(e):
        if isinstance(n, ast.Attribute) and n.attr in ("payloads", "isEmpty", "value"):
            return n
        if isinstance(n, ast.Call) and isinstance(n.func, ast.Attribute) and \
                n.func.attr in ("getPayloads", "isEmpty"):
            return n
    return None


def r5(ctx):
    for mname in ("getPayload", "getPayloadRef"):
        f = ctx.method("Fiber", mname)
        found = []
        for n in f.own_nodes():
            if isinstance(n, ast.If):
                for st in n.body:
                    if isinstance(st, ast.Assign) and isinstance(st.value, ast.Subscript) \
                            and text(st.value.value) == "self.payloads":
                        found.append(n)
        ctx.require(len(found) == 1, "C03.R5: the present/absent branch of Fiber.%s "
                    "(`if <present>: payload = self.payloads[index]`) was not "
                    "found" % mname)
        iff = found[0]
        offender = None
        seen = set()
        todo = [(iff.test, iff)]
        while todo and offender is None:
            e, at = todo.pop()
            m = _mentions_payload(e)
            if m is not None:
                offender = (m, at)
                break
            for nm in [x for x in ast.walk(e) if isinstance(x, ast.Name)]:
                if not isinstance(nm.ctx, ast.Load):
                    continue
                facts, is_param = ctx.ty.facts_at(f, nm.id, nm if hasattr(nm, "_parent") else at)
                for fa in facts:
                    if id(fa.stmt) in seen or fa.stmt is None:
                        continue
                    seen.add(id(fa.stmt))
                    if fa.value is not None:
                        todo.append((fa.value, fa.stmt))
                    # control dependence of the definition
                    for t, pol in guards(fa.stmt, asserts=False):
                        todo.append((t, fa.stmt))
        if offender is None:
            ctx.ok("C03.R5", f, iff, "presence of the coordinate is decided from "
                   "the coordinate search alone", text_="%s presence" % mname)
        else:
            m, at = offender
            ctx.bad("C03.R5", f, at, "Fiber.%s decides whether the coordinate is "
                    "present from the stored payload (`%s`): an element holding "
                    "the default value / an empty sub-fiber reads as if it had "
                    "never been written (allocate=False returns the caller's "
                    "default or None instead of the stored object)"
                    % (mname, text(m)), text_="%s presence" % mname)


# -- R6: fiber assignment replaces the content on every path -------------------

def r6_assign(ctx):
    from ..cfg import ENTRY
    f = ctx.method("Fiber", "__ilshift__")
    g = cfg_of(f, assert_edges=False)
    p_other = f.params[1]

    def top(st):
        while st is not None and st not in f.body:
            st = getattr(st, "_parent", None)
        return st
    clears = {top(m.stmt) for m in field_mutations(ctx, f, {"coords", "payloads"})
              if text(m.base) == f.params[0] and m.kind in ("rebind", "call:clear", "delitem")}
    clears.discard(None)
    copies = {x for x in f.body if isinstance(x, ast.For) and any(
        isinstance(n, ast.Name) and n.id == p_other for n in ast.walk(x.iter))}
    ctx.require(clears, "C03.R6: Fiber.__ilshift__ no longer drops the old content")
    ctx.require(copies, "C03.R6: Fiber.__ilshift__ no longer copies from `%s`" % p_other)
    rets = pat.returns(f)
    ctx.require(rets, "C03.R6: Fiber.__ilshift__ has no return")
    for r in rets:
        miss = []
        for what, sites in (("drops the previous content", clears),
                            ("copies the assigned fiber's elements", copies)):
            if r in g.reachable(ENTRY, avoid=sites) or r in sites and False:
                miss.append(what)
        if miss:
            ctx.bad("C03.R6", f, r, "Fiber.__ilshift__ can return without the "
                    "step that %s: on that path `ref <<= fiber` leaves the old "
                    "elements in place, so a later read does not return what "
                    "was assigned (e.g. assigning an empty fiber through a "
                    "handle is silently ignored)" % " / ".join(miss))
        else:
            ctx.ok("C03.R6", f, r, "every path to this return clears the old "
                   "content and copies the new one")


# -- R7: a search-start shortcut never becomes an insertion position ---------------

def r7_shortcut(ctx):
    """getPayloadRef may start its search at `start_pos`, but a missing
    element is inserted where the search *ended*: _create_payload is called
    without `pos` (it searches itself) or with the result of _coord2pos for
    that coordinate -- never with the caller's shortcut."""
    f = ctx.method("Fiber", "getPayloadRef")
    calls = [c for c in pat.calls(f, attr="_create_payload")]
    ctx.require(calls, "C03.R7: getPayloadRef no longer inserts through _create_payload")
    for c in calls:
        pos = pat.kwarg(c, "pos", 2)
        if pos is None:
            ctx.ok("C03.R7", f, c, "insertion position left to _create_payload",
                   text_="getPayloadRef insertion position")
            continue
        v = pos
        if isinstance(v, ast.Name):
            v = pat.single_def(ctx, f, v) or v
        ok = isinstance(v, ast.Call) and isinstance(v.func, ast.Attribute) and \
            v.func.attr == "_coord2pos" and v.args and c.args and \
            text(v.args[0]) == text(c.args[0])
        if ok:
            ctx.ok("C03.R7", f, c, "insertion at the position the search returned",
                   text_="getPayloadRef insertion position")
        else:
            ctx.bad("C03.R7", f, c, "getPayloadRef inserts a missing element at "
                    "`%s`, which is not the result of the coordinate search: "
                    "with a legal start_pos the element lands in front of "
                    "smaller coordinates and later reads of untouched points "
                    "return defaults" % text(pos),
                    text_="getPayloadRef insertion position")
