"""C13 -- conversions between representations are lossless (partial, thin:
three preconditions without which no round trip can hold)."""

import ast

from ..model import text, AnalysisError
from ..cfg import cfg_of, guards, atomic_guards, enclosing_stmt
from .. import pat

EXPLANATION = (
    "Round-trip equality is a relation over values and is NOT decided.  "
    "Decided are three structural preconditions: (R1) the keys written by "
    "Tensor.dump / Fiber.fiber2dict equal the keys read by Tensor.parse / "
    "Fiber.dict2fiber (required and optional), the root is written as a "
    "one-element list and read with [0]; (R2) zero-squeezing compares with "
    "the caller's `default` at every level and hands it to every Fiber it "
    "builds, the all-default case returns an empty fiber with the nest's "
    "length as shape, Tensor.fromUncompressed derives the shape from the "
    "nest and forwards the default, uncompress fills with the leaf fiber's "
    "default; (R3) random construction draws only from the seeded `random` "
    "stream, seeding dominates every draw, recursive calls continue the "
    "stream, coordinates come from range(shape[0]).")
RULE = "one obligation per key set, per default-forwarding site, per entropy source"


def run(ctx):
    ctx.guard(r1_keys)
    ctx.guard(r2_default)
    ctx.guard(r3_random)
    ctx.guard(r4_levels)


def _dict_keys(d):
    return [k.value for k in d.keys if isinstance(k, ast.Constant)]


def _read_keys(f, var):
    """String literals used as `'k' in var` / `var['k']` / `var.get('k')`."""
    req, tested = set(), set()
    for n in f.own_nodes():
        if isinstance(n, ast.Subscript) and text(n.value) == var and \
                isinstance(n.slice, ast.Constant) and isinstance(n.slice.value, str):
            req.add(n.slice.value)
        # var.get('k') / var.get('k', default): the key is read where present
        if isinstance(n, ast.Call) and isinstance(n.func, ast.Attribute) and \
                n.func.attr in ("get", "pop", "setdefault") and text(n.func.value) == var \
                and n.args and isinstance(n.args[0], ast.Constant) and \
                isinstance(n.args[0].value, str):
            req.add(n.args[0].value)
        if isinstance(n, ast.Compare) and len(n.ops) == 1 and \
                isinstance(n.ops[0], (ast.In, ast.NotIn)) and \
                text(n.comparators[0]) == var and isinstance(n.left, ast.Constant):
            tested.add(n.left.value)
    return req, tested


def _sub_var(f, key):
    """(V, W) of the assignment `V = W['<key>']` in f."""
    for n in f.own_nodes():
        if isinstance(n, ast.Assign) and isinstance(n.targets[0], ast.Name) and \
                isinstance(n.value, ast.Subscript) and \
                isinstance(n.value.slice, ast.Constant) and \
                n.value.slice.value == key and isinstance(n.value.value, ast.Name):
            return n.targets[0].id, n.value.value.id
    return None, None


def r1_keys(ctx):
    dump = ctx.method("Tensor", "dump")
    parse = ctx.method("Tensor", "parse")
    top = inner = None
    for n in dump.own_nodes():
        if isinstance(n, ast.Dict) and _dict_keys(n) == ["tensor"]:
            top = n
            inner = n.values[0]
    ctx.require(isinstance(inner, ast.Dict), "C13.R1: Tensor.dump dict not found")
    written = set(_dict_keys(inner))
    yt, yf = _sub_var(parse, "tensor")
    ctx.require(yt, "C13.R1: Tensor.parse no longer reads y['tensor']")
    req, tested = _read_keys(parse, yt)
    treq, ttest = _read_keys(parse, yf)
    if written == req and "tensor" in (treq | ttest):
        ctx.ok("C13.R1", dump, inner, "tensor keys written %s = keys read %s"
               % (sorted(written), sorted(req)))
    else:
        ctx.bad("C13.R1", dump, inner, "Tensor.dump writes keys %s but "
                "Tensor.parse reads %s: %s is lost / never found on reload"
                % (sorted(written), sorted(req), sorted(written ^ req)))
    # root: written as a one-element list, read with [0]
    rootv = inner.values[_dict_keys(inner).index("root")] if "root" in written else None
    def _is_root(e):
        if isinstance(e, ast.Name):
            e = pat.single_def(ctx, parse, e)
        return e is not None and \
            text(e).replace(" ", "").replace('"', "'") == "%s['root']" % yt
    rd = [n for n in parse.own_nodes() if isinstance(n, ast.Subscript)
          and text(n.slice) == "0" and _is_root(n.value)]
    if isinstance(rootv, ast.List) and len(rootv.elts) == 1 and rd:
        ctx.ok("C13.R1", dump, rootv, "root written as [root], read as y_root[0]")
    else:
        ctx.bad("C13.R1", dump, rootv or inner, "the root is no longer written "
                "as a one-element list and read back with [0]")
    # fiber dict
    f2d = ctx.method("Fiber", "fiber2dict")
    d2f = ctx.method("Fiber", "dict2fiber")
    fd = None
    for n in f2d.own_nodes():
        if isinstance(n, ast.Dict) and _dict_keys(n) == ["fiber"]:
            fd = n.values[0]
    ctx.require(isinstance(fd, ast.Dict), "C13.R1: fiber2dict dict not found")
    w = set(_dict_keys(fd))
    yfb, ypd = _sub_var(d2f, "fiber")
    ctx.require(yfb, "C13.R1: dict2fiber no longer reads y['fiber']")
    req, tested = _read_keys(d2f, yfb)
    treq, ttest = _read_keys(d2f, ypd)
    if w == req and "fiber" in (treq | ttest):
        ctx.ok("C13.R1", f2d, fd, "fiber keys written %s = keys read %s"
               % (sorted(w), sorted(req)))
    else:
        ctx.bad("C13.R1", f2d, fd, "fiber2dict writes %s but dict2fiber reads "
                "%s" % (sorted(w), sorted(req)))
    # a reader gives up (exit) for what the writer cannot have produced: a
    # key that is absent, a value of the wrong kind -- never for a value that
    # is merely empty or zero (an empty fiber is written with coords: [],
    # payloads: []; a name may be ''), i.e. never on the truth value of what
    # was read
    from ..cfg import enclosing_stmt as _es
    n_exit = 0
    for rd_ in (parse, d2f, ctx.method("Fiber", "parse")):
        for c in rd_.own_nodes():
            if not (isinstance(c, ast.Call) and text(c.func) in ("exit", "sys.exit", "quit")):
                continue
            n_exit += 1
            stx = _es(c)
            lossy = None
            malformed = None
            for clause in pat.guard_dnf(ctx, rd_, stx, asserts=False, inline_=True) or []:
                for a in clause:
                    if a[0] == "truth" and a[1].startswith("isinstance("):
                        # a test of the kind of what was read: isinstance(<value>, <type>)
                        try:
                            ic = ast.parse(a[1], mode="eval").body
                        except SyntaxError:
                            ic = None
                        tn = {"dict", "list", "tuple", "str", "int", "float", "bool", "set"}
                        if not (isinstance(ic, ast.Call) and len(ic.args) == 2 and
                                not (isinstance(ic.args[0], ast.Name) and ic.args[0].id in tn)
                                and all(isinstance(x, ast.Name) and x.id in tn for x in (
                                    ic.args[1].elts if isinstance(ic.args[1], ast.Tuple)
                                    else [ic.args[1]]))):
                            malformed = a
                    if a[0] == "truth" and not a[1].startswith(("isinstance(", "callable(")) \
                            and " in " not in a[1] and "notin" not in a[1]:
                        lossy = a
                    elif a[0] in ("==", "!=") and (
                            {"[]", "''", "0", "{}", "()"} & set(a[1:]) or
                            any(x.startswith("len(") for x in a[1:])):
                        lossy = a
            if malformed is not None:
                ctx.bad("C13.R1", rd_, c, "%s tests the kind of what it read with `%s`, "
                        "which is not isinstance(<value>, <type>): the test raises (or "
                        "refuses every file) instead of telling a dump from something "
                        "else" % (rd_.qual, malformed[1]),
                        text_="%s gives up on absence only" % rd_.qual)
            elif lossy is not None:
                ctx.bad("C13.R1", rd_, c, "%s gives up when `%s` is %s: a value "
                        "that is present but empty / zero (what dump writes for "
                        "an empty fiber: coords: [], payloads: []) is refused, so "
                        "the dump of such an object does not load"
                        % (rd_.qual, lossy[1], "false" if lossy[0] == "truth" and not lossy[2]
                           else "true" if lossy[0] == "truth" else "so"),
                        text_="%s gives up on absence only" % rd_.qual)
            else:
                ctx.ok("C13.R1", rd_, c, "gives up on an absent key / wrong kind only",
                       text_="%s gives up on absence only" % rd_.qual)
    ctx.floor("C13.R1", n_exit, 6, "exits of the YAML readers")
    # rank-0 root goes through payload2dict / the non-fiber leg
    def gat(fn, st):
        from ..cfg import atomic_guards
        return {pat.catom(ctx, fn, t, pol) for t, pol in atomic_guards(st)}
    okd = {"p": False, "f": False}
    for c in dump.own_nodes():
        if isinstance(c, ast.Call):
            from ..cfg import enclosing_stmt
            g_ = gat(dump, enclosing_stmt(c))
            if text(c.func) == "Payload.payload2dict" and c.args and \
                    pat.inline(ctx, dump, c.args[0]).replace(" ", "") == "self.getRoot()" \
                    and pat.T("isinstance(self.getRoot(), Payload)") in g_:
                okd["p"] = True
            if isinstance(c.func, ast.Attribute) and c.func.attr == "fiber2dict" and \
                    pat.inline(ctx, dump, c.func.value).replace(" ", "") == "self.getRoot()" \
                    and pat.T("isinstance(self.getRoot(), Payload)", False) in g_:
                okd["f"] = True
    if okd["p"] and okd["f"]:
        ctx.ok("C13.R1", dump, dump.node, "rank-0 root dumped through "
               "payload2dict, fiber roots through fiber2dict", text_="Tensor.dump root")
    else:
        ctx.bad("C13.R1", dump, dump.node, "Tensor.dump no longer distinguishes "
                "a rank-0 (Payload) root from a fiber root", text_="Tensor.dump root")
    # the reader understands what the writer emits: yaml.dump writes Python
    # tuples (the coordinates of a flattened rank) as `!!python/tuple`, which
    # yaml.safe_load refuses
    for cname in ("Tensor", "Fiber"):
        wr = ctx.method(cname, "dump")
        rd = ctx.method(cname, "parse")
        wcalls = [c for c in wr.own_nodes() if isinstance(c, ast.Call)
                  and text(c.func) in ("yaml.dump", "yaml.safe_dump")]
        LOADS = ("yaml.safe_load", "yaml.full_load", "yaml.load", "yaml.unsafe_load")
        rcalls = [c for c in rd.own_nodes() if isinstance(c, ast.Call)
                  and text(c.func) in LOADS]
        if not rcalls:
            # the file may be read by a helper parse() calls
            for c in rd.own_nodes():
                if isinstance(c, ast.Call):
                    tg = ctx.ty.resolve(rd, c)
                    for h in getattr(tg, "funcs", None) or []:
                        if h.node is not None and h is not rd:
                            rcalls += [x for x in h.own_nodes() if isinstance(x, ast.Call)
                                       and text(x.func) in LOADS]
        ctx.require(wcalls and rcalls, "C13.R1: yaml writer / reader calls of %s.dump / "
                    "%s.parse not found" % (cname, cname))
        full_writer = any(text(c.func) == "yaml.dump" and not any(
            k.arg == "Dumper" and "Safe" in text(k.value) for k in c.keywords) for c in wcalls)
        for c in rcalls:
            safe_reader = text(c.func) == "yaml.safe_load" or any(
                k.arg == "Loader" and "Safe" in text(k.value) for k in c.keywords)
            if full_writer and safe_reader:
                ctx.bad("C13.R1", rd, c, "%s.dump writes with yaml.dump (tuple "
                        "coordinates become `!!python/tuple`) but %s.parse reads with "
                        "a safe loader, which rejects that tag: a flattened tensor "
                        "cannot be loaded back" % (cname, cname),
                        text_="%s yaml reader matches writer" % cname)
            else:
                ctx.ok("C13.R1", rd, c, "reader accepts what the writer emits",
                       text_="%s yaml reader matches writer" % cname)
    fy = ctx.method("Tensor", "fromYAMLfile")
    okr = False
    rv = None
    for n in fy.own_nodes():
        if isinstance(n, ast.Assign) and isinstance(n.targets[0], ast.Tuple) and \
                isinstance(n.value, ast.Call) and text(n.value.func) == "Tensor.parse" \
                and len(n.targets[0].elts) == 4:
            rv = text(n.targets[0].elts[1])
    for n in fy.own_nodes():
        if isinstance(n, ast.Assign) and isinstance(n.targets[0], ast.Attribute) and \
                n.targets[0].attr == "_root" and rv and \
                text(n.value).replace(" ", "") == "Payload(%s)" % rv and \
                pat.T("isinstance(%s, Fiber)" % rv, False) in gat(fy, n):
            okr = True
    # what parse() read reaches the tensor that is returned: a field unpacked
    # from the parse result and unused on a path to a return was saved for
    # nothing (the reloaded tensor has lost it) -- `rank_ids` alone may stay
    # unused where the root is not a fiber (a rank-0 tensor has none)
    from ..cfg import cfg_of as _cfg
    g_ = _cfg(fy, assert_edges=False)
    unpack = [n for n in fy.own_nodes() if isinstance(n, ast.Assign)
              and isinstance(n.targets[0], ast.Tuple) and isinstance(n.value, ast.Call)
              and text(n.value.func) == "Tensor.parse"]
    if unpack:
        fields = [text(e) for e in unpack[0].targets[0].elts]
        for r in pat.returns(fy):
            # statements on some path from the unpacking to this return
            on_path = [st for st in g_.stmts
                       if (st is r or st is unpack[0] or
                           (g_.can_reach(unpack[0], st) and g_.can_reach(st, r)))]
            used = set()
            for st in on_path:
                if st is unpack[0]:
                    continue
                if isinstance(st, (ast.If, ast.While, ast.For)):
                    hdr = st.test if not isinstance(st, ast.For) else st.iter
                    used |= {x.id for x in ast.walk(hdr) if isinstance(x, ast.Name)}
                    continue
                used |= {x.id for x in ast.walk(st) if isinstance(x, ast.Name)
                         and isinstance(x.ctx, ast.Load)}
            rank0 = rv is not None and pat.T("isinstance(%s, Fiber)" % rv, False) in gat(fy, r)
            lost = [fl for fl in fields if fl not in used and not (rank0 and fl == fields[0])]
            if lost:
                ctx.bad("C13.R1", fy, r, "Tensor.fromYAMLfile reads %s from the file "
                        "but returns a tensor built without %s: a dumped tensor "
                        "comes back without its %s" % (fields, lost, " / ".join(lost)),
                        text_="Tensor.fromYAMLfile uses every parsed field%s"
                        % (" (rank-0)" if rank0 else ""))
            else:
                ctx.ok("C13.R1", fy, r, "every parsed field reaches the returned tensor",
                       text_="Tensor.fromYAMLfile uses every parsed field%s"
                       % (" (rank-0)" if rank0 else ""))
    if okr:
        ctx.ok("C13.R1", fy, fy.node, "a non-fiber root is reloaded as a rank-0 tensor",
               text_="Tensor.fromYAMLfile rank-0")
    else:
        ctx.bad("C13.R1", fy, fy.node, "Tensor.fromYAMLfile no longer rebuilds a "
                "rank-0 tensor from a scalar root", text_="Tensor.fromYAMLfile rank-0")


def _nonempty_guard(gs, name):
    """The guards establish that list `name` is not empty."""
    for t, pol in gs:
        tt = text(t).replace(" ", "")
        if (tt in ("len(%s)==0" % name, "0==len(%s)" % name) and not pol) or \
                (tt in ("len(%s)>0" % name, "len(%s)!=0" % name, name,
                        "0<len(%s)" % name, "len(%s)" % name) and pol) or \
                (tt == "not%s" % name and not pol):
            return True
    return False


def _never_empty(ctx, f):
    """_makeFiber builds sub-fibers only for sub-nests that keep at least one
    entry: every `return Fiber(X, ...)` needs X known non-empty, either by an
    emptiness test on X that leaves first, or because X is an unfiltered
    comprehension over a list known non-empty."""
    from ..cfg import guards
    for r in pat.returns(f):
        v = r.value
        if not (isinstance(v, ast.Call) and text(v.func) in ("Fiber", "cls") and v.args
                and isinstance(v.args[0], ast.Name)):
            continue
        x = v.args[0]
        gs = guards(r, asserts=False)
        ok = _nonempty_guard(gs, x.id)
        if not ok:
            facts, _ = ctx.ty.facts_at(f, x.id, x)
            ok = bool(facts)
            for fa in facts:
                e = fa.value if fa.kind == "expr" else None
                if isinstance(e, ast.ListComp) and len(e.generators) == 1 and \
                        not e.generators[0].ifs and \
                        isinstance(e.generators[0].iter, ast.Name) and \
                        _nonempty_guard(guards(fa.stmt, asserts=False) + gs,
                                        e.generators[0].iter.id):
                    continue
                ok = False
        if ok:
            ctx.ok("C13.R2", f, r, "a fiber is built only from a non-empty "
                   "coordinate list (all-default sub-nests yield None)",
                   text_="_makeFiber never empty")
        else:
            ctx.bad("C13.R2", f, r, "_makeFiber can return a fiber with no "
                    "elements (`%s` may be empty here: every sub-nest was "
                    "squeezed to None): an all-default block of a deeper nest "
                    "is stored as an explicit empty sub-fiber instead of being "
                    "left out" % x.id, text_="_makeFiber never empty")


def r2_default(ctx):
    f = ctx.method("Fiber", "_makeFiber")
    dp = "default"
    ctx.require(dp in f.all_param_names(), "C13.R2: _makeFiber lost `default`")
    # the filter
    flt = None
    for n in f.own_nodes():
        if isinstance(n, ast.ListComp) and n.generators and n.generators[0].ifs and \
                "enumerate(payload_list)" in text(n.generators[0].iter):
            flt = n
    okf = False
    if flt is not None:
        p = pat.cmp_raw(flt.generators[0].ifs[0])
        okf = p is not None and p[0] == "!=" and dp in (p[1], p[2])
    if okf:
        ctx.ok("C13.R2", f, flt, "entries equal to the caller's default are squeezed")
    else:
        ctx.bad("C13.R2", f, flt or f.node, "_makeFiber does not squeeze exactly "
                "the entries equal to the caller's `default` (e.g. compares "
                "with a literal 0): with default -1 zeros vanish and -1 is stored",
                text_="_makeFiber filter")
    for c in f.own_nodes():
        if isinstance(c, ast.Call) and text(c.func) in ("Fiber._makeFiber", "Fiber", "cls"):
            d = pat.kwarg(c, "default")
            if d is not None and text(d) == dp:
                ctx.ok("C13.R2", f, c, "default handed down")
            else:
                ctx.bad("C13.R2", f, c, "`%s` does not receive default=default: "
                        "%s" % (text(c)[:50], "deeper levels squeeze against 0"
                                if "_makeFiber" in text(c.func) else
                                "the fiber built reports default 0"))
    sh = [c for c in f.own_nodes() if isinstance(c, ast.Call) and text(c.func) == "Fiber"]
    if sh and text(pat.kwarg(sh[-1], "shape")).replace(" ", "") == "len(payload_list)":
        ctx.ok("C13.R2", f, sh[-1], "shape = length of the nest level")
    else:
        ctx.bad("C13.R2", f, f.node, "_makeFiber no longer sets shape = "
                "len(payload_list)", text_="_makeFiber shape")
    _never_empty(ctx, f)
    f = ctx.method("Fiber", "fromUncompressed")
    calls = [c for c in f.own_nodes() if isinstance(c, ast.Call)]
    mk = [c for c in calls if text(c.func) == "Fiber._makeFiber"]
    emp = [c for c in calls if text(c.func) in ("Fiber", "cls") and c.args]
    ok = mk and text(pat.kwarg(mk[0], "default")) == "default" and emp and \
        text(pat.kwarg(emp[0], "default")) == "default" and \
        text(pat.kwarg(emp[0], "shape")).replace(" ", "") == "len(payload_list)" and \
        [text(a) for a in emp[0].args[:2]] == ["[]", "[]"]
    if ok:
        ctx.ok("C13.R2", f, mk[0], "default forwarded; all-default nest -> empty "
               "fiber with the nest's length as shape")
    else:
        ctx.bad("C13.R2", f, f.node, "Fiber.fromUncompressed no longer forwards "
                "`default` / builds the empty fiber with shape=len(payload_list) "
                "for an all-default nest", text_="Fiber.fromUncompressed")
    f = ctx.method("Tensor", "fromUncompressed")
    calls = [c for c in f.own_nodes() if isinstance(c, ast.Call)]
    fu = [c for c in calls if text(c.func) == "Fiber.fromUncompressed"]
    ff = [c for c in calls if text(c.func) == "Tensor.fromFiber"]
    # the shape handed on: the caller's, or the nest's own when none is given
    # (a guarded re-assignment of the parameter, or a conditional expression)
    sh_ok = False
    sv = pat.kwarg(ff[0], "shape", 2) if ff else None
    if sv is not None:
        none = pat.A("is", "shape", "None")
        alts = []
        if isinstance(sv, ast.Name):
            facts, is_param = ctx.ty.facts_at(f, sv.id, sv)
            for fa in facts:
                if fa.kind == "expr" and not fa.path:
                    for g_, e in pat.ifexp_alternatives(
                            ctx, f, fa.value,
                            frozenset(pat.catoms_of_guards(ctx, f, fa.stmt))):
                        alts.append((g_, text(e).replace(" ", "")))
                else:
                    alts.append((frozenset(), "?"))
            if is_param and sv.id == "shape":
                alts.append((frozenset([pat.A("is not", "shape", "None")]), "shape"))
        else:
            alts = [(g_, text(e).replace(" ", ""))
                    for g_, e in pat.ifexp_alternatives(ctx, f, sv)]
        derived = [a for a in alts if a[1] == "Tensor._calc_shape(root)" and none in a[0]]
        given = [a for a in alts if a[1] == "shape" and none not in a[0]]
        sh_ok = bool(derived) and bool(given) and len(derived) + len(given) == len(alts)
    ok = fu and text(pat.kwarg(fu[0], "default")) == "default" and ff and \
        text(pat.kwarg(ff[0], "default")) == "default" and sh_ok
    if ok:
        ctx.ok("C13.R2", f, ff[0], "shape taken from the nest when not given; "
               "default forwarded to the fiber and the tensor")
    else:
        ctx.bad("C13.R2", f, f.node, "Tensor.fromUncompressed no longer derives "
                "the shape from the nest (when none is given) and forwards "
                "`default` to Fiber.fromUncompressed and Tensor.fromFiber",
                text_="Tensor.fromUncompressed")
    f = ctx.method("Fiber", "_fillempty")
    okl = False
    guarded = None
    for r in pat.returns(f):
        v = r.value
        if not (isinstance(v, ast.Call) and text(v.func) == "Payload.get" and v.args):
            continue
        # every value the unboxed result can hold is some <x>.getDefault()
        srcs = [v.args[0]]
        if isinstance(v.args[0], ast.Name):
            facts, is_param = ctx.ty.facts_at(f, v.args[0].id, v.args[0])
            srcs = [fa.value for fa in facts if fa.kind == "expr" and not fa.path]
            if is_param or len(srcs) != len(facts):
                continue
        if not srcs or not all(isinstance(x, ast.Call) and isinstance(x.func, ast.Attribute)
                               and x.func.attr == "getDefault" and not x.args for x in srcs):
            continue
        lvs = [x.func.value.id for x in srcs if isinstance(x.func.value, ast.Name)]
        for w in f.own_nodes():
            if not isinstance(w, ast.While):
                continue
            conj = [t for t, pol in pat.conjuncts(w.test) if pol]
            for k, t in enumerate(conj):
                for lv in lvs:
                    if text(t).replace(" ", "") == "isinstance(%s.payloads[0],Fiber)" % lv and any(
                            isinstance(x, ast.Assign) and text(x.targets[0]) == lv and
                            text(x.value).replace(" ", "") == "%s.payloads[0]" % lv
                            for x in w.body):
                        okl = True
                        ne = {"len(%s.payloads)>0" % lv, "0<len(%s.payloads)" % lv,
                              "%s.payloads" % lv, "len(%s)>0" % lv, "0<len(%s)" % lv,
                              "len(%s.coords)>0" % lv, "0<len(%s.coords)" % lv,
                              "%s.coords" % lv, "len(%s.payloads)!=0" % lv,
                              "0!=len(%s.payloads)" % lv}
                        guarded = any(text(c).replace(" ", "") in ne for c in conj[:k])
    if okl and guarded is False:
        ctx.bad("C13.R2", f, f.node, "_fillempty looks for the leaf fiber through "
                "`payloads[0]` without testing that there is a first payload: for "
                "an all-default nest the fiber is empty and uncompress() raises "
                "IndexError instead of returning the nest "
                "(Fiber.fromUncompressed([0, 0, 0]).uncompress())",
                text_="_fillempty empty fiber")
    elif okl:
        ctx.ok("C13.R2", f, f.node, "the descent to the leaf fiber stops at an empty fiber",
               text_="_fillempty empty fiber")
    if okl:
        ctx.ok("C13.R2", f, f.node, "missing entries are filled with the leaf "
               "fiber's default", text_="_fillempty")
    else:
        ctx.bad("C13.R2", f, f.node, "_fillempty no longer fills with the leaf "
                "fiber's default", text_="_fillempty")


def r3_random(ctx):
    f = ctx.method("Fiber", "fromRandom")
    g = cfg_of(f, assert_edges=False)
    draws = [c for c in f.own_nodes() if isinstance(c, ast.Call)
             and text(c.func).startswith("random.") and text(c.func) != "random.seed"]
    other = [c for c in f.own_nodes() if isinstance(c, ast.Call) and (
        text(c.func).startswith(("numpy.random", "np.random", "os.urandom",
                                 "secrets.", "time.", "uuid.")) or
        text(c.func) in ("hash", "id"))]
    allowed = {"random.random", "random.randint"}
    badd = [c for c in draws if text(c.func) not in allowed] + other
    if draws and not badd:
        ctx.ok("C13.R3", f, draws[0], "entropy only from random.random / "
               "random.randint")
    else:
        ctx.bad("C13.R3", f, (badd or [f.node])[0], "fromRandom uses an entropy "
                "source other than the seeded `random` stream (%s): the same "
                "seed no longer reproduces the tensor"
                % [text(c.func) for c in badd], text_="fromRandom entropy")
    seeds = [c for c in f.own_nodes() if isinstance(c, ast.Call)
             and text(c.func) == "random.seed"]
    ok = len(seeds) == 1 and seeds[0].args and text(seeds[0].args[0]) == "seed" and \
        any((text(t).replace(" ", ""), pol) == ("seedisnotNone", True)
            for t, pol in guards(enclosing_stmt(seeds[0]))) and \
        all(g.can_reach(enclosing_stmt(seeds[0]), enclosing_stmt(d)) and
            not g.can_reach(enclosing_stmt(d), enclosing_stmt(seeds[0]))
            for d in draws)
    if ok:
        ctx.ok("C13.R3", f, seeds[0], "seeding precedes every draw")
    else:
        ctx.bad("C13.R3", f, f.node, "random.seed(seed) (when a seed is given) "
                "no longer precedes every draw", text_="fromRandom seeding")
    rec = [c for c in f.own_nodes() if isinstance(c, ast.Call)
           and text(c.func) in ("Fiber.fromRandom", "cls.fromRandom")]
    okr = rec and all(pat.kwarg(c, "seed", 3) is None for c in rec)
    if okr:
        ctx.ok("C13.R3", f, rec[0], "recursive calls continue the stream (no re-seed)")
    else:
        ctx.bad("C13.R3", f, rec[0] if rec else f.node, "a recursive fromRandom "
                "call re-seeds the stream: every sub-fiber gets the same values",
                text_="fromRandom recursion")
    loops = [n for n in f.own_nodes() if isinstance(n, ast.For)]
    if loops and text(loops[0].iter).replace(" ", "") == "range(shape[0])":
        ctx.ok("C13.R3", f, loops[0], "coordinates drawn from range(shape[0])")
    else:
        ctx.bad("C13.R3", f, f.node, "coordinates are no longer enumerated from "
                "range(shape[0]) (they may leave the requested shape)",
                text_="fromRandom coordinates")
    t = ctx.method("Tensor", "fromRandom")
    c = [x for x in t.own_nodes() if isinstance(x, ast.Call)
         and text(x.func) == "Fiber.fromRandom"]
    if c and "seed" in [text(a) for a in c[0].args] + [
            text(k.value) for k in c[0].keywords if k.arg == "seed"]:
        ctx.ok("C13.R3", t, c[0], "tensor-level seed forwarded")
    else:
        ctx.bad("C13.R3", t, t.node, "Tensor.fromRandom does not forward the seed",
                text_="Tensor.fromRandom seed")


def r4_levels(ctx):
    n = 0
    for mname in ("uncompress", "_fillempty", "dict2fiber", "_calcShape"):
        n += pat.check_unit_recursion(ctx, "C13.R2", ctx.method("Fiber", mname),
                                      "level-by-level conversion")
    ctx.floor("C13.R2", n, 4, "recursion steps of the converters")
    _uncompress_shape(ctx)
    fu = ctx.method("Fiber", "uncompress")
    fe = ctx.method("Fiber", "_fillempty")
    n_ = pat.check_param_positions(ctx, "C13.R2", fu, {"uncompress": fu, "_fillempty": fe},
                                   "uncompress, level by level")
    n_ += pat.check_param_positions(ctx, "C13.R2", fe, {"_fillempty": fe},
                                    "filling an absent sub-tree")
    ctx.floor("C13.R2", n_, 3, "level-by-level calls of uncompress / _fillempty")


def _uncompress_shape(ctx):
    """Fiber.uncompress walks the union of the fiber with a fiber that has
    every coordinate of the shape, and must emit exactly one list entry per
    coordinate: the sub-list of a present sub-fiber, the value of a present
    leaf, a filled empty for an absent coordinate -- the latter built for the
    next level, like the recursion itself."""
    from ..cfg import walk_own
    f = ctx.method("Fiber", "uncompress")
    rets = pat.returns(f)
    out = text(rets[0].value) if len(rets) == 1 and isinstance(rets[0].value, ast.Name) else None
    loops = [lp for lp in f.own_nodes() if isinstance(lp, ast.For)
             and isinstance(lp.iter, ast.BinOp) and isinstance(lp.iter.op, ast.BitOr)]
    ctx.require(out and len(loops) == 1, "C13.R2: uncompress is no longer a "
                "single loop over `self | <shape fiber>` filling one list")
    lp = loops[0]
    tg = lp.target
    ctx.require(isinstance(tg, ast.Tuple) and len(tg.elts) == 2 and
                isinstance(tg.elts[1], ast.Tuple) and len(tg.elts[1].elts) == 3,
                "C13.R2: uncompress loop target is not (c, (mask, a, b))")
    mask, pa = text(tg.elts[1].elts[0]), text(tg.elts[1].elts[1])
    level = f.params[2] if len(f.params) > 2 else "level"
    cases = {"fiber": 0, "leaf": 0, "absent": 0}
    stray = []
    AB, B = pat.A("==", mask, "'AB'"), pat.A("==", mask, "'B'")
    isf = pat.T("Payload.contains(%s,Fiber)" % pa)
    scen = {"fiber": {AB: True, B: False, isf: True},
            "leaf": {AB: True, B: False, isf: False},
            "absent": {AB: False, B: True}}

    def key(a):
        if a[0] == "!=":
            return ("==", a[1], a[2]), False
        if a[0] == "truth":
            return ("truth", a[1], True), a[2]
        return a, True

    def runs_in(g, s_):
        """True / False / None (depends on something else)."""
        res = True
        for a in g:
            k, pol = key(a)
            if k in s_:
                if s_[k] != pol:
                    return False
            elif k[0] == "==" and mask in k[1:]:
                if pol:                 # mask == <another literal>
                    return False
            else:
                res = None
        return res
    for g, st, v in pat.guarded_actions(ctx, f, lp.body):
        if not (isinstance(v, ast.Call) and text(v.func) == out + ".append" and len(v.args) == 1):
            if isinstance(st, ast.Expr) and isinstance(v, ast.Call) and \
                    text(v.func).startswith(out + "."):
                stray.append(st)
            continue
        a = v.args[0]
        hit = False
        for nm, s_ in scen.items():
            r_ = runs_in(g, s_)
            if r_ is None:
                stray.append(st)
            elif r_:
                cases[nm] += 1
                hit = True
        if runs_in(g, scen["absent"]):
            fe = a if isinstance(a, ast.Call) and text(a.func).endswith("._fillempty") else None
            lv = fe.args[1] if fe is not None and len(fe.args) > 1 else None
            if lv is None or pat.inline(ctx, f, lv).replace(" ", "") != "%s+1" % level:
                ctx.bad("C13.R2", f, st, "uncompress fills an absent coordinate "
                        "with `%s`, not with _fillempty(shape, %s + 1): the "
                        "filler belongs to another level, so the nested lists "
                        "are ragged / of the wrong depth" % (text(a), level),
                        text_="uncompress filler level")
            else:
                ctx.ok("C13.R2", f, st, "absent coordinates filled for the next level",
                       text_="uncompress filler level")
        if not hit:
            stray.append(st)
    if cases == {"fiber": 1, "leaf": 1, "absent": 1} and not stray:
        ctx.ok("C13.R2", f, lp, "one list entry per coordinate of the shape "
               "(sub-fiber / leaf / absent)", text_="uncompress one entry per coordinate")
    else:
        ctx.bad("C13.R2", f, lp, "uncompress no longer appends exactly one entry "
                "per coordinate of the shape in each of the cases present "
                "sub-fiber / present leaf / absent (%s%s): the lists lose or "
                "gain positions, so position i no longer holds coordinate i"
                % (cases, ", other list updates" if stray else ""),
                text_="uncompress one entry per coordinate")
