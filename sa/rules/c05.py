"""C05 -- populate (z << a) offers exactly a's coordinates and keeps only
what was written (partial: the structural clauses of the one generator).
"""

import ast

from ..model import text, AnalysisError
from ..cfg import cfg_of, guards, atomic_guards, enclosing_stmt, is_within, \
    parent_block
from ..effects import STATS_LOCS
from ..sites import field_mutations, iter_kind, FILTERED
from .. import pat

EXPLANATION = (
    "The populate iterator is one `for` over the source stream with an "
    "insert - yield - maybe-remove body.  Decided: (R1) the loop iterates the "
    "source's default iteration and every iteration yields exactly once "
    "(the single yield is a direct statement of the loop body, no continue/"
    "break/return in the body) the source's own coordinate with (destination "
    "reference, source payload); (R2) the offered reference is either the "
    "payload found by getPayload(coord, allocate=False) or the element "
    "_create_payload just inserted at the bisect position, never a detached "
    "default; (R3) the only other tree writes on the destination are the "
    "paired deletions after the yield, at bisect_left of the same "
    "coordinate, under a removal condition whose disjunctive normal form is "
    "{still-empty sub-fiber} or {leaf == default and nothing else}, "
    "with the rank pop under the owner guard and the position counter "
    "decremented there and incremented once per iteration; (R4) the source "
    "is never written; (R5) the destination's active range and the result's "
    "rank id / active range follow the operation's definition.  'Content "
    "equals previous content overridden by the body' for arbitrary bodies is "
    "not decided.")
RULE = "one obligation per clause of R1-R5 on the populate generator"

ITER_KEY = "core/iterators.py:__lshift__.lshift_iterator.__iter__"


def run(ctx):
    ctx.guard(structure)
    ctx.guard(source_readonly)
    ctx.guard(active_range)
    ctx.assume("a loop body that registers other fibers in the same rank "
               "trips the run-time assert on the popped fiber (not decided)")


def _walk(stmts):
    from ..cfg import walk_own
    return walk_own(stmts)


def structure(ctx):
    op = ctx.func("core/iterators.py:__lshift__")
    it = ctx.func(ITER_KEY)
    ci = it.cls
    attrs = {k: text(v) for k, v in ci.class_attrs.items()}
    dst = [k for k, v in attrs.items() if v == op.params[0]]
    src = [k for k, v in attrs.items() if v == op.params[1]]
    ctx.require(len(dst) == 1 and len(src) == 1,
                "C05: populate iterator does not bind destination and source")
    dst, src = "self." + dst[0], "self." + src[0]
    loops = [n for n in it.own_nodes() if isinstance(n, ast.For)
             and any(isinstance(x, ast.Yield) for x in _walk(n.body))]
    ctx.require(len(loops) == 1, "C05.R1: expected one yielding loop, found %d"
                % len(loops))
    loop = loops[0]
    # -- R1 source stream
    kind, base = iter_kind(ctx, it, loop.iter)
    itsrc = pat.inline(ctx, it, loop.iter, depth=3).replace(" ", "")
    if kind == FILTERED and base == src and "__iter__(" in itsrc:
        ctx.ok("C05.R1", it, loop, "loop iterates the source's default "
               "iteration (%s)" % itsrc)
    else:
        ctx.bad("C05.R1", it, loop, "the populate loop iterates `%s`, not the "
                "source's default iteration %s.__iter__(): the coordinates "
                "offered are not exactly the ones the source presents"
                % (text(loop.iter), src))
    # every run of the generator reaches the loop: a `return` in front of it
    # (an "empty source" shortcut, say) offers nothing although the source's
    # iteration decides what is offered -- an uncompressed source without
    # stored elements still presents its whole active range
    early = [n for n in it.own_nodes() if isinstance(n, ast.Return)
             and not is_within(n, loop)]
    g_ = cfg_of(it, assert_edges=False)
    skipping = [r for r in early if not g_.can_reach(loop, r)]
    if skipping:
        ctx.bad("C05.R1", it, skipping[0], "the populate generator can return "
                "before its loop over the source's iteration (`%s`): what the "
                "source offers is decided by that iteration alone (a rank "
                "declared uncompressed offers every coordinate of its active "
                "range even when it stores none)"
                % " and ".join(text(t) if pol else "not (%s)" % text(t)
                               for t, pol in guards(skipping[0], asserts=False)),
                text_="populate loop always reached")
    else:
        ctx.ok("C05.R1", it, loop, "the loop over the source is reached on every run",
               text_="populate loop always reached")
    tg = loop.target
    names = None
    if isinstance(tg, ast.Tuple) and len(tg.elts) == 2 and \
            isinstance(tg.elts[1], ast.Tuple) and len(tg.elts[1].elts) == 2:
        names = (text(tg.elts[0]), text(tg.elts[1].elts[0]), text(tg.elts[1].elts[1]))
    ctx.require(names, "C05.R1: loop target is not `pos, (coord, payload)`")
    pos_v, coord_v, pay_v = names
    ys = [n for n in _walk(loop.body) if isinstance(n, ast.Yield)]
    leaves = [n for n in _walk(loop.body)
              if isinstance(n, (ast.Continue, ast.Break, ast.Return))]
    y_stmt = enclosing_stmt(ys[0]) if ys else None
    if len(ys) == 1 and y_stmt in loop.body:
        # ending the round once the element was offered skips nothing
        after = loop.body[loop.body.index(y_stmt) + 1:]
        leaves = [n for n in leaves if not (isinstance(n, ast.Continue) and
                                            any(is_within(n, a) for a in after))]
    if len(ys) == 1 and y_stmt in loop.body and not leaves:
        ctx.ok("C05.R1", it, y_stmt, "exactly one yield per source element")
    else:
        ctx.bad("C05.R1", it, y_stmt or loop,
                "the populate loop does not yield exactly once per source "
                "element (%d yields, %s, %d continue/break/return in the body): "
                "some coordinate of the source is not offered, or offered twice"
                % (len(ys), "direct" if y_stmt in loop.body else "nested in a branch",
                   len(leaves)), text_="populate yield placement")
        return
    y = ys[0]
    v = y.value
    ok = isinstance(v, ast.Tuple) and len(v.elts) == 2 and text(v.elts[0]) == coord_v \
        and isinstance(v.elts[1], ast.Tuple) and len(v.elts[1].elts) == 2 and \
        text(v.elts[1].elts[1]) == pay_v and isinstance(v.elts[1].elts[0], ast.Name)
    if not ok:
        ctx.bad("C05.R1", it, y, "populate must yield (source coordinate, "
                "(destination reference, source payload)); it yields `%s`"
                % text(v), text_="populate yield value")
        return
    ctx.ok("C05.R1", it, y, "yields the source's own coordinate and payload")
    ref = v.elts[1].elts[0]
    # -- R2 the offered reference is stored in the destination
    facts, is_param = ctx.ty.facts_at(it, ref.id, ref)
    kinds = set()
    bad = None
    create_stmt = None
    for fa in facts:
        val = fa.value
        if fa.kind == "expr" and isinstance(val, ast.Call) and \
                isinstance(val.func, ast.Attribute) and text(val.func.value) == dst \
                and val.args and text(val.args[0]) == coord_v:
            if val.func.attr == "getPayload":
                al = pat.kwarg(val, "allocate")
                if isinstance(al, ast.Constant) and al.value is False:
                    kinds.add("lookup")
                    continue
            if val.func.attr == "_create_payload":
                kinds.add("create")
                create_stmt = fa.stmt
                continue
            if val.func.attr == "getPayloadRef":
                kinds.add("ref")
                continue
        bad = fa
    if bad is not None or not kinds or (kinds == {"lookup"}):
        ctx.bad("C05.R2", it, y, "the reference offered to the body (`%s`) may "
                "come from `%s`: it must be the payload stored in the "
                "destination (found by getPayload(coord, allocate=False) or "
                "inserted by _create_payload before the yield), never a "
                "detached default" % (ref.id, text(bad.value) if bad else
                                      "a lookup that can return None"),
                text_="populate offered reference")
    else:
        g = cfg_of(it, assert_edges=False)
        if create_stmt is not None:
            gs = [pat.inline(ctx, it, t, depth=4).replace(" ", "")
                  for t, pol in atomic_guards(create_stmt, stop=loop) if pol]
            guarded = any(x.startswith("%s.getPayload(%s," % (dst, coord_v)) and
                          x.endswith("isNone") for x in gs)
            if not guarded:
                ctx.bad("C05.R2", it, create_stmt, "the insertion is not guarded "
                        "by `getPayload(coord, allocate=False) is None`: an "
                        "existing element would be duplicated")
            elif not g.can_reach(create_stmt, y_stmt):
                ctx.bad("C05.R2", it, create_stmt, "the insertion does not "
                        "precede the yield")
            else:
                ctx.ok("C05.R2", it, create_stmt, "missing element inserted "
                       "before it is offered")
        ctx.ok("C05.R2", it, y, "offered reference aliases the destination's "
               "stored payload (%s)" % sorted(kinds))
    # -- R3 removal pairing after the yield
    muts = [m for m in field_mutations(ctx, it, {"coords", "payloads"})
            if text(m.base) == dst]
    dels = [m for m in muts if m.kind == "delitem"]
    others = [m for m in muts if m.kind != "delitem"]
    for m in others:
        ctx.bad("C05.R3", it, m.node, "populate writes the destination's raw "
                "lists outside the insert/remove protocol")
    if len(dels) != 2:
        ctx.bad("C05.R3", it, loop, "expected the paired deletion of the "
                "untouched element (del coords[i]; del payloads[i]), found %d "
                "deletions: an offered coordinate the body left at the default "
                "stays behind as an element" % len(dels),
                text_="populate removal")
        return
    d0 = dels[0]
    idx = pat.inline(ctx, it, d0.args[0]).replace(" ", "")
    want_idx = "bisect.bisect_left(%s.coords,%s)" % (dst, coord_v)
    if idx != want_idx:
        ctx.bad("C05.R3", it, d0.node, "the untouched element is deleted at "
                "`%s`, not at bisect_left(%s.coords, %s): another element is "
                "removed" % (text(d0.args[0]), dst, coord_v))
    else:
        ctx.ok("C05.R3", it, d0.node, "deletion at the bisect position of the "
               "offered coordinate")
    g = cfg_of(it, assert_edges=False)
    if not g.can_reach(y_stmt, d0.stmt) or g.can_reach(d0.stmt, y_stmt) and \
            not is_within(d0.stmt, loop):
        ctx.bad("C05.R3", it, d0.node, "the deletion does not follow the yield")
    # condition tests the offered payload against emptiness
    gs = guards(d0.stmt, stop=loop, asserts=False)
    cond = [frozenset()]
    for t, pol in gs:
        d = pat.bool_dnf(ctx, it, t, pol)
        if d is None:
            raise AnalysisError("C05.R3: removal condition too large for DNF")
        cond = [a | b for a in cond for b in d]
    cond = [d for d in cond if not any((t, not q) in d for t, q in d)]
    is_fiber = "isinstance(%s,type(%s))" % (ref.id, dst)
    len0 = ("len(%s)==0" % ref.id, True)
    eqdef = ("%s==%s.getDefault()" % (ref.id, dst), True)
    fiber_d = [d for d in cond if len0 in d and (is_fiber, True) in d]
    # the leaf disjunct: nothing but `not a fiber` and `== default` -- a value
    # the body set back to the default must go whether or not the element
    # existed before the loop
    leaf_d = [d for d in cond if eqdef in d and d <= {eqdef, (is_fiber, False)}]
    stray = [d for d in cond if len0 not in d and eqdef not in d]
    if not gs:
        ctx.bad("C05.R3", it, d0.stmt, "the removal is unconditional: elements "
                "the body did write are removed", text_="populate removal condition")
    elif stray:
        ctx.bad("C05.R3", it, d0.stmt, "the removal also happens when %s, with "
                "no test that the offered payload is still empty / the default: "
                "elements the body did write are removed"
                % sorted(t if q else "not " + t for t, q in stray[0]),
                text_="populate removal condition")
    elif not fiber_d:
        ctx.bad("C05.R3", it, d0.stmt, "the removal is not conditioned on "
                "['%s']: elements the body did write are removed (or untouched "
                "ones kept)" % len0[0], text_="populate removal condition")
    elif not leaf_d:
        extra = sorted({(t if q else "not " + t) for d in cond if eqdef in d
                        for t, q in d - {eqdef, (is_fiber, False)}})
        ctx.bad("C05.R3", it, d0.stmt, "a leaf value equal to the default is "
                "removed only when additionally %s: a coordinate the body set "
                "back to the default (or left at an explicit default) keeps "
                "its element" % (extra or "[no `== default` test at all]"),
                text_="populate removal condition")
    else:
        ctx.ok("C05.R3", it, d0.stmt, "removal exactly when the offered "
               "sub-fiber is still empty or the leaf equals the default")
    # counter bookkeeping
    pb = parent_block(d0.stmt)
    blk = pb[0] if pb else []
    # the position handed to the insertion is carried from round to round:
    # +1 for an element that stays, 0 for one that is taken out again
    posv = None
    for c in pat.calls(_walk(loop.body)):
        a = pat.kwarg(c, "pos")
        if isinstance(c.func, ast.Attribute) and c.func.attr == "_create_payload" and \
                isinstance(a, ast.Name):
            posv = a.id
    y_st = enclosing_stmt(ys[0]) if ys else None
    n_del = pat.net_after(d0.stmt, posv) if posv else None
    n_all = pat.net_after(y_st, posv) if posv and y_st is not None else None
    if n_del == {0} and n_all == {0, 1}:
        ctx.ok("C05.R3", it, d0.stmt, "position counter `%s`: +1 per element kept, "
               "unchanged for an element removed again" % posv,
               text_="populate position counter")
    else:
        ctx.bad("C05.R3", it, d0.stmt, "the destination position counter is "
                "not taken back in the removal branch and incremented exactly "
                "once per iteration (net change after a removal %s, after the "
                "offer %s): later insertions use a drifting position"
                % (sorted(map(str, n_del or ["?"])), sorted(map(str, n_all or ["?"]))),
                text_="populate position counter")
    # rank pop under the owner guard: C02.R3 (reported there); presence here
    from ..sites import rank_pops
    pops = [c for c, _ in rank_pops(ctx, it, blk, dst)]
    if pops:
        ctx.ok("C05.R3", it, pops[0], "created sub-fiber is popped from the "
               "next rank when removed")
    else:
        ctx.bad("C05.R3", it, d0.stmt, "the removed (empty) sub-fiber is not "
                "popped from the owner's next rank: a stale empty sub-fiber "
                "stays registered", text_="populate rank pop")


def source_readonly(ctx):
    op = ctx.func("core/iterators.py:__lshift__")
    srcp = ("p", op.params[1])
    bad = [(loc, r, c, w) for loc, r, c, w in ctx.eff.writes(op, tree_only=True)
           if r == srcp and loc not in STATS_LOCS]
    certain = [b for b in bad if not b[3].uncertain]
    if bad and not certain:
        ctx.errors.append("C05.R4: unresolved receiver decides: %s" % bad[0][3].render())
        return
    if certain:
        seen = set()
        for loc, r, c, w in certain:
            k = w.site()
            if k in seen:
                continue
            seen.add(k)
            ctx.bad("C05.R4", op, op.node, "populate writes %s of its source "
                    "operand via %s" % (loc, w.render()),
                    text_="__lshift__ -> %s: %s" % (k[0].split(":")[-1], k[1]))
    else:
        ctx.ok("C05.R4", op, op.node, "the source operand is never written",
               text_="__lshift__ source purity")


def active_range(ctx):
    op = ctx.func("core/iterators.py:__lshift__")
    s, o = op.params[0], op.params[1]
    sa = [c for c in pat.calls(op, attr="setActive") if text(c.func.value) == s]
    if sa and sa[0].args and text(sa[0].args[0]).replace(" ", "") == "%s.getActive()" % o:
        ctx.ok("C05.R5", op, sa[0], "destination's active range follows the source")
    else:
        ctx.bad("C05.R5", op, op.node, "the destination's active range is no "
                "longer set to the source's (`%s.setActive(%s.getActive())`)"
                % (s, o), text_="__lshift__ setActive")
    fi = [c for c in pat.calls(op, attr="fromIterator")]
    ctx.require(fi, "C05.R5: fromIterator call vanished")
    ar = pat.kwarg(fi[0], "active_range")
    if ar is not None and text(ar).replace(" ", "") == "%s.getActive()" % o:
        ctx.ok("C05.R5", op, fi[0], "lazy result carries the source's active range")
    else:
        ctx.bad("C05.R5", op, fi[0], "the populate result's active range is "
                "`%s`, not the source's" % text(ar))
    sid = [c for c in pat.calls(op, attr="setId")]
    if sid and sid[0].args and text(sid[0].args[0]).replace(" ", "") == \
            "%s.getRankAttrs().getId()" % s:
        ctx.ok("C05.R5", op, sid[0], "lazy result carries the destination's rank id")
    else:
        ctx.bad("C05.R5", op, op.node, "the populate result no longer carries "
                "the destination's rank id", text_="__lshift__ rank id")
    lz = [n for n in op.own_nodes() if isinstance(n, ast.Assert) and "isLazy" in text(n.test)]
    if lz:
        ctx.ok("C05.R5", op, lz[0], "destination must be eager")
