"""C17 -- buffer traffic models (partial, thin): temp-file hygiene, policy
slot agreement, per-binding tables computed from the current binding, merge
shape of the trace combiners.  Traffic numbers and optimality need an
executable oracle and are not decided."""

import ast

from ..model import text, AnalysisError, construct
from ..cfg import cfg_of, guards, enclosing_stmt, is_within, EXIT
from .. import pat

EXPLANATION = (
    "Traffic values, the buffet window rule and cache optimality are NOT "
    "decided.  Decided: (R1) every file _bufferTraffic has created through "
    "_combineTraces / _buildNextUseTrace is recorded in a table that is "
    "iterated with os.remove on every normal path to the return, the "
    "backward readers opened on them are closed first, _combineTraces "
    "closes the inputs it opens; (R2) the six policy callback slots have "
    "two implementations each whose parameter counts equal the argument "
    "counts at the call sites and whose returned tuple arities equal the "
    "unpacking arities; (R3) in every loop over the bindings, tensor / rank "
    "/ type are (re)bound from the current binding inside that loop -- a "
    "name left over from an earlier, finished loop is reported; (R4) the "
    "trace combiner is a two-finger merge in which each branch advances the "
    "side it consumed and ties go to the read trace; filterTrace advances "
    "both on a match and the smaller side otherwise; (R5) the buffet keeps "
    "a line exactly when the iteration-stamp PREFIX up to and including the "
    "evict-on rank (slice from 0, length index+1, 0 for root) equals the "
    "same prefix of the next use and a next use exists; (R6) the cache's "
    "'there is room' shortcut in to_be_buffered is exactly the negation of "
    "the eviction-loop condition of add_elem (linear normal form), so a "
    "line admitted through the shortcut never evicts a resident line.")
RULE = ("one obligation per temp-file table, per callback slot x policy, per "
        "binding loop x name, per merge branch")

T = "model/traffic.py:Traffic."


def run(ctx):
    ctx.guard(r1_tempfiles)
    ctx.guard(r2_slots)
    ctx.guard(r3_stale)
    ctx.guard(r4_merges)
    ctx.guard(r5_window)
    ctx.guard(r6_space)
    ctx.guard(r7_numeric_keys)
    ctx.guard(r8_table_order)
    ctx.guard(r9_line_granularity)


def _walk(stmts):
    from ..cfg import walk_own
    return walk_own(stmts)


# -- R9: one definition of the line granularity -----------------------------------

def r9_line_granularity(ctx):
    """_bufferTraffic rounds positions to lines twice: when it builds the
    next-use traces and when it simulates the buffer.  Both must use the
    same number of elements per line, `line_sz // <footprint of one element
    of the binding>` with the footprint taken from Format.getElem(rank, type)
    (which knows the coord / payload / interleaved-elem cases): two sites
    that disagree make the next-use scan and the simulator see different
    lines, so a line is refilled inside one eviction window."""
    f = ctx.func(T + "_bufferTraffic")
    sites = []
    for n in f.own_nodes():
        if isinstance(n, ast.BinOp) and isinstance(n.op, ast.FloorDiv) and \
                text(n.left) == "line_sz":
            sites.append(n)
    ctx.require(len(sites) >= 2, "C17.R9: the two elements-per-line computations "
                "of _bufferTraffic were not found (found %d)" % len(sites))
    for n in sites:
        div = pat.inline(ctx, f, n.right).replace(" ", "")
        if pat.msearch(div, "formats[$A].getElem($B,$C)", full=True):
            ctx.ok("C17.R9", f, n, "elements per line = line_sz // Format.getElem(rank, type)",
                   text_="elements per line")
        else:
            ctx.bad("C17.R9", f, n, "this site computes the elements per line as "
                    "`line_sz // %s`, not from Format.getElem(rank, type) like the "
                    "other site(s): for a binding whose element footprint the two "
                    "disagree on (an interleaved `elem` binding is cbits + pbits) "
                    "the next-use traces and the simulation round positions to "
                    "different lines and a line is filled more than once per "
                    "eviction window" % div[:80], text_="elements per line")


def _anc(n):
    from ..cfg import ancestors
    return list(ancestors(n))


def r1_tempfiles(ctx):
    f = ctx.func(T + "_bufferTraffic")
    g = cfg_of(f, assert_edges=False)
    rets = pat.returns(f)
    ctx.require(rets, "C17.R1: _bufferTraffic has no return")
    # tables: D[key] = <created file name>
    created = {}
    for c in f.own_nodes():
        if isinstance(c, ast.Call) and text(c.func) in (
                "Traffic._combineTraces", "Traffic._buildNextUseTrace"):
            if text(c.func).endswith("_combineTraces"):
                # comb_fn travels through the **args dict
                for n in f.own_nodes():
                    if isinstance(n, ast.Dict):
                        for k, v in zip(n.keys, n.values):
                            if isinstance(k, ast.Constant) and k.value == "comb_fn":
                                created[text(v)] = c
            else:
                out = pat.kwarg(c, "output_fn", 3)
                if out is not None:
                    created[text(out)] = c
    ctx.require(len(created) >= 2, "C17.R1: created temp files not found (%s)"
                % list(created))
    for var, call in created.items():
        tables = [n for n in f.own_nodes() if isinstance(n, ast.Assign)
                  and isinstance(n.targets[0], ast.Subscript)
                  and text(n.value) == var]
        if not tables:
            ctx.bad("C17.R1", f, call, "the file `%s` created here is not "
                    "recorded for removal" % var)
            continue
        tab = text(tables[0].targets[0].value)
        rm = None
        for lp in f.own_nodes():
            its = [text(lp.iter).replace(" ", "")] if isinstance(lp, ast.For) else []
            if its and isinstance(lp.iter, ast.Call) and \
                    text(lp.iter.func) in ("itertools.chain", "chain"):
                # one loop over several tables, one after the other
                its = [text(a).replace(" ", "") for a in lp.iter.args]
            if isinstance(lp, ast.For) and "%s.values()" % tab in its:
                for c in _walk(lp.body):
                    if isinstance(c, ast.Call) and text(c.func) in (
                            "os.remove", "os.unlink") and c.args and \
                            text(c.args[0]) == text(lp.target):
                        rm = lp
        if rm is not None and not any(
                r in g.reachable(tables[0], avoid={rm}) for r in rets):
            ctx.ok("C17.R1", f, rm, "every file recorded in `%s` is removed on "
                   "every path to the return" % tab)
        else:
            ctx.bad("C17.R1", f, tables[0],
                    "temporary files recorded in `%s` are not all removed "
                    "before _bufferTraffic returns: they are left behind in "
                    "the trace directory" % tab, text_="temp files of %s" % tab)
    # readers closed before removal
    opens = [n for n in f.own_nodes() if isinstance(n, ast.Assign)
             and isinstance(n.value, ast.Call)
             and text(n.value.func) == "FileReadBackwards"
             and isinstance(n.targets[0], ast.Subscript)]
    if opens:
        tab = text(opens[0].targets[0].value)
    else:
        # ... or built in one go by a dict comprehension
        opens = [n for n in f.own_nodes() if isinstance(n, ast.Assign)
                 and isinstance(n.targets[0], ast.Name)
                 and isinstance(n.value, ast.DictComp)
                 and isinstance(n.value.value, ast.Call)
                 and text(n.value.value.func) == "FileReadBackwards"]
        ctx.require(opens, "C17.R1: FileReadBackwards table not found")
        tab = opens[0].targets[0].id
    closes = None
    for lp in f.own_nodes():
        if isinstance(lp, ast.For) and text(lp.iter).replace(" ", "") == \
                "%s.values()" % tab:
            if any(isinstance(c, ast.Call) and text(c.func) ==
                   text(lp.target) + ".close" for c in _walk(lp.body)):
                closes = lp
    removes = [lp for lp in f.own_nodes() if isinstance(lp, ast.For) and any(
        isinstance(c, ast.Call) and text(c.func) == "os.remove"
        for c in _walk(lp.body))]
    if closes is not None and removes and all(
            g.can_reach(closes, r) and not g.can_reach(r, closes) for r in removes) \
            and not any(r in g.reachable(opens[0], avoid={closes}) for r in rets):
        ctx.ok("C17.R1", f, closes, "backward readers are closed before their "
               "files are removed")
    else:
        ctx.bad("C17.R1", f, opens[0], "the FileReadBackwards handles in `%s` "
                "are not all closed before the files are removed" % tab,
                text_="close readers")
    # _combineTraces closes what it opens outside `with`
    c = ctx.func(T + "_combineTraces")
    gc = cfg_of(c, assert_edges=False)
    raw = [n for n in c.own_nodes() if isinstance(n, ast.Assign)
           and isinstance(n.value, ast.Call) and text(n.value.func) == "open"]
    for n in raw:
        var = text(n.targets[0])
        cl = [enclosing_stmt(x) for x in c.own_nodes() if isinstance(x, ast.Call)
              and text(x.func) == var + ".close"]
        ok = bool(cl)
        if ok:
            # every path from the open to the exit passes a close (guarded by
            # `if var:` which is true exactly when it was opened)
            closer = cl[0]
            par = [a for a in _anc(closer) if isinstance(a, ast.If)]
            node = par[0] if par and text(par[0].test) == var else closer
            ok = EXIT not in gc.reachable(n, avoid={node})
        if ok:
            ctx.ok("C17.R1", c, n, "`%s` is closed on every path" % var)
        else:
            ctx.bad("C17.R1", c, n, "`%s` opened here is not closed on every "
                    "path to the end of _combineTraces" % var)
    # all other opens in the module are with-blocks
    mod = ctx.module("model/traffic.py")
    for fn in ctx.prog.funcs.values():
        if fn.module is not mod or fn is c:
            continue
        for n in fn.own_nodes():
            if isinstance(n, ast.Call) and text(n.func) == "open":
                if isinstance(getattr(n, "_parent", None), ast.withitem):
                    ctx.ok("C17.R1", fn, n, "opened in a with block")
                else:
                    ctx.bad("C17.R1", fn, n, "file opened outside a with block "
                            "and outside the audited close discipline")


SLOTS = ["extract_binding", "pin_intermediate_writes", "pre_sim_hook",
         "to_be_buffered", "add_elem", "evict_elem"]


def _ret_arity(fn):
    out = set()
    for r in pat.returns(fn):
        v = r.value
        out.add(len(v.elts) if isinstance(v, ast.Tuple) else 1)
    return out


def r2_slots(ctx):
    core = ctx.func(T + "_bufferTraffic")
    # call-site shapes inside _bufferTraffic
    want_args, want_unpack = {}, {}
    for c in core.own_nodes():
        if isinstance(c, ast.Call) and isinstance(c.func, ast.Name) and \
                c.func.id in SLOTS:
            want_args.setdefault(c.func.id, set()).add(len(c.args) + len(c.keywords))
            st = enclosing_stmt(c)
            if isinstance(st, ast.Assign) and st.value is c and \
                    isinstance(st.targets[0], ast.Tuple):
                want_unpack.setdefault(c.func.id, set()).add(
                    len(st.targets[0].elts))
    for s in SLOTS:
        if s not in want_args:
            raise AnalysisError("C17.R2: slot %s is never called in "
                                "_bufferTraffic" % s)
    for pol in ("buffetTraffic", "cacheTraffic"):
        p = ctx.func(T + pol)
        # the delegation passes the slots positionally in order
        deleg = [c for c in p.own_nodes() if isinstance(c, ast.Call)
                 and text(c.func) == "Traffic._bufferTraffic"]
        ctx.require(len(deleg) == 1, "C17.R2: %s does not delegate to "
                    "_bufferTraffic once" % pol)
        passed = [text(a) for a in deleg[0].args[-6:]]
        if passed != SLOTS:
            ctx.bad("C17.R2", p, deleg[0], "%s passes its callbacks as %s; the "
                    "slots of _bufferTraffic are %s in this order: two "
                    "callbacks are swapped" % (pol, passed, SLOTS))
            continue
        for s in SLOTS:
            fn = p.inner_funcs.get(s)
            if fn is None:
                ctx.bad("C17.R2", p, p.node, "%s does not define the policy "
                        "callback %s" % (pol, s), text_="%s.%s" % (pol, s))
                continue
            npar = len(fn.params)
            ok = {npar} == want_args[s]
            ra = _ret_arity(fn)
            if s in want_unpack:
                ok = ok and ra == want_unpack[s]
            if ok:
                ctx.ok("C17.R2", fn, fn.node, "%d parameters / returns %s as "
                       "the call site expects" % (npar, sorted(ra)),
                       text_="%s.%s" % (pol, s))
            else:
                ctx.bad("C17.R2", fn, fn.node,
                        "%s.%s takes %d parameters and returns tuples of %s; "
                        "_bufferTraffic calls it with %s arguments and unpacks "
                        "%s values" % (pol, s, npar, sorted(ra),
                                       sorted(want_args[s]),
                                       sorted(want_unpack.get(s, {1}))),
                        text_="%s.%s" % (pol, s))


def r3_stale(ctx):
    """Per-binding tables are filled in loops over bind_info.  A variable
    read in such a loop must be (re)bound from the current binding inside
    that loop; one whose value can only come from an *earlier* loop over the
    bindings is stale: every binding then sees the last binding's value."""
    f = ctx.func(T + "_bufferTraffic")

    def over_bindings(lp):
        it = lp.iter
        if isinstance(it, ast.Call) and text(it.func) == "enumerate" and it.args:
            it = it.args[0]
        return text(it) == blist
    # the list of bindings: what the policy's pre_sim_hook receives
    blist = None
    for c in f.own_nodes():
        if isinstance(c, ast.Call) and text(c.func) == "pre_sim_hook" and c.args:
            blist = text(c.args[0])
    ctx.require(blist, "C17.R3: the binding list (argument of pre_sim_hook) was "
                "not found in _bufferTraffic")
    loops = [lp for lp in f.own_nodes() if isinstance(lp, ast.For) and over_bindings(lp)]
    all_loops = [lp for lp in f.own_nodes() if isinstance(lp, (ast.For, ast.While))]
    # names bound per binding somewhere (loop targets / assignments in a loop)
    per_binding = set()
    for lp in loops:
        for n_ in ast.walk(lp.target):
            if isinstance(n_, ast.Name):
                per_binding.add(n_.id)
        for st in _walk(lp.body):
            if isinstance(st, ast.Assign):
                for t in st.targets:
                    for n_ in ast.walk(t):
                        if isinstance(n_, ast.Name) and isinstance(n_.ctx, ast.Store):
                            per_binding.add(n_.id)
    n = 0
    for lp in loops:
        for u in _walk(lp.body):
            if not (isinstance(u, ast.Name) and isinstance(u.ctx, ast.Load)
                    and u.id in per_binding):
                continue
            facts, is_param = ctx.ty.facts_at(f, u.id, u)
            if is_param or not facts:
                continue
            inside = [fa for fa in facts if fa.stmt is not None and
                      (is_within(fa.stmt, lp) or fa.stmt is lp)]
            outside = [fa for fa in facts if fa not in inside]
            stale = [fa for fa in outside if fa.stmt is not None and any(
                (is_within(fa.stmt, l2) or fa.stmt is l2) and l2 is not lp
                and not is_within(lp, l2) for l2 in all_loops)]
            if not stale and not inside:
                continue            # a table built before the loops
            n += 1
            if inside and not outside:
                ctx.ok("C17.R3", f, u, "`%s` is bound from the current "
                       "binding inside this loop" % u.id,
                       text_="%s: %s in %s" % (construct(lp), u.id,
                                               construct(enclosing_stmt(u))))
            elif stale:
                src = stale[0].stmt
                ctx.bad("C17.R3", f, u,
                        "`%s` is read inside `%s` but its value comes from "
                        "`%s`, an earlier loop that has already finished: "
                        "every binding gets the value of the *last* binding "
                        "(wrong table entry whenever two bindings differ "
                        "in tensor or rank)"
                        % (u.id, construct(lp),
                           construct(src) if src is not None else "nowhere"),
                        text_="%s: stale %s" % (construct(lp), u.id))
    ctx.floor("C17.R3", n, 6, "reads of per-binding variables in binding loops")


def r4_merges(ctx):
    c = ctx.func(T + "_combineTraces")
    loops = [n for n in c.own_nodes() if isinstance(n, ast.While)]
    ctx.require(len(loops) == 1, "C17.R4: merge loop of _combineTraces not found")
    lp = loops[0]
    body = pat.real_stmts(lp.body)
    ok = False
    # the head of each trace is what next_line(<its file>) was last bound to:
    # a (stamp, text) pair kept whole (`h[0]`, `h[1]`) or unpacked (`s, t`)
    heads = {}
    for side in ("read", "write"):
        binds = [n for n in c.own_nodes() if isinstance(n, ast.Assign)
                 and text(n.value).replace(" ", "") == "next_line(f_%s)" % side]
        tg = {text(n.targets[0]).replace(" ", "") for n in binds}
        if len(tg) == 1 and binds:
            t0 = binds[0].targets[0]
            if isinstance(t0, ast.Name):
                heads[side] = (t0.id + "[0]", t0.id + "[1]", tg.pop())
            elif isinstance(t0, ast.Tuple) and len(t0.elts) == 2 and \
                    all(isinstance(e, ast.Name) for e in t0.elts):
                heads[side] = (t0.elts[0].id, t0.elts[1].id, tg.pop())
    if len(body) == 1 and isinstance(body[0], ast.If) and body[0].orelse and \
            len(heads) == 2:
        iff = body[0]
        p = pat.cmp_raw(iff.test)
        strict_write = p is not None and p[0] == "<" and \
            p[1].replace(" ", "") == heads["write"][0] and \
            p[2].replace(" ", "") == heads["read"][0]

        def branch(stmts, side):
            other = "read" if side == "write" else "write"
            adv = [s for s in stmts if isinstance(s, ast.Assign)
                   and text(s.targets[0]).replace(" ", "") == heads[side][2]
                   and text(s.value).replace(" ", "") == "next_line(f_%s)" % side]
            wr = [s for s in _walk(stmts) if isinstance(s, ast.Call)
                  and text(s.func) == "f_comb.write" and s.args and
                  any(isinstance(x, (ast.Name, ast.Subscript)) and
                      text(x).replace(" ", "") == heads[side][1]
                      for x in ast.walk(s.args[0]))]
            allwr = [s for s in _walk(stmts) if isinstance(s, ast.Call)
                     and text(s.func) == "f_comb.write"]
            others = [s for s in _walk(stmts) if isinstance(s, ast.Assign)
                      and s not in adv and any(
                          isinstance(x, ast.Name) and isinstance(x.ctx, ast.Store)
                          and x.id in (heads[other][2].strip("()").split(",") +
                                       heads[side][2].strip("()").split(","))
                          for x in ast.walk(s.targets[0]))]
            return len(adv) == 1 and len(wr) == 1 and len(allwr) == 1 and not others
        ok = strict_write and branch(iff.body, "write") and branch(iff.orelse, "read")
    if ok:
        ctx.ok("C17.R4", c, lp, "stable two-finger merge: ties go to the read "
               "trace, each branch advances the side it wrote")
    else:
        ctx.bad("C17.R4", c, lp, "_combineTraces is no longer a merge that "
                "takes the write row only when its stamp is strictly smaller "
                "and advances exactly the side it consumed")
    f = ctx.func(T + "filterTrace")
    loops = [n for n in f.own_nodes() if isinstance(n, ast.While)]
    ctx.require(len(loops) == 1, "C17.R4: filterTrace loop not found")
    lp = loops[0]
    body = pat.real_stmts(lp.body)
    ok = False
    br = pat.three_way(ctx, f, body, "data_in", "data_fil")
    if br is not None:
        def adv(stmts):
            s = set()
            for x in _walk(stmts):
                if isinstance(x, ast.Assign) and text(x.targets[0]) in (
                        "line_in", "line_fil") and "readline" in text(x.value):
                    s.add(text(x.targets[0]))
            return s

        def wrote(stmts):
            return [x for x in _walk(stmts) if isinstance(x, ast.Call)
                    and text(x.func) == "f_out.write"]
        we = wrote(br["eq"])
        ok = len(we) == 1 and we[0].args and text(we[0].args[0]) == "line_in" and \
            adv(br["eq"]) == {"line_in", "line_fil"} and \
            adv(br["lt"]) == {"line_in"} and adv(br["gt"]) == {"line_fil"} and \
            not wrote(br["lt"]) and not wrote(br["gt"])
    if ok:
        ctx.ok("C17.R4", f, lp, "filter keeps a row exactly on a match and "
               "advances the smaller side otherwise")
    else:
        ctx.bad("C17.R4", f, lp, "filterTrace is no longer the two-pointer scan "
                "(match: keep + advance both; input smaller: advance input; "
                "else advance filter)")


# -- R5: the buffet's eviction window is the stamp prefix ----------------------

def r5_window(ctx):
    from .c18 import poly
    cands = [f for k, f in ctx.prog.funcs.items()
             if k.startswith(T + "buffetTraffic.") and f.name == "to_be_buffered"]
    ctx.require(len(cands) == 1, "C17.R5: buffet to_be_buffered not found")
    f = cands[0]
    rets = pat.returns(f)
    ctx.require(rets, "C17.R5: to_be_buffered has no return")
    params = f.all_param_names()
    ctx.require("trace" in params, "C17.R5: to_be_buffered lost its trace parameter")

    def sub(e, dflt=None):
        if e is None:
            return dflt
        p_ = poly(ctx, f, e)
        return None if p_ is None else {k_: v_ for k_, v_ in p_.items() if v_}

    for r in rets:
        v = r.value.elts[0] if isinstance(r.value, ast.Tuple) and r.value.elts else r.value
        if isinstance(v, ast.Name):
            v = pat.single_def(ctx, f, v) or v
        conj = [(t, pol) for t, pol in pat.conjuncts(v)]
        window = None
        exists = None
        for t, pol in conj:
            if not pol or not isinstance(t, ast.Compare) or len(t.ops) != 1:
                continue
            l, rr = t.left, t.comparators[0]
            if isinstance(t.ops[0], ast.Eq):
                l = pat.single_def(ctx, f, l) or l if isinstance(l, ast.Name) else l
                rr = pat.single_def(ctx, f, rr) or rr if isinstance(rr, ast.Name) else rr
                window = (l, rr, t)
            if isinstance(t.ops[0], ast.IsNot) and text(rr) == "None":
                exists = l
        gs = [(text(t).replace(" ", "").replace("'", '"'), pol) for t, pol in guards(r)]
        if window is None:
            # a return for the root case alone may legitimately have no window
            if ('evict_on=="root"', True) in gs and exists is not None:
                ctx.ok("C17.R5", f, r, "root binding: kept while a next use exists",
                       text_="buffet window root")
                continue
            ctx.bad("C17.R5", f, r, "the buffet no longer compares the "
                    "iteration stamp of this access with that of the next use",
                    text_="buffet window")
            continue
        l, rr, t = window
        ok = True
        why = []
        sl = []
        for side in (l, rr):
            if not (isinstance(side, ast.Subscript) and text(side.value) == "trace"
                    and isinstance(side.slice, ast.Slice) and side.slice.step is None):
                ok = False
                why.append("`%s` is not a slice of the trace row (the window "
                           "is the whole stamp prefix up to the evict-on rank, "
                           "not a single position)" % text(side))
            else:
                sl.append(side.slice)
        if ok:
            # the one starting at 0 is the current stamp
            lo = [sub(x.lower, {}) for x in sl]
            cur = [i for i, p_ in enumerate(lo) if p_ == {}]
            if len(cur) != 1:
                ok = False
                why.append("exactly one of the two slices must start at 0")
            else:
                c, n = sl[cur[0]], sl[1 - cur[0]]
                width = sub(c.upper)
                nlo, nhi = sub(n.lower), sub(n.upper)
                if width is None or nlo is None or nhi is None:
                    raise AnalysisError("C17.R5: cannot normalise the window bounds")
                diff = dict(nhi)
                for k_, v_ in nlo.items():
                    diff[k_] = diff.get(k_, 0) - v_
                diff = {k_: v_ for k_, v_ in diff.items() if v_}
                if diff != width:
                    ok = False
                    why.append("the two prefixes have different lengths (%s vs %s)"
                               % (width, diff))
                base = sub(exists) if exists is not None else None
                ex_ok = exists is not None and isinstance(exists, ast.Subscript) and \
                    text(exists.value) == "trace" and poly(ctx, f, exists.slice) == nlo
                if not ex_ok:
                    ok = False
                    why.append("no `trace[<start of next stamp>] is not None` test")
                # the width: 0 for root, index of the evict-on rank + 1 otherwise
                wname = c.upper
                vals = set()
                if isinstance(wname, ast.Name):
                    facts, _ = ctx.ty.facts_at(f, wname.id, wname)
                    for fa in facts:
                        g_ = [(text(t_).replace(" ", "").replace("'", '"'), pol_)
                              for t_, pol_ in guards(fa.stmt)]
                        root = ('evict_on=="root"', True) in g_
                        pv = poly(ctx, f, fa.value)
                        vals.add(("root" if root else "rank",
                                  tuple(sorted((k_, v_) for k_, v_ in pv.items() if v_))
                                  if pv is not None else None))
                want = {("root", ()),
                        ("rank", ((( ), 1), (("order.index(loop_ranks[evict_on])",), 1)))}
                if vals != want:
                    ok = False
                    why.append("prefix length is %s, expected 0 for root and "
                               "order.index(loop_ranks[evict_on]) + 1 otherwise"
                               % sorted(vals, key=str))
        if ok:
            ctx.ok("C17.R5", f, t, "window = stamp prefix up to and including "
                   "the evict-on rank, against the same prefix of the next use",
                   text_="buffet window")
        else:
            ctx.bad("C17.R5", f, t, "buffet eviction window: %s -- accesses in "
                    "different windows are merged (or one window split), so "
                    "fills / write-backs are not one per (line, window) pair"
                    % "; ".join(why), text_="buffet window")


# -- R6: cache admission shortcut agrees with the eviction loop ----------------

def _lin_cmp(ctx, f, test, pol=True):
    """(polynomial p, op) with `test` <=> p op 0, op in {'<=', '<'}."""
    from .c18 import poly
    if isinstance(test, ast.UnaryOp) and isinstance(test.op, ast.Not):
        return _lin_cmp(ctx, f, test.operand, not pol)
    if not isinstance(test, ast.Compare) or len(test.ops) != 1:
        return None
    l, r = poly(ctx, f, test.left), poly(ctx, f, test.comparators[0])
    if l is None or r is None:
        return None
    d = dict(l)
    for k, v in r.items():
        d[k] = d.get(k, 0) - v
    d = {k: v for k, v in d.items() if v}
    op = type(test.ops[0])
    neg = {k: -v for k, v in d.items()}
    table = {ast.LtE: (d, "<="), ast.Lt: (d, "<"), ast.GtE: (neg, "<="), ast.Gt: (neg, "<")}
    if op not in table:
        return None
    p, o = table[op]
    if not pol:
        p, o = {k: -v for k, v in p.items()}, {"<=": "<", "<": "<="}[o]
    return tuple(sorted(p.items())), o


def _dnf_ast(test, pol=True):
    """DNF of a test as lists of (atom expr, polarity)."""
    if isinstance(test, ast.UnaryOp) and isinstance(test.op, ast.Not):
        return _dnf_ast(test.operand, not pol)
    if isinstance(test, ast.BoolOp):
        is_and = isinstance(test.op, ast.And) == pol
        parts = [_dnf_ast(v, pol) for v in test.values]
        if not is_and:
            return [d for p in parts for d in p][:64]
        out = [[]]
        for p in parts:
            out = [a + b for a in out for b in p][:64]
        return out
    return [[(test, pol)]]


def r6_space(ctx):
    tb = [f for k, f in ctx.prog.funcs.items()
          if k.startswith(T + "cacheTraffic.") and f.name == "to_be_buffered"]
    ae = [f for k, f in ctx.prog.funcs.items()
          if k.startswith(T + "cacheTraffic.") and f.name == "add_elem"]
    ctx.require(len(tb) == 1 and len(ae) == 1, "C17.R6: cache callbacks not found")
    tb, ae = tb[0], ae[0]
    loops = [n for n in ae.own_nodes() if isinstance(n, ast.While)]
    ctx.require(len(loops) == 1, "C17.R6: eviction loop of the cache's add_elem not found")
    evict = _lin_cmp(ctx, ae, loops[0].test)
    if evict is None:
        # `while <no room> and <something left to evict>`: the space test is
        # the linear conjunct of the loop condition
        from ..cfg import flatten_conj
        lin = [x for x in (_lin_cmp(ctx, ae, t, pol)
                           for t, pol in flatten_conj(loops[0].test, True)) if x is not None]
        evict = lin[0] if len(lin) == 1 else None
    ctx.require(evict is not None, "C17.R6: eviction condition `%s` is not a "
                "linear comparison" % text(loops[0].test))
    # the shortcut: first `if <linear cmp>: to_buffer = True` of the miss path
    short = None
    cands = []
    for n in tb.own_nodes():
        if isinstance(n, ast.Assign) and isinstance(n.value, ast.Constant) and \
                n.value.value is True:
            # each way of reaching the store (disjunctions split up)
            ways = [[]]
            for t, pol in guards(n, asserts=False):
                alts = _dnf_ast(t, pol)
                ways = [w + a for w in ways for a in alts][:64]
            for way in ways:
                chain = [(t, pol) for t, pol in way
                         if _lin_cmp(ctx, tb, t, pol) is not None or
                         not any(isinstance(x, ast.Call) and text(x.func) == "isinstance"
                                 for x in ast.walk(t))]
                lin = [(t, pol) for t, pol in chain if _lin_cmp(ctx, tb, t, pol) is not None
                       and {x.id for x in ast.walk(t) if isinstance(x, ast.Name)}
                       & {"capacity"}]
                if lin:
                    cands.append((len(chain), n, lin[0]))
    if cands:
        cands.sort(key=lambda c: c[0])
        _, n_, (t_, pol_) = cands[0]
        short = (n_, _lin_cmp(ctx, tb, t_, pol_))
        short_txt = text(t_) if pol_ else "not (%s)" % text(t_)
    if short is None:
        ctx.bad("C17.R6", tb, tb.node, "the cache no longer admits a line "
                "outright when there is room for it", text_="cache room shortcut")
        return
    n, c = short
    room = (tuple(sorted((k, -v) for k, v in evict[0])), {"<=": "<", "<": "<="}[evict[1]])
    if c == room:
        ctx.ok("C17.R6", tb, n, "room test `%s` is the negation of the eviction "
               "condition `%s`" % (short_txt, text(loops[0].test)),
               text_="cache room shortcut")
    else:
        ctx.bad("C17.R6", tb, n, "the cache admits a line outright when `%s`, "
                "but add_elem evicts while `%s`: a line admitted through the "
                "shortcut can still force out a resident line (even one reused "
                "sooner), so the fills exceed the optimal policy's and can grow "
                "with capacity" % (short_txt, text(loops[0].test)),
                text_="cache room shortcut")


# -- R7: stamps / points read from a trace file are compared as numbers -------------

def r7_numeric_keys(ctx):
    """filterTrace and _combineTraces order rows by tuples parsed from CSV
    text.  Text compares lexicographically ('10' < '9'), so every tuple built
    from a `.split(',')` that one of their helpers returns must convert its
    fields with int()."""
    n = 0
    for key, helper in ((T + "filterTrace", "get_data"), (T + "_combineTraces", "next_line")):
        outer = ctx.func(key)
        hs = [m for m in ctx.prog.funcs.values() if m.outer is outer and m.name == helper]
        ctx.require(len(hs) == 1, "C17.R7: helper %s of %s not found" % (helper, key))
        h = hs[0]
        split_vars = set()
        for a in h.own_nodes():
            if isinstance(a, ast.Assign) and isinstance(a.targets[0], ast.Name) and \
                    any(isinstance(x, ast.Call) and isinstance(x.func, ast.Attribute)
                        and x.func.attr == "split" for x in ast.walk(a.value)):
                split_vars.add(a.targets[0].id)
        for r in pat.returns(h):
            vals = r.value.elts if isinstance(r.value, ast.Tuple) else [r.value]
            for v in vals:
                if not (isinstance(v, ast.Call) and text(v.func) == "tuple" and v.args):
                    continue
                a0 = v.args[0]
                names = {x.id for x in ast.walk(a0) if isinstance(x, ast.Name)}
                if not (names & split_vars):
                    continue
                n += 1
                conv = isinstance(a0, (ast.GeneratorExp, ast.ListComp)) and \
                    isinstance(a0.elt, ast.Call) and text(a0.elt.func) == "int" and \
                    len(a0.generators) == 1 and isinstance(a0.generators[0].target, ast.Name) \
                    and a0.elt.args and text(a0.elt.args[0]) == a0.generators[0].target.id
                if conv:
                    ctx.ok("C17.R7", h, v, "fields converted with int() before "
                           "they are compared", text_="%s numeric key" % helper)
                else:
                    ctx.bad("C17.R7", h, v, "%s returns `%s`: the fields of the "
                            "CSV row stay text, and the rows are then ordered "
                            "lexicographically ('10' < '9'): the two-pointer "
                            "scan advances the wrong side and drops / misorders "
                            "rows once a coordinate or stamp has two digits"
                            % (helper, text(v)[:60]), text_="%s numeric key" % helper)
    ctx.floor("C17.R7", n, 2, "ordering keys parsed from trace rows")


# -- R8: per-binding tables follow the order of the binding list -----------------------

def r8_table_order(ctx):
    """The simulation addresses bindings by their index in the ordered,
    flattened binding list.  A list handed to the policy callbacks next to
    that index must be filled in the same order, i.e. by appends inside a loop
    over the binding list -- not over the caller's `bindings`."""
    f = ctx.func(T + "_bufferTraffic")
    blist = None
    for c in f.own_nodes():
        if isinstance(c, ast.Call) and text(c.func) == "pre_sim_hook" and c.args:
            blist = text(c.args[0])
    ctx.require(blist, "C17.R8: binding list not found")
    passed = set()
    for c in f.own_nodes():
        if isinstance(c, ast.Call) and text(c.func) in ("to_be_buffered", "add_elem") \
                and c.args and text(c.args[0]) == blist:
            passed |= {a.id for a in c.args[1:] if isinstance(a, ast.Name)}
    n = 0
    for name in sorted(passed):
        apps = [c for c in f.own_nodes() if isinstance(c, ast.Call)
                and text(c.func) == name + ".append"]
        if not apps:
            continue
        for c in apps:
            n += 1
            loops = [a for a in _anc(c) if isinstance(a, ast.For)]
            its = []
            for lp in loops:
                it = lp.iter
                if isinstance(it, ast.Call) and text(it.func) == "enumerate" and it.args:
                    it = it.args[0]
                its.append(text(it))
            if blist in its:
                ctx.ok("C17.R8", f, c, "`%s` filled in the order of the binding "
                       "list" % name, text_="%s order" % name)
            else:
                ctx.bad("C17.R8", f, c, "`%s` is handed to the policy callbacks "
                        "with a binding index, but it is filled in a loop over "
                        "%s, not over the ordered binding list `%s`: with "
                        "bindings listed out of loop order every binding reads "
                        "another binding's entry" % (name, its or "no loop", blist),
                        text_="%s order" % name)
    ctx.floor("C17.R8", n, 1, "per-binding tables passed to the policy callbacks")
