"""C11 -- arithmetic on boxes, elements and fibers agrees with arithmetic on
the values (boxes and elements decided; fibers partially).

R1/R2 operator-slot conformance tables for Payload and CoordPayload
(operator, operand order, both operand kinds, in-place forms assign the
same box, <<= replaces); R3 in-place slots return self; R4 no dead
(non-Python-3) slots and CoordPayload forwards what Payload implements;
R5 fiber reflected forms delegate and each fiber form iterates the
co-iteration its definition names.
"""

import ast

from ..model import text, AnalysisError
from ..cfg import cfg_of, EXIT, guards, atomic_guards, enclosing_stmt
from ..sites import iter_kind
from .. import pat
from .c03 import r3 as inplace_returns_self

EXPLANATION = (
    "Operator-slot conformance: for every operator method of Payload and "
    "CoordPayload the value computed (found by def-use from the return / "
    "the store) must be `<own value> OP <other's value>` on the path where "
    "the other operand is a box and `<own value> OP other` otherwise, with "
    "OP the slot's own Python operator and this operand order (reflected "
    "slots: `other OP <own value>`); value-returning slots return a new "
    "box (comparisons the bare truth value), in-place slots store into the "
    "same box and return self, <<= replaces.  Every dunder method must be a "
    "slot Python 3 dispatches to, CoordPayload must forward every "
    "arithmetic/comparison slot Payload implements, an element-level "
    "in-place slot must rest on a Payload in-place slot (otherwise Python "
    "rebinds the attribute to a new box).  Fiber forms: reflected forms "
    "delegate; + iterates the union, * the intersection, scalar + the "
    "shape, scalar * the stored elements; in-place forms update the yielded "
    "boxes.  Numeric results of fiber arithmetic are not decided.")
RULE = ("one obligation per operator slot of Payload / CoordPayload (x "
        "clauses: expression table, result kind, guard), per dunder name, "
        "per Fiber arithmetic form")

BIN = {"__add__": ast.Add, "__sub__": ast.Sub, "__mul__": ast.Mult,
       "__truediv__": ast.Div, "__floordiv__": ast.FloorDiv,
       "__and__": ast.BitAnd, "__or__": ast.BitOr, "__xor__": ast.BitXor,
       "__lshift__": ast.LShift, "__rshift__": ast.RShift, "__mod__": ast.Mod}
REFL = {"__radd__": ast.Add, "__rsub__": ast.Sub, "__rmul__": ast.Mult,
        "__rtruediv__": ast.Div, "__rfloordiv__": ast.FloorDiv}
INPL = {"__iadd__": ast.Add, "__isub__": ast.Sub, "__imul__": ast.Mult,
        "__itruediv__": ast.Div, "__ifloordiv__": ast.FloorDiv}
CMP = {"__eq__": ast.Eq, "__ne__": ast.NotEq, "__lt__": ast.Lt,
       "__le__": ast.LtE, "__gt__": ast.Gt, "__ge__": ast.GtE}
SYM = {ast.Add: "+", ast.Sub: "-", ast.Mult: "*", ast.Div: "/",
       ast.FloorDiv: "//", ast.BitAnd: "&", ast.BitOr: "|", ast.BitXor: "^",
       ast.LShift: "<<", ast.RShift: ">>", ast.Mod: "%", ast.Eq: "==",
       ast.NotEq: "!=", ast.Lt: "<", ast.LtE: "<=", ast.Gt: ">", ast.GtE: ">="}
PY3_DUNDERS = {
    "__new__", "__init__", "__del__", "__repr__", "__str__", "__bytes__",
    "__format__", "__lt__", "__le__", "__eq__", "__ne__", "__gt__", "__ge__",
    "__hash__", "__bool__", "__getattr__", "__getattribute__", "__setattr__",
    "__delattr__", "__dir__", "__get__", "__set__", "__delete__", "__call__",
    "__len__", "__length_hint__", "__getitem__", "__setitem__", "__delitem__",
    "__missing__", "__iter__", "__reversed__", "__contains__", "__next__",
    "__add__", "__sub__", "__mul__", "__matmul__", "__truediv__",
    "__floordiv__", "__mod__", "__divmod__", "__pow__", "__lshift__",
    "__rshift__", "__and__", "__xor__", "__or__", "__radd__", "__rsub__",
    "__rmul__", "__rmatmul__", "__rtruediv__", "__rfloordiv__", "__rmod__",
    "__rdivmod__", "__rpow__", "__rlshift__", "__rrshift__", "__rand__",
    "__rxor__", "__ror__", "__iadd__", "__isub__", "__imul__", "__imatmul__",
    "__itruediv__", "__ifloordiv__", "__imod__", "__ipow__", "__ilshift__",
    "__irshift__", "__iand__", "__ixor__", "__ior__", "__neg__", "__pos__",
    "__abs__", "__invert__", "__complex__", "__int__", "__float__",
    "__index__", "__round__", "__trunc__", "__floor__", "__ceil__",
    "__enter__", "__exit__", "__copy__", "__deepcopy__", "__getstate__",
    "__setstate__", "__reduce__", "__reduce_ex__", "__getnewargs__",
    "__sizeof__", "__class_getitem__", "__init_subclass__", "__set_name__",
    "__await__", "__aiter__", "__anext__", "__aenter__", "__aexit__",
    "__key", "__fspath__", "__instancecheck__", "__subclasscheck__"}


def run(ctx):
    ctx.guard(slots, "Payload", "value", "C11.R1")
    ctx.guard(slots, "CoordPayload", "payload", "C11.R2")
    ctx.guard(r3)
    ctx.guard(r4)
    ctx.guard(r5)
    ctx.guard(r6_fiber_replace)
    ctx.assume("the boxed values' own operators are correct (int/float "
               "arithmetic of Python)")


# ---------------------------------------------------------------------------
def _ops_in(ctx, f, own, other_name):
    """All operator applications in `f` between the own value and the other
    operand: [(op type, left text, right text, node)]."""
    out = []
    for n in f.own_nodes():
        l = r = op = None
        if isinstance(n, ast.BinOp):
            l, r, op = n.left, n.right, type(n.op)
        elif isinstance(n, ast.Compare) and len(n.ops) == 1:
            l, r, op = n.left, n.comparators[0], type(n.ops[0])
        elif isinstance(n, ast.AugAssign):
            l, r, op = n.target, n.value, type(n.op)
        elif isinstance(n, ast.Call) and text(n.func).startswith("operator.") \
                and len(n.args) == 2:
            opn = text(n.func)[9:]
            m = {"add": ast.Add, "sub": ast.Sub, "mul": ast.Mult,
                 "truediv": ast.Div, "floordiv": ast.FloorDiv, "and_": ast.BitAnd,
                 "or_": ast.BitOr, "lshift": ast.LShift, "eq": ast.Eq,
                 "ne": ast.NotEq, "lt": ast.Lt, "le": ast.LtE, "gt": ast.Gt,
                 "ge": ast.GtE}.get(opn)
            if m:
                l, r, op = n.args[0], n.args[1], m
        if op is None:
            continue
        lt = pat.inline(ctx, f, l).replace(" ", "")
        rt = pat.inline(ctx, f, r).replace(" ", "")
        names = {"self." + own, other_name + "." + own, other_name,
                 other_name + ".value", "self.value"}
        # Payload.get(other) is the unboxing helper: `other.value` for a box,
        # `other` itself otherwise -- one expression for both operand kinds
        unbox = "Payload.get(%s)" % other_name
        if unbox in (lt, rt) and _get_is_unboxer(ctx):
            for alt in (other_name, other_name + ".value"):
                l2 = alt if lt == unbox else lt
                r2 = alt if rt == unbox else rt
                if l2 in names and r2 in names:
                    n._c11_unboxed = True
                    out.append((op, l2, r2, n))
            continue
        if lt in names and rt in names:
            out.append((op, lt, rt, n))
    return out


def _get_is_unboxer(ctx):
    """Payload.get(x) returns x.value for a Payload and x itself otherwise
    (read from its source on every run)."""
    g = ctx.prog.maybe_method("Payload", "get")
    if g is None or not g.params:
        return False
    x = g.params[0]
    from ..cfg import atomic_guards
    got = set()
    for r in pat.returns(g):
        gs = {pat.catom(ctx, g, t, pol, False) for t, pol in atomic_guards(r)}
        isbox = pat.T("isinstance(%s, Payload)" % x)
        v = text(r.value).replace(" ", "")
        if v == x and (isbox[0], isbox[1], False) in gs:
            got.add("plain")
        if v == x + ".value" and isbox in gs:
            got.add("boxed")
    return got == {"plain", "boxed"}


def _guarded_by_isinstance(ctx, f, node, other_name, cls_names):
    st = enclosing_stmt(node)
    for t, pol in atomic_guards(st):
        if isinstance(t, ast.Call) and text(t.func) == "isinstance" and \
                len(t.args) == 2 and text(t.args[0]) == other_name and \
                text(t.args[1]) in cls_names:
            return pol
    return None


def _canon3(o, l, r):
    """One spelling per comparison: a > b == b < a; == / != are symmetric."""
    if o is ast.Gt:
        return (ast.Lt, r, l)
    if o is ast.GtE:
        return (ast.LtE, r, l)
    if o in (ast.Eq, ast.NotEq) and r < l:
        return (o, r, l)
    return (o, l, r)


def slots(ctx, cname, own, rule):
    ci = ctx.prog.cls(cname)
    n = 0
    me = "self." + own
    for mname, f in sorted(ci.methods.items()):
        table = None
        kind = None
        for k, tb in (("bin", BIN), ("refl", REFL), ("inpl", INPL), ("cmp", CMP)):
            if mname in tb:
                table, kind = tb, k
        if mname == "__ilshift__":
            kind = "assign"
        if kind is None:
            continue
        if f.cls is not ci:
            continue
        ctx.consulted.add(f.module.rel)
        n += 1
        if len(f.params) < 2:
            ctx.bad(rule, f, f.node, "%s.%s takes no operand" % (cname, mname),
                    text_="%s.%s" % (cname, mname))
            continue
        other = f.params[1]
        # delegation to a sibling slot is accepted as that slot
        deleg = _delegates(ctx, f, ci, table)
        if deleg:
            ctx.ok(rule, f, f.node, "delegates to %s" % deleg,
                   text_="%s.%s" % (cname, mname))
            continue
        _slot_by_cases(ctx, rule, cname, mname, f, own, other, kind,
                       table[mname] if table else None)
    ctx.floor(rule, n, 16, "operator slots of %s" % cname)


OPFUNC = {"add": ast.Add, "sub": ast.Sub, "mul": ast.Mult,
          "truediv": ast.Div, "floordiv": ast.FloorDiv, "and_": ast.BitAnd,
          "or_": ast.BitOr, "lshift": ast.LShift, "eq": ast.Eq,
          "ne": ast.NotEq, "lt": ast.Lt, "le": ast.LtE, "gt": ast.Gt,
          "ge": ast.GtE}


def _op_term(e):
    """(op type, left text, right text) of an operator application, else None."""
    from ..symcase import norm
    if isinstance(e, ast.BinOp):
        return (type(e.op), norm(e.left), norm(e.right))
    if isinstance(e, ast.Compare) and len(e.ops) == 1:
        return (type(e.ops[0]), norm(e.left), norm(e.comparators[0]))
    if isinstance(e, ast.Call) and text(e.func).startswith("operator.") and \
            len(e.args) == 2 and not e.keywords and text(e.func)[9:] in OPFUNC:
        return (OPFUNC[text(e.func)[9:]], norm(e.args[0]), norm(e.args[1]))
    return None


def _show(t):
    return "%s %s %s" % (t[1], SYM.get(t[0], "?"), t[2])


def _slot_by_cases(ctx, rule, cname, mname, f, own, other, kind, want_op):
    """One operator slot, read case by case (the operand is a box / is not):
    in each case the value returned (or stored, for the in-place forms) must
    be the slot's own operator applied to the own value and the operand's
    value, as a term -- however the method spells the case split
    (sa/symcase.py)."""
    from .. import symcase
    from ..symcase import norm
    me = "self." + own
    boxed_other = other + "." + ("payload" if cname == "CoordPayload" else own)
    classes = {cname, "Payload"} if cname == "Payload" else {cname}
    label = "%s.%s" % (cname, mname)
    for boxed in (True, False):
        operand = boxed_other if boxed else other
        casename = "a %s operand" % cname if boxed else "a plain operand"
        ev = symcase.Evaluator(ctx, symcase.isinstance_decider(other, classes, boxed))
        outs = ev.run(f)
        bad = [o for o in outs if o.opaque]
        if bad or not outs:
            ctx.bad(rule, f, bad[0].opaque if bad else f.node,
                    "%s cannot be followed statement by statement (loop / try "
                    "/ with in an operator slot)" % label,
                    text_="%s expression" % label)
            return
        if kind == "refl":
            want = (want_op, other, me)
        elif kind == "assign":
            want = None
        else:
            want = (want_op, me, operand)
        for o in outs:
            if o.returned and isinstance(o.ret_stmt, ast.Raise):
                continue
            if kind in ("bin", "refl", "cmp"):
                v = o.ret
                node = o.ret_stmt or f.node
                if cname == "Payload" and kind != "cmp":
                    if not (isinstance(v, ast.Call) and text(v.func) == "Payload"
                            and len(v.args) >= 1):
                        ctx.bad(rule, f, node, "%s returns `%s` for %s, not a new "
                                "Payload box" % (label, norm(v) or "nothing", casename),
                                text_="%s result" % label)
                        return
                    v = v.args[0]
                got = _op_term(v)
                if got is None or _canon3(*got) != _canon3(*want):
                    ctx.bad(rule, f, node,
                            "%s must compute `%s` for %s; it returns `%s`: the "
                            "result of two values differs from the same "
                            "operator on the underlying values for unequal "
                            "operands" % (label, _show(want), casename,
                                          norm(o.ret) or "nothing"),
                            text_="%s expression" % label)
                    return
                continue
            # in-place forms and <<=: what is stored into the box
            st = [x for x in o.stores if x[0] == me]
            node = st[0][3] if st else f.node
            if len(st) != 1 or len(o.stores) != 1:
                ctx.bad(rule, f, node, "%s does not store exactly one value into "
                        "%s for %s (stores: %s)"
                        % (label, me, casename,
                           [(t, norm(v)) for t, _, v, _ in o.stores] or "none"),
                        text_="%s store" % label)
                return
            tgt, op, val, stmt = st[0]
            if kind == "assign":
                if cname == "Payload":
                    good = op is None and norm(val) == operand
                else:
                    good = op is ast.LShift and norm(val) == operand
                if not good:
                    ctx.bad(rule, f, stmt,
                            "%s stores `%s%s` for %s: `x <<= v` must replace the "
                            "boxed value with %s (CoordPayload(1,4) <<= 6 must "
                            "hold 6, not 4+6)"
                            % (label, (SYM.get(op, "?") + "= ") if op else "",
                               norm(val), casename, operand),
                            text_="%s replacement" % label if cname != "Payload"
                            else "%s.__ilshift__" % cname)
                    return
                continue
            if op is None:
                got = _op_term(val)
            else:
                got = (op, me, norm(val))
            if got is None or _canon3(*got) != _canon3(*want) or \
                    (op is None and kind == "inpl" and got[1] != me and
                     want_op in (ast.Sub, ast.Div, ast.FloorDiv)):
                ctx.bad(rule, f, stmt,
                        "%s must store `%s` for %s; it stores `%s%s`: the "
                        "result of two values differs from the same operator "
                        "on the underlying values for unequal operands"
                        % (label, _show(want), casename,
                           (SYM.get(op, "?") + "= ") if op else "", norm(val)),
                        text_="%s expression" % label)
                return
            if cname == "CoordPayload" and op is not None:
                # the element-level in-place form must rest on a Payload
                # in-place slot, else `self.payload OP= x` rebinds the
                # attribute to a new box
                pm = ctx.prog.cls("Payload")
                if f.name not in pm.methods:
                    ctx.bad(rule, f, stmt,
                            "CoordPayload.%s applies `%s` to self.payload but "
                            "Payload has no %s: Python falls back to the "
                            "value-returning operator and rebinds self.payload "
                            "to a new box, so the stored payload in the fiber "
                            "is not updated" % (f.name, text(stmt)[:40], f.name),
                            text_="CoordPayload.%s rests on missing Payload.%s"
                            % (f.name, f.name))
                    return
    ctx.ok(rule, f, f.node, "case by case (operand boxed / plain) the slot "
           "%s `%s %s <operand's value>`%s"
           % ("stores" if kind in ("inpl", "assign") else "returns", me,
              SYM.get(want_op, "<-"),
              " in a new box" if cname == "Payload" and kind in ("bin", "refl") else ""),
           text_=label)


def _delegates(ctx, f, ci, table):
    rets = pat.returns(f)
    if len(rets) == 1 and isinstance(rets[0].value, ast.Call) and \
            isinstance(rets[0].value.func, ast.Attribute) and \
            text(rets[0].value.func.value) == f.params[0]:
        m = rets[0].value.func.attr
        base = f.name.replace("__r", "__", 1) if f.name.startswith("__r") else None
        if m == base and m in ci.methods and len(real_body(f)) == 1:
            # only commutative operators may delegate the reflected form
            if f.name in ("__radd__", "__rmul__", "__rand__", "__ror__", "__rxor__"):
                return m
    return None


def real_body(f):
    return pat.real_stmts(f.body)


def _result_ok(ctx, f, kind, cname, own, ops):
    rule = "C11.R1" if cname == "Payload" else "C11.R2"
    opnodes = {id(n) for _, _, _, n in ops}
    g = cfg_of(f, assert_edges=False)
    if kind in ("bin", "refl", "cmp"):
        for r in pat.returns(f):
            v = r.value
            leaves = _value_leaves(ctx, f, v)
            if cname == "Payload" and kind != "cmp":
                if not (isinstance(v, ast.Call) and text(v.func) == "Payload"
                        and v.args):
                    ctx.bad(rule, f, r, "%s.%s returns `%s`, not a new "
                            "Payload box" % (cname, f.name, text(v)),
                            text_="%s.%s result" % (cname, f.name))
                    return False
                leaves = _value_leaves(ctx, f, v.args[0])
            if not leaves or not all(id(x) in opnodes for x in leaves):
                ctx.bad(rule, f, r, "%s.%s returns `%s`, which is not the "
                        "computed operator result" % (cname, f.name, text(v)),
                        text_="%s.%s result" % (cname, f.name))
                return False
        return True
    # in-place: the result is stored into the same box
    me = "self." + own
    stores = []
    for n in f.own_nodes():
        if isinstance(n, ast.Assign) and text(n.targets[0]) == me:
            stores.append((n, _value_leaves(ctx, f, n.value)))
        elif isinstance(n, ast.AugAssign) and text(n.target) == me:
            stores.append((n, [n]))
    if not stores or not all(lv and all(id(x) in opnodes for x in lv)
                             for _, lv in stores):
        ctx.bad(rule, f, f.node, "%s.%s does not store the computed value "
                "into %s" % (cname, f.name, me),
                text_="%s.%s store" % (cname, f.name))
        return False
    if cname == "CoordPayload":
        # the element-level in-place form must rest on a Payload in-place
        # slot, else `self.payload OP= x` rebinds the attribute to a new box
        p = ctx.prog.cls("Payload")
        if f.name not in p.methods and any(isinstance(n, ast.AugAssign)
                                           for n, _ in stores):
            ctx.bad(rule, f, stores[0][0],
                    "CoordPayload.%s applies `%s` to self.payload but Payload "
                    "has no %s: Python falls back to the value-returning "
                    "operator and rebinds self.payload to a new box, so the "
                    "stored payload in the fiber is not updated"
                    % (f.name, text(stores[0][0])[:40], f.name),
                    text_="CoordPayload.%s rests on missing Payload.%s"
                    % (f.name, f.name))
            return False
    return True


def _value_leaves(ctx, f, v, depth=0):
    """Operator nodes a value expression resolves to through temporaries."""
    if v is None or depth > 4:
        return []
    if isinstance(v, (ast.BinOp, ast.Compare)):
        return [v]
    if isinstance(v, ast.Call) and text(v.func).startswith("operator."):
        return [v]
    if isinstance(v, ast.Name):
        facts, is_param = ctx.ty.facts_at(f, v.id, v)
        if is_param or not facts:
            return []
        out = []
        for fa in facts:
            if fa.kind != "expr" or fa.path:
                return []
            lv = _value_leaves(ctx, f, fa.value, depth + 1)
            if not lv:
                return []
            out.extend(lv)
        return out
    return []


def _check_assign(ctx, rule, cname, f, own, other):
    """<<= replaces the boxed value (no arithmetic)."""
    me = "self." + own
    if cname == "Payload":
        want = {other + ".value", other}
        got = set()
        for n in f.own_nodes():
            if isinstance(n, ast.Assign) and text(n.targets[0]) == me:
                got.add(pat.inline(ctx, f, n.value).replace(" ", ""))
        if got == {"Payload.get(%s)" % other} and _get_is_unboxer(ctx):
            got = set(want)
        if got == want:
            ctx.ok(rule, f, f.node, "<<= stores other's value / other",
                   text_="%s.__ilshift__" % cname)
        else:
            ctx.bad(rule, f, f.node, "Payload.__ilshift__ stores %s instead of "
                    "replacing the value with other.value / other" % sorted(got),
                    text_="%s.__ilshift__" % cname)
        return
    want = {(ast.LShift, me, other + ".payload"), (ast.LShift, me, other)}
    got = set()
    node = None
    for n in f.own_nodes():
        if isinstance(n, ast.AugAssign) and text(n.target) == me:
            got.add((type(n.op), me, pat.inline(ctx, f, n.value).replace(" ", "")))
            node = node or n
    if got == want:
        ctx.ok(rule, f, f.node, "<<= forwards replacement to the payload box",
               text_="%s.__ilshift__" % cname)
    else:
        bad = sorted("%s <<= %s" % (l, r) for o, l, r in got - want)
        ctx.bad(rule, f, node or f.node,
                "CoordPayload.__ilshift__ performs %s: `cp <<= v` must replace "
                "the payload's value with v (CoordPayload(1,4) <<= 6 must hold "
                "6, not 4+6)" % (bad or "no replacement"),
                text_="%s.__ilshift__ replacement" % cname)


# ---------------------------------------------------------------------------
def r3(ctx):
    # shared with C03.R3, reported under C11
    before = len(ctx.findings)
    saved = ctx.prop
    inplace_returns_self(ctx)
    for fnd in ctx.findings[before:]:
        fnd.rule = "C11.R3"
    for o in ctx.obligations:
        if o["rule"] == "C03.R3":
            o["rule"] = "C11.R3"


def r4(ctx):
    n = 0
    for cname in ("Payload", "CoordPayload", "Fiber"):
        ci = ctx.prog.cls(cname)
        for mname, f in sorted(ci.methods.items()):
            if not (mname.startswith("__") and mname.endswith("__")):
                continue
            n += 1
            if mname in PY3_DUNDERS:
                ctx.ok("C11.R4", f, f.node, "a slot Python 3 dispatches to",
                       text_="%s.%s" % (cname, mname))
            else:
                ctx.bad("C11.R4", f, f.node,
                        "%s.%s is not a special method Python 3 ever calls "
                        "(Python 2 name?): the operator it was meant to "
                        "implement raises TypeError on a %s"
                        % (cname, mname, cname), text_="%s.%s" % (cname, mname))
    ctx.floor("C11.R4", n, 40, "dunder methods")
    p = ctx.prog.cls("Payload")
    cp = ctx.prog.cls("CoordPayload")
    need = [m for m in list(BIN) + list(REFL) + list(INPL) + list(CMP)
            if m in p.methods and m in ("__add__", "__sub__", "__mul__",
                                        "__truediv__", "__radd__", "__rsub__",
                                        "__rmul__", "__iadd__", "__isub__",
                                        "__imul__", "__eq__", "__ne__", "__lt__",
                                        "__le__", "__gt__", "__ge__")]
    # arithmetic families must be complete on the box: without the in-place
    # slot `p OP= x` rebinds the name to a new box, without the reflected
    # slot `scalar OP p` raises TypeError
    for base in ("add", "sub", "mul", "truediv"):
        if "__%s__" % base not in p.methods:
            continue
        for pre, what in (("i", "in-place form (p %s= x would create a new box "
                                "instead of updating the stored one)"),
                          ("r", "scalar-on-the-left form (x %s p raises TypeError)")):
            nm = "__%s%s__" % (pre, base)
            sym = {"add": "+", "sub": "-", "mul": "*", "truediv": "/"}[base]
            if nm in p.methods:
                ctx.ok("C11.R4", p, p.node, "Payload implements %s" % nm,
                       text_="Payload implements %s" % nm)
            else:
                ctx.bad("C11.R4", p, p.node, "Payload implements __%s__ but "
                        "lacks %s: the %s" % (base, nm, what % sym),
                        text_="Payload implements %s" % nm)
    for m in need:
        if m in cp.methods:
            ctx.ok("C11.R4", cp, cp.node, "CoordPayload forwards %s" % m,
                   text_="CoordPayload forwards %s" % m)
        else:
            ctx.bad("C11.R4", cp, cp.node,
                    "Payload implements %s but CoordPayload does not forward "
                    "it: the element form of the operator is missing" % m,
                    text_="CoordPayload forwards %s" % m)


# ---------------------------------------------------------------------------
def r5(ctx):
    F = ctx.prog.cls("Fiber")
    for refl, base in (("__radd__", "__add__"), ("__rmul__", "__mul__")):
        f = ctx.method("Fiber", refl)
        rets = pat.returns(f)
        if len(rets) == 1 and text(rets[0].value).replace(" ", "") == \
                "self.%s(other)" % base:
            ctx.ok("C11.R5", f, rets[0], "reflected form delegates")
        else:
            ctx.bad("C11.R5", f, f.node, "Fiber.%s no longer delegates to %s"
                    % (refl, base), text_="Fiber.%s" % refl)
    forms = [
        ("__add__", True, "BinOp:|", "self_val + other_val"),
        ("__add__", False, "iterShape", None),
        ("__mul__", True, "BinOp:&", None),
        ("__mul__", False, "FILTERED:self", None),
        ("__iadd__", True, "BinOp:<<", None),
        ("__iadd__", False, "iterShapeRef", None),
        ("__imul__", True, "BinOp:&", None),
        ("__imul__", False, "FILTERED:self", None),
    ]
    for mname, fiber_form, want, _ in forms:
        f = ctx.method("Fiber", mname)
        if mname in ("__add__", "__mul__"):
            _value_form(ctx, f, mname, fiber_form, want)
            continue
        loops = []
        for n in f.own_nodes():
            if isinstance(n, ast.For):
                isf = _under_fiber_test(ctx, f, n)
                if isf == fiber_form:
                    loops.append(n)
        if len(loops) != 1:
            ctx.bad("C11.R5", f, f.node, "Fiber.%s: cannot find the single loop "
                    "of its %s form" % (mname, "fiber" if fiber_form else "scalar"),
                    text_="Fiber.%s %s form" % (mname, "fiber" if fiber_form else "scalar"))
            continue
        it = loops[0].iter
        if isinstance(it, ast.Name):
            it = pat.single_def(ctx, f, it) or it
        if isinstance(it, ast.Call) and text(it.func) == "iter" and len(it.args) == 1 \
                and not it.keywords:
            it = it.args[0]         # iter(x) iterates x
        got = None
        if isinstance(it, ast.BinOp):
            got = "BinOp:" + {ast.BitOr: "|", ast.BitAnd: "&", ast.LShift: "<<",
                              ast.BitXor: "^", ast.Sub: "-"}.get(type(it.op), "?")
            if not (text(it.left) == "self" and text(it.right) == f.params[1]):
                got += "(operands %s)" % text(it)
        elif isinstance(it, ast.Call) and isinstance(it.func, ast.Attribute) and \
                text(it.func.value) == "self":
            got = it.func.attr
        elif text(it) == "self":
            got = "FILTERED:self"
        if got == want:
            ctx.ok("C11.R5", f, loops[0], "%s form iterates %s"
                   % ("fiber" if fiber_form else "scalar", want))
        else:
            ctx.bad("C11.R5", f, loops[0],
                    "Fiber.%s (%s operand) iterates `%s` instead of %s: the "
                    "result is no longer the elementwise %s over the %s"
                    % (mname, "fiber" if fiber_form else "scalar", text(it), want,
                       "sum" if "add" in mname else "product",
                       {"BinOp:|": "union", "BinOp:&": "intersection",
                        "BinOp:<<": "destination driven by the source",
                        "iterShape": "whole shape", "iterShapeRef": "whole shape",
                        "FILTERED:self": "stored elements"}[want]))
            continue
        _check_form_body(ctx, f, mname, fiber_form, loops[0])


def _iter_label(f, it):
    got = None
    if isinstance(it, ast.BinOp):
        got = "BinOp:" + {ast.BitOr: "|", ast.BitAnd: "&", ast.LShift: "<<",
                          ast.BitXor: "^", ast.Sub: "-"}.get(type(it.op), "?")
        if not (text(it.left) == "self" and text(it.right) == f.params[1]):
            got += "(operands %s)" % text(it)
    elif isinstance(it, ast.Call) and isinstance(it.func, ast.Attribute) and \
            text(it.func.value) == "self":
        got = it.func.attr
    elif text(it) == "self":
        got = "FILTERED:self"
    return got


MEANS = {"BinOp:|": "union", "BinOp:&": "intersection",
         "BinOp:<<": "destination driven by the source",
         "iterShape": "whole shape", "iterShapeRef": "whole shape",
         "FILTERED:self": "stored elements"}


def _value_form(ctx, f, mname, fiber_form, want):
    """`fiber + x` / `fiber * x`: under each operand kind the method returns
    a new fiber whose coordinate and payload lists are built one element
    per item of the co-iteration the operator names, the payload being the
    operator applied to what that co-iteration delivers.  Read off the
    method specialised to the case (loops with append and comprehensions
    alike, also composed ones)."""
    from .. import symcase
    from ..symcase import norm
    other = f.params[1]
    form = "fiber" if fiber_form else "scalar"
    key = "Fiber.%s %s form" % (mname, form)
    stmts = symcase.specialise(f.body, symcase.isinstance_decider(other, {"Fiber"}, fiber_form))
    rets = [s_ for s_ in stmts if isinstance(s_, ast.Return)]
    maps = pat.list_maps_in(stmts)
    v = rets[0].value if len(rets) == 1 else None
    if isinstance(v, ast.Name):
        ds = [s_ for s_ in stmts if isinstance(s_, ast.Assign) and len(s_.targets) == 1
              and text(s_.targets[0]) == v.id]
        v = ds[0].value if len(ds) == 1 else None
    cm = pm = None
    def as_map(a, tag):
        if isinstance(a, ast.Name):
            return pat.resolve_list_map(maps, a.id)
        if isinstance(a, ast.ListComp) and len(a.generators) == 1 and \
                not a.generators[0].ifs:
            g = a.generators[0]
            maps[tag] = (g.iter, g.target, a.elt, rets[0])
            return pat.resolve_list_map(maps, tag)
        return None
    if isinstance(v, ast.Call) and len(v.args) >= 2 and not v.keywords and \
            text(v.func).replace(" ", "") in ("self._newFiber", "Fiber"):
        cm = as_map(v.args[0], "<coords>")
        pm = as_map(v.args[1], "<payloads>")
    if cm is None or pm is None or cm[3] is not pm[3] and \
            (norm(cm[0]), norm(cm[1])) != (norm(pm[0]), norm(pm[1])):
        ctx.bad("C11.R5", f, f.node, "Fiber.%s: cannot find the single loop "
                "of its %s form (the result must be a new fiber built from two "
                "lists filled one element per item of one iteration)"
                % (mname, form), text_=key)
        return
    it, tg, pelt, node = pm
    got = _iter_label(f, it)
    if got != want:
        ctx.bad("C11.R5", f, node,
                "Fiber.%s (%s operand) iterates `%s` instead of %s: the "
                "result is no longer the elementwise %s over the %s"
                % (mname, form, text(it), want,
                   "sum" if "add" in mname else "product", MEANS[want]))
        return
    ctx.ok("C11.R5", f, node, "%s form iterates %s" % (form, want))
    sym = "+" if mname == "__add__" else "*"
    ok = False
    cname = None
    if isinstance(tg, ast.Tuple) and len(tg.elts) == 2 and isinstance(tg.elts[0], ast.Name):
        cname = tg.elts[0].id
        pe = norm(pelt)
        if fiber_form and isinstance(tg.elts[1], ast.Tuple):
            names = [text(e) for e in tg.elts[1].elts]
            if mname == "__add__":
                ok = len(names) == 3 and pe == "%s+%s" % (names[1], names[2])
            else:
                ok = len(names) == 2 and pe == "%s*%s" % tuple(names)
        elif not fiber_form and isinstance(tg.elts[1], ast.Name):
            p_ = tg.elts[1].id
            ok = pe in ("%s%s%s.value" % (other, sym, p_), "%s.value%s%s" % (p_, sym, other),
                        "%s%s%s" % (p_, sym, other), "%s%s%s" % (other, sym, p_))
    okc = cname is not None and norm(cm[2]) == cname
    if ok and okc:
        ctx.ok("C11.R5", f, node, "each element: the delivered coordinate with the "
               "%s of the delivered payloads" % ("sum" if sym == "+" else "product"))
    else:
        ctx.bad("C11.R5", f, node, "Fiber.%s (%s form) must pair each delivered "
                "coordinate with %s; it builds (`%s`, `%s`) per `%s`"
                % (mname, form,
                   ("the %s of the two delivered payloads" if fiber_form else
                    "other %s the element's value") % ("sum" if fiber_form and sym == "+"
                                                       else "product" if fiber_form else sym),
                   norm(cm[2]), norm(pelt), text(tg)),
                text_="Fiber.%s %s body" % (mname, form))


def _under_fiber_test(ctx, f, node):
    """True if `node` runs only when `other` is a Fiber, False if only when
    it is not, None if undetermined."""
    other = f.params[1]
    for t, pol in atomic_guards(node):
        if isinstance(t, ast.Call) and text(t.func) == "isinstance" and \
                len(t.args) == 2 and text(t.args[0]) == other and \
                text(t.args[1]) == "Fiber":
            return pol
    return None


def _check_form_body(ctx, f, mname, fiber_form, loop):
    body_src = "\n".join(text(s) for s in loop.body).replace(" ", "")
    tgt = text(loop.target).replace(" ", "")
    # the list the result's payloads are collected in: second argument of the
    # constructor call that is returned
    pl = "payloads"
    for r in pat.returns(f):
        v = r.value
        if isinstance(v, ast.Name):
            v = pat.single_def(ctx, f, v) or v
        if isinstance(v, ast.Call) and len(v.args) >= 2 and isinstance(v.args[1], ast.Name):
            pl = v.args[1].id
    body_src = body_src.replace(pl + ".append(", "payloads.append(")
    ok = True
    why = ""
    if mname == "__add__" and fiber_form:
        names = [text(e) for e in loop.target.elts[1].elts] if isinstance(
            loop.target, ast.Tuple) and isinstance(loop.target.elts[1], ast.Tuple) else []
        ok = len(names) == 3 and ("payloads.append(%s+%s)" % (names[1], names[2])) in body_src
        why = "must append the sum of the two delivered payloads"
    elif mname == "__mul__" and fiber_form:
        names = [text(e) for e in loop.target.elts[1].elts] if isinstance(
            loop.target, ast.Tuple) and isinstance(loop.target.elts[1], ast.Tuple) else []
        ok = len(names) == 2 and ("payloads.append(%s*%s)" % tuple(names)) in body_src
        why = "must append the product of the two delivered payloads"
    elif mname == "__add__":
        p = text(loop.target.elts[1])
        ok = ("payloads.append(other+%s.value)" % p) in body_src or \
            ("payloads.append(%s.value+other)" % p) in body_src or \
            ("payloads.append(%s+other)" % p) in body_src or \
            ("payloads.append(other+%s)" % p) in body_src
        why = "must append other + element value"
    elif mname == "__mul__":
        p = text(loop.target.elts[1])
        ok = any(x in body_src for x in (
            "payloads.append(other*%s.value)" % p, "payloads.append(%s.value*other)" % p,
            "payloads.append(%s*other)" % p, "payloads.append(other*%s)" % p))
        why = "must append other * element value"
    elif mname == "__iadd__" and fiber_form:
        names = [text(e) for e in loop.target.elts[1].elts]
        ok = ("%s+=%s" % tuple(names)) in body_src
        why = "must accumulate the source payload into the offered reference"
    elif mname == "__iadd__":
        p = text(loop.target.elts[1])
        ok = ("%s+=other" % p) in body_src
        why = "must add the scalar to every yielded box in place"
    elif mname == "__imul__" and fiber_form:
        names = [text(e) for e in loop.target.elts[1].elts]
        c = text(loop.target.elts[0])
        ok = ("self.getPayloadRef(%s)" % c) in body_src and \
            ("<<=%s*%s" % tuple(names)) in body_src
        why = "must replace the stored payload by the product"
    elif mname == "__imul__":
        p = text(loop.target.elts[1])
        ok = ("%s*=other" % p) in body_src
        why = "must scale every yielded box in place"
    if ok:
        ctx.ok("C11.R5", f, loop.body[0], "loop body combines the delivered "
               "payloads as the operator defines")
    else:
        ctx.bad("C11.R5", f, loop.body[0], "Fiber.%s (%s form) %s; found `%s`"
                % (mname, "fiber" if fiber_form else "scalar", why,
                   " ; ".join(text(s) for s in loop.body)[:80]),
                text_="Fiber.%s %s body" % (mname, "fiber" if fiber_form else "scalar"))


def r6_fiber_replace(ctx):
    """`f <<= g` on fibers replaces the content of f: whatever f held is
    dropped before g's elements are copied in.  The two stores that empty the
    coordinate and payload lists run unconditionally, or under no other test
    than "f is not empty"."""
    f = ctx.method("Fiber", "__ilshift__")
    me = f.params[0]
    lst_c, lst_p = "%s.coords" % me, "%s.payloads" % me
    ln = "len(%s)" % lst_c
    nonempty = {("truth", lst_c, True), ("truth", ln, True), pat.A("<", "0", ln),
                pat.A("!=", ln, "0"), pat.A("<=", "1", ln),
                ("truth", "%s.isEmpty()" % me, False)}
    clears = {}
    for n in f.own_nodes():
        if isinstance(n, ast.Assign) and text(n.targets[0]) in (lst_c, lst_p) and \
                isinstance(n.value, (ast.List, ast.Call)) and \
                text(n.value).replace(" ", "") in ("[]", "list()"):
            clears[text(n.targets[0])] = n
        elif isinstance(n, ast.Call) and isinstance(n.func, ast.Attribute) and \
                n.func.attr == "clear" and text(n.func.value) in (lst_c, lst_p):
            clears[text(n.func.value)] = enclosing_stmt(n)
    bad = None
    if set(clears) != {lst_c, lst_p}:
        bad = "it no longer empties both %s and %s" % (lst_c, lst_p)
    else:
        for k, st in clears.items():
            g = pat.catoms_of_guards(ctx, f, st)
            g = {a for a in g if not (a[0] == "truth" and ("isLazy" in a[1] or
                                                          (a[1] == "True" and a[2])))}
            if not g <= nonempty:
                bad = "%s is emptied only when %s" % (k, sorted(map(str, g - nonempty)))
        copies = [lp for lp in f.own_nodes() if isinstance(lp, ast.For)]
        g_ = cfg_of(f, assert_edges=False)
        if not bad and copies and not all(g_.can_reach(st, copies[0]) for st in clears.values()):
            bad = "the content is emptied after the copy loop"
    if bad:
        ctx.bad("C11.R5", f, f.node, "Fiber.__ilshift__: %s -- `f <<= g` must replace "
                "what f held, so elements of f at coordinates g does not have "
                "would survive" % bad, text_="Fiber.__ilshift__ replaces")
    else:
        ctx.ok("C11.R5", f, list(clears.values())[0], "`<<=` empties the destination "
               "before copying", text_="Fiber.__ilshift__ replaces")

