"""C20 -- compression codec (partial, thin): sibling agreement of the
encodeFiber implementations on forwarding the imposed shape, registry and
interface exhaustiveness for U / C / B, one key constructor.  Decoding
round trips, lookups and sizes are values and are not decided."""

import ast

from ..model import text, AnalysisError
from ..cfg import guards, enclosing_stmt
from .. import pat

EXPLANATION = (
    "Decode round trips, lookups and sizes are NOT decided.  Decided: (R1) "
    "every encodeFiber registered for U, C, B passes shape=shape in each "
    "recursive codec.encode(depth + 1, ...) call and Codec.encode passes it "
    "to encodeFiber and to its own recursion, so an imposed shape reaches "
    "every rank (sibling cross-check); (R2) descriptor_to_fmt maps U, C, B "
    "to classes that override every base method whose base body is the "
    "assert(False) placeholder and that the slice API calls (coordToHandle, "
    "getSize; getSliceMaxLength unless nextInSlice is overridden) and that "
    "define encodeFiber, encodeCoord(s) and encodeUpperPayload; (R3) "
    "producers (encodeFiber) and the output dictionary obtain the coords_* / "
    "payloads_* keys from the same Codec.get_keys; (R4) what encodeFiber of "
    "C and B returns -- the occupancy the rank above accumulates into its "
    "segment ends -- is a count of the loop iterations over the fiber's "
    "elements: a counter set to 0 before the loop and incremented by one, "
    "unconditionally, once per iteration (or the length of a list appended to "
    "in that way); (R5) getSize of each format is the sum of exactly the word "
    "counts its layout stores: len(coords) for C, ceil(len(coords) / "
    "bits_per_word) mask words for B (a recognised ceiling-division idiom), "
    "len(occupancies), len(payloads); (R10) the encodeFiber siblings share one "
    "skeleton (child to codec.encode one level down, running sum of child "
    "occupancies from 0 under isinstance(<sum>, int), stored as segment end, "
    "next_fmt remembered), every level test separates exactly the leaf rank "
    "from the ranks above, per-rank tables are read at depth / depth + 1, the "
    "bit mask is [0] * dim_len with ones at stored coordinates; (R11) "
    "Codec.encode keeps rank depth in slot depth + 1; (R12) Bitvector's "
    "setupSlice / nextInSlice agree with the base class they override and "
    "with the encoder's present-bit literal; (R13) the lookups' short paths "
    "are the lower-bound answers.")
RULE = "one obligation per format x clause"

FORMATS = {"U": "Uncompressed", "C": "CoordinateList", "B": "Bitvector"}


def run(ctx):
    ctx.guard(r1_shape)
    ctx.guard(r2_registry)
    ctx.guard(r3_keys)
    ctx.guard(r4_occupancy)
    ctx.guard(r5_sizes)
    ctx.guard(r6_bsearch)
    ctx.guard(r7_levels)
    ctx.guard(r8_mirror)
    ctx.guard(r9_state_has_writer)
    ctx.guard(r10_siblings)
    ctx.guard(r11_slots)
    ctx.guard(r12_slice_api)
    ctx.guard(r13_short_paths)


# -- R9: every piece of state a codec / format method reads has a writer -----

def _ctor_chain(prog, ci, depth=0):
    """__init__ functions that run when `ci` is instantiated: its own and the
    base initialisers it calls explicitly (or inherits)."""
    if depth > 5:
        return []
    out = []
    init = ci.methods.get("__init__")
    bases = [bc for b in ci.bases for bc in prog.class_by_name.get(b, [])]
    if init is None or init.cls is not ci:
        for bc in bases:
            out += _ctor_chain(prog, bc, depth + 1)
        return out
    out.append(init)
    for n in init.own_nodes():
        if isinstance(n, ast.Call) and isinstance(n.func, ast.Attribute) and \
                n.func.attr == "__init__":
            base = text(n.func.value)
            for bc in bases:
                if base.startswith("super(") or base == bc.name:
                    out += _ctor_chain(prog, bc, depth + 1)
    return out


def _all_bases(prog, ci, depth=0):
    out = []
    if depth > 5:
        return out
    for b in ci.bases:
        for bc in prog.class_by_name.get(b, []):
            out.append(bc)
            out += _all_bases(prog, bc, depth + 1)
    return out


def r9_state_has_writer(ctx):
    """The encoders keep their arrays, occupancies, handles and configuration
    in attributes.  An attribute read through `self` in a method of the codec
    or of a registered format must be written somewhere that can have run
    before: in the constructor chain of the class (own __init__ and the base
    initialisers it actually calls), in another method of the class or its
    bases, or by a store through another name anywhere in the codec package
    (`fiber.nnz = ...`).  A read without any writer is an AttributeError on
    first use -- a dropped `self.x = x` in a constructor, or a constructor
    that no longer chains to CompressionFormat.__init__."""
    prog = ctx.prog
    ext = set()
    for rel, m in prog.modules.items():
        if rel.startswith("codec/"):
            for n in ast.walk(m.tree):
                if isinstance(n, ast.Attribute) and isinstance(n.ctx, ast.Store) and \
                        text(n.value) != "self":
                    ext.add(n.attr)
    names = ["Codec", "CompressionFormat", "TwoHandle"] + list(FORMATS.values())
    n_ = 0
    for cname in names:
        cis = [ci for k, ci in prog.classes.items()
               if ci.name == cname and k.startswith("codec/")]
        if not cis:
            raise AnalysisError("C20.R9: class %s vanished" % cname)
        ci = cis[0]
        ctx.consulted.add(ci.module.rel)
        chain = _ctor_chain(prog, ci)
        family = [ci] + _all_bases(prog, ci)
        known = set()
        for k in family:
            known |= set(k.methods) | set(k.class_attrs)
        written = set()
        for f in chain:
            for n in f.own_nodes():
                if isinstance(n, ast.Attribute) and isinstance(n.ctx, ast.Store) and \
                        text(n.value) == "self":
                    written.add(n.attr)
        for k in family:
            for mn, f in k.methods.items():
                if mn == "__init__" or f.node is None:
                    continue
                for n in f.own_nodes():
                    if isinstance(n, ast.Attribute) and isinstance(n.ctx, ast.Store) and \
                            text(n.value) == "self":
                        written.add(n.attr)
        for mn, f in sorted(ci.methods.items()):
            if f.cls is not ci or f.node is None or not f.params or f.params[0] != "self":
                continue
            seen = set()
            for n in f.own_nodes():
                if isinstance(n, ast.Attribute) and isinstance(n.ctx, ast.Load) and \
                        text(n.value) == "self" and n.attr not in known and \
                        n.attr not in seen:
                    seen.add(n.attr)
                    n_ += 1
                    if n.attr in written or n.attr in ext:
                        ctx.ok("C20.R9", f, n, "state read has a writer",
                               text_="%s.%s reads self.%s" % (cname, mn, n.attr))
                    else:
                        ctx.bad("C20.R9", f, n,
                                "%s.%s reads self.%s, which nothing that can run "
                                "before writes: not the constructor chain of %s "
                                "(%s), no other method, no store through another "
                                "name -- AttributeError on first use"
                                % (cname, mn, n.attr, cname,
                                   ", ".join(c.key.split(":")[-1] for c in chain) or
                                   "no __init__"),
                                text_="%s.%s reads self.%s" % (cname, mn, n.attr))
    ctx.floor("C20.R9", n_, 60, "attribute reads of the codec and format classes")
    # ... and state that methods update in place belongs to the instance: a
    # mutable object created once in the class body is shared by every encoded
    # fiber of that format (two bit-vector fibers scanned in turn would move
    # one cursor)
    MUT = ("append", "extend", "insert", "pop", "remove", "clear", "update", "add",
           "setdefault", "sort", "reverse")
    for cname in names:
        ci = [c for k, c in prog.classes.items() if c.name == cname and k.startswith("codec/")][0]
        chain = _ctor_chain(prog, ci)
        rebound = set()
        for f in chain:
            for n in f.own_nodes():
                if isinstance(n, ast.Attribute) and isinstance(n.ctx, ast.Store) and \
                        text(n.value) == "self":
                    rebound.add(n.attr)
        for attr, val in sorted(ci.class_attrs.items()):
            if not isinstance(val, (ast.Call, ast.List, ast.Dict, ast.Set, ast.ListComp,
                                    ast.DictComp, ast.SetComp)):
                continue
            hits = []
            for k in [ci] + _all_bases(prog, ci):
                for mn, f in k.methods.items():
                    if f.node is None:
                        continue
                    for n in f.own_nodes():
                        tgt = None
                        if isinstance(n, (ast.Attribute, ast.Subscript)) and \
                                isinstance(n.ctx, ast.Store):
                            tgt = n.value
                        elif isinstance(n, ast.Call) and isinstance(n.func, ast.Attribute) \
                                and n.func.attr in MUT:
                            tgt = n.func.value
                        if tgt is not None and text(tgt).replace(" ", "") == "self." + attr:
                            hits.append((f, n))
            if hits and attr not in rebound:
                f, n = hits[0]
                ctx.bad("C20.R9", ci, ci.node, "%s.%s is created once in the class "
                        "body (`%s`) and updated in place by %s: every %s instance "
                        "shares it, so encoded fibers of this format do not have "
                        "their own %s (scanning two of them in turn moves one "
                        "shared object)" % (cname, attr, text(val)[:40],
                                            f.key.split(":")[-1], cname, attr),
                        text_="%s.%s shared mutable class attribute" % (cname, attr))
            else:
                ctx.ok("C20.R9", ci, ci.node, "class attribute %s is not per-fiber state "
                       "updated in place" % attr,
                       text_="%s.%s class attribute" % (cname, attr))


def _cls(ctx, name):
    for ci in ctx.prog.classes.values():
        if ci.name == name and ci.module.rel.startswith("codec/formats/"):
            ctx.consulted.add(ci.module.rel)
            return ci
    raise AnalysisError("C20: format class %s vanished" % name)


def _method(ctx, ci, name, seen=None):
    """Method resolved through the (single-inheritance) base chain."""
    seen = seen or set()
    if name in ci.methods:
        return ci.methods[name], ci
    for b in ci.bases:
        b = b.split(".")[-1]
        if b in seen:
            continue
        seen.add(b)
        for cj in ctx.prog.classes.values():
            if cj.name == b and cj.module.rel.startswith("codec/"):
                r = _method(ctx, cj, name, seen)
                if r:
                    return r
    return None


def r1_shape(ctx):
    enc = ctx.func("codec/tensor_codec.py:Codec.encode")
    ctx.require("shape" in enc.all_param_names(), "C20.R1: Codec.encode lost "
                "its shape parameter")
    for c in enc.own_nodes():
        if isinstance(c, ast.Call) and isinstance(c.func, ast.Attribute) and \
                c.func.attr in ("encodeFiber", "encode"):
            s = pat.kwarg(c, "shape")
            if s is not None and text(s) == "shape":
                ctx.ok("C20.R1", enc, c, "Codec.encode forwards shape to %s"
                       % c.func.attr)
            else:
                ctx.bad("C20.R1", enc, c, "Codec.encode calls %s without "
                        "shape=shape: the imposed shape is lost below this "
                        "rank" % c.func.attr)
    n = 0
    for d, cname in FORMATS.items():
        ci = _cls(ctx, cname)
        f = ci.methods.get("encodeFiber")
        if f is None:
            ctx.bad("C20.R1", ci, ci.node, "%s defines no encodeFiber" % cname,
                    text_="%s.encodeFiber" % cname)
            continue
        ctx.require("shape" in f.all_param_names(), "C20.R1: %s.encodeFiber has "
                    "no shape parameter" % cname)
        rec = [c for c in f.own_nodes() if isinstance(c, ast.Call)
               and isinstance(c.func, ast.Attribute) and c.func.attr == "encode"
               and text(c.func.value) == "codec"]
        if not rec:
            ctx.bad("C20.R1", f, f.node, "%s.encodeFiber never recurses into "
                    "codec.encode" % cname, text_="%s.encodeFiber recursion" % cname)
            continue
        for c in rec:
            n += 1
            s = pat.kwarg(c, "shape", 5)
            dp = c.args[0] if c.args else None
            if s is not None and text(s) == "shape" and dp is not None and \
                    text(dp).replace(" ", "") == "depth+1":
                ctx.ok("C20.R1", f, c, "%s forwards the imposed shape to the "
                       "next rank" % cname)
            else:
                ctx.bad("C20.R1", f, c,
                        "%s.encodeFiber recurses with `%s`, without "
                        "shape=shape, while its siblings forward it: ranks "
                        "below a %s rank ignore an imposed shape (e.g. "
                        "descriptor %s,U with shape [3,5] on a [2,3] tensor "
                        "produces K vectors of length 3 instead of 5)"
                        % (cname, text(c)[:70], d, d))
    ctx.floor("C20.R1", n, 3, "recursive codec.encode calls")


def _is_placeholder(f):
    body = pat.real_stmts(f.body)
    return len(body) == 1 and isinstance(body[0], ast.Assert) and \
        isinstance(body[0].test, ast.Constant) and body[0].test.value is False


def r2_registry(ctx):
    mod = ctx.module("codec/compression_types.py")
    reg = mod.globals.get("descriptor_to_fmt")
    ctx.require(isinstance(reg, ast.Dict), "C20.R2: descriptor_to_fmt vanished")
    table = {k.value: text(v) for k, v in zip(reg.keys, reg.values)
             if isinstance(k, ast.Constant)}
    base = _cls(ctx, "CompressionFormat")
    placeholders = [n for n, m in base.methods.items() if _is_placeholder(m)]
    for d, cname in FORMATS.items():
        if table.get(d) != cname:
            ctx.bad("C20.R2", mod, reg, "descriptor %r maps to %s, expected %s"
                    % (d, table.get(d), cname), text_="descriptor %s" % d)
            continue
        ci = _cls(ctx, cname)
        need = ["coordToHandle", "getSize"]
        if "nextInSlice" not in ci.methods:
            need.append("getSliceMaxLength")
        missing = []
        for m in need:
            r = _method(ctx, ci, m)
            if r is None or (r[1] is base and (m in placeholders or m == "getSliceMaxLength")):
                missing.append(m)
        for m in ("encodeFiber",):
            if m not in ci.methods:
                missing.append(m)
        if missing:
            ctx.bad("C20.R2", ci, ci.node, "format %s (%s) does not implement "
                    "%s: the base class placeholder (assert False / None) is "
                    "what the slice API would call" % (d, cname, missing),
                    text_="%s interface" % cname)
        else:
            ctx.ok("C20.R2", ci, ci.node, "%s overrides %s and defines "
                   "encodeFiber" % (cname, need), text_="%s interface" % cname)
        for m in ("encodeCoord", "encodeUpperPayload"):
            r = _method(ctx, ci, m)
            if r is None:
                ctx.bad("C20.R2", ci, ci.node, "%s has no %s" % (cname, m),
                        text_="%s.%s" % (cname, m))
            else:
                ctx.ok("C20.R2", ci, ci.node, "%s provides %s" % (cname, m),
                       text_="%s.%s" % (cname, m))


def r3_keys(ctx):
    for d, cname in FORMATS.items():
        ci = _cls(ctx, cname)
        f = ci.methods.get("encodeFiber")
        if f is None:
            continue
        ks = [n for n in f.own_nodes() if isinstance(n, ast.Assign)
              and isinstance(n.value, ast.Call)
              and text(n.value.func) in ("codec.get_keys", "Codec.get_keys")
              and [text(a) for a in n.value.args] == ["ranks", "depth"]]
        lits = [n for n in f.own_nodes() if isinstance(n, (ast.Constant, ast.JoinedStr))
                and isinstance(getattr(n, "value", None), str)
                and n.value.startswith(("coords_", "payloads_"))]
        if len(ks) == 1 and not lits:
            ctx.ok("C20.R3", f, ks[0], "%s takes its output keys from "
                   "Codec.get_keys(ranks, depth)" % cname)
        else:
            ctx.bad("C20.R3", f, f.node, "%s.encodeFiber does not obtain its "
                    "coords_/payloads_ keys from Codec.get_keys(ranks, depth) "
                    "(or builds them by hand): producer and output dictionary "
                    "can disagree" % cname, text_="%s keys" % cname)
    g = ctx.func("codec/tensor_codec.py:Codec.get_output_dict")
    ks = [n for n in g.own_nodes() if isinstance(n, ast.Assign)
          and isinstance(n.value, ast.Call)
          and text(n.value.func) in ("Codec.get_keys", "self.get_keys")]
    if ks:
        ctx.ok("C20.R3", g, ks[0], "the output dictionary is keyed by the same "
               "Codec.get_keys")
    else:
        ctx.bad("C20.R3", g, g.node, "get_output_dict no longer keys the output "
                "by Codec.get_keys", text_="get_output_dict keys")


# -- R4: the occupancy handed to the rank above counts the encoded elements ----

def _resolve_ret(ctx, f, e, depth=0):
    if depth > 4:
        return e
    if isinstance(e, ast.Name):
        v = pat.single_def(ctx, f, e)
        return _resolve_ret(ctx, f, v, depth + 1) if v is not None else e
    if isinstance(e, ast.Attribute) and text(e.value) == "self":
        st = [n for n in f.own_nodes() if isinstance(n, ast.Assign)
              and len(n.targets) == 1 and text(n.targets[0]) == text(e)]
        if len(st) == 1:
            return _resolve_ret(ctx, f, st[0].value, depth + 1)
    return e


def r4_occupancy(ctx):
    for d in ("C", "B"):
        cname = FORMATS[d]
        ci = _cls(ctx, cname)
        f = ci.methods.get("encodeFiber")
        if f is None:
            continue
        loops = [n for n in f.body if isinstance(n, ast.For)
                 and text(n.iter) == f.all_param_names()[1]]
        ctx.require(len(loops) == 1, "C20.R4: %s.encodeFiber: element loop over "
                    "the fiber parameter not found" % cname)
        loop = loops[0]
        jumps = [n for n in ast.walk(loop) if isinstance(n, (ast.Continue, ast.Break))]
        rets = pat.returns(f)
        ctx.require(rets, "C20.R4: %s.encodeFiber has no return" % cname)
        for r in rets:
            v = _resolve_ret(ctx, f, r.value)
            ok, why = False, ""
            if isinstance(v, ast.Name):
                asg = [n for n in f.own_nodes()
                       if (isinstance(n, ast.Assign) and len(n.targets) == 1
                           and text(n.targets[0]) == v.id)
                       or (isinstance(n, ast.AugAssign) and text(n.target) == v.id)]
                init = [n for n in asg if isinstance(n, ast.Assign) and n in f.body
                        and text(n.value) == "0" and n.lineno < loop.lineno]
                inc = [n for n in asg if n not in init]
                def is_inc(n):
                    if isinstance(n, ast.AugAssign):
                        return isinstance(n.op, ast.Add) and text(n.value) == "1"
                    t = text(n.value).replace(" ", "")
                    return t in ("%s+1" % v.id, "1+%s" % v.id)
                ok = len(init) == 1 and len(inc) == 1 and inc[0] in loop.body \
                    and is_inc(inc[0]) and not jumps
                why = "counter `%s`: %d initialisation(s) to 0 before the loop, " \
                    "%d other assignment(s)%s" % (
                        v.id, len(init), len(inc),
                        "" if not inc or inc[0] in loop.body else
                        " (not at the top level of the element loop)")
            elif isinstance(v, ast.Call) and text(v.func) == "len" and len(v.args) == 1:
                L = text(v.args[0])
                mut = [c for c in f.own_nodes() if isinstance(c, ast.Call)
                       and isinstance(c.func, ast.Attribute)
                       and text(c.func.value) == L]
                app = [c for c in mut if c.func.attr == "append"
                       and enclosing_stmt(c) in loop.body]
                ok = len(mut) == 1 and len(app) == 1 and not jumps
                why = "`len(%s)`: %d mutation(s) of %s, %d unconditional " \
                    "append(s) per element" % (L, len(mut), L, len(app))
            else:
                why = "`%s` is neither a per-element counter nor the length " \
                    "of a per-element list" % text(r.value)
            if ok:
                ctx.ok("C20.R4", f, r, "%s returns the number of elements it "
                       "encoded (%s)" % (cname, why), text_="%s occupancy" % cname)
            else:
                ctx.bad("C20.R4", f, r, "%s.encodeFiber returns an occupancy "
                        "that is not one per encoded element (%s): the rank "
                        "above accumulates it into its segment ends, so the "
                        "arrays no longer decode by layout" % (cname, why),
                        text_="%s occupancy" % cname)


# -- R5: reported size = words the layout stores ------------------------------

def _ceil_div(e):
    """(numerator text, denominator text) if `e` is a ceiling division:
    math.ceil(a / b), -(-a // b), (a + b - 1) // b."""
    nt = lambda x: text(x).replace(" ", "")
    if isinstance(e, ast.Call) and text(e.func) in ("math.ceil", "ceil") and \
            len(e.args) == 1 and isinstance(e.args[0], ast.BinOp) and \
            isinstance(e.args[0].op, ast.Div):
        return nt(e.args[0].left), nt(e.args[0].right)
    if isinstance(e, ast.UnaryOp) and isinstance(e.op, ast.USub) and \
            isinstance(e.operand, ast.BinOp) and isinstance(e.operand.op, ast.FloorDiv) \
            and isinstance(e.operand.left, ast.UnaryOp) and \
            isinstance(e.operand.left.op, ast.USub):
        return nt(e.operand.left.operand), nt(e.operand.right)
    if isinstance(e, ast.BinOp) and isinstance(e.op, ast.FloorDiv) and \
            isinstance(e.left, ast.BinOp) and isinstance(e.left.op, ast.Sub) and \
            nt(e.left.right) == "1" and isinstance(e.left.left, ast.BinOp) and \
            isinstance(e.left.left.op, ast.Add):
        a, b = nt(e.left.left.left), nt(e.left.left.right)
        d = nt(e.right)
        if b == d:
            return a, d
        if a == d:
            return b, d
    return None


def _terms(ctx, f, e, depth=0):
    if isinstance(e, ast.BinOp) and isinstance(e.op, ast.Add):
        return _terms(ctx, f, e.left, depth) + _terms(ctx, f, e.right, depth)
    if isinstance(e, ast.IfExp):
        # a summand present in some cases only: `n if .. else 0`
        return _terms(ctx, f, e.body, depth) + _terms(ctx, f, e.orelse, depth)
    if isinstance(e, ast.Constant) and e.value == 0:
        return []
    if isinstance(e, ast.Name) and depth < 3 and ctx is not None:
        v = pat.single_def(ctx, f, e)
        if v is not None:
            return _terms(ctx, f, v, depth + 1)
    return [e]


def r5_sizes(ctx):
    want = {"U": {"len(self.occupancies)", "len(self.payloads)"},
            "C": {"len(self.coords)", "len(self.occupancies)", "len(self.payloads)"},
            "B": {"CEIL(len(self.coords),self.bits_per_word)",
                  "len(self.occupancies)", "len(self.payloads)"}}
    for d, cname in FORMATS.items():
        ci = _cls(ctx, cname)
        f = ci.methods.get("getSize")
        if f is None:
            continue
        rets = pat.returns(f)
        # the returned sum along every path (sa/symcase.py): the layout's
        # arrays are the union of the summands -- an accumulator with
        # conditional `+=`, early returns or one expression alike
        from .. import symcase
        outs = symcase.Evaluator(ctx, lambda t: None).run(f)
        ctx.require(rets and outs and not any(o.opaque or not o.returned or o.ret is None
                                              for o in outs
                                              if not isinstance(o.ret_stmt, ast.Raise)),
                    "C20.R5: %s.getSize cannot be followed to its returned sum" % cname)
        terms = []
        for o in outs:
            if isinstance(o.ret_stmt, ast.Raise):
                continue
            terms += _terms(None, None, o.ret)
        got = set()
        odd = []
        for t in terms:
            cd = _ceil_div(t) if isinstance(t, ast.expr) else None
            if cd:
                got.add("CEIL(%s,%s)" % cd)
            else:
                tt = text(t).replace(" ", "")
                got.add(tt)
                if tt not in want[d]:
                    odd.append(text(t))
        if got == want[d]:
            ctx.ok("C20.R5", f, rets[0], "%s.getSize sums %s" % (cname, sorted(got)),
                   text_="%s size terms" % cname)
        else:
            ctx.bad("C20.R5", f, rets[0], "%s.getSize sums %s; the %s layout "
                    "stores %s%s" % (cname, sorted(got), d, sorted(want[d]),
                                     " -- `%s` is not the number of words of that "
                                     "array (mask words are the ceiling of bits / "
                                     "bits_per_word: an exact multiple must not "
                                     "count an extra word)" % odd[0] if odd else ""),
                    text_="%s size terms" % cname)


# -- R6: closed-interval binary search of the coordinate-list lookup -------------

def r6_bsearch(ctx):
    """coordToHandle searches [lo, hi] with hi = len - 1 and narrows with
    lo = mid + 1 / hi = mid - 1: a closed interval, which is exhausted only
    when lo > hi -- the loop must run while lo <= hi.  (With the half-open
    form hi = len, hi = mid the test would be lo < hi.)"""
    ci = _cls(ctx, "CoordinateList")
    f = ci.methods.get("coordToHandle")
    ctx.require(f is not None, "C20.R6: CoordinateList.coordToHandle vanished")
    loops = [w for w in f.own_nodes() if isinstance(w, ast.While)
             and isinstance(w.test, ast.Compare) and len(w.test.ops) == 1
             and isinstance(w.test.left, ast.Name)
             and isinstance(w.test.comparators[0], ast.Name)]
    ctx.require(loops, "C20.R6: search loop of coordToHandle not found")
    for w in loops:
        a, b = w.test.left.id, w.test.comparators[0].id
        op = type(w.test.ops[0])
        # canonical form has no > / >=: `a < b` or `a <= b`
        lo, hi = a, b
        upd = {}
        for st in ast.walk(w):
            if isinstance(st, ast.Assign) and isinstance(st.targets[0], ast.Name) \
                    and st.targets[0].id in (lo, hi):
                upd.setdefault(st.targets[0].id, []).append(text(st.value).replace(" ", ""))
        mids = {u.split("+")[0].split("-")[0] for us in upd.values() for u in us}
        if len(mids) != 1 or not upd.get(lo) or not upd.get(hi):
            raise AnalysisError("C20.R6: cannot read the narrowing steps of the "
                                "search loop (%s)" % upd)
        mid = mids.pop()
        closed_hi = all(u == mid + "-1" for u in upd[hi])
        open_hi = all(u == mid for u in upd[hi])
        step_lo = all(u == mid + "+1" for u in upd[lo])
        inits = [pat.inline(ctx, f, n.value).replace(" ", "") for n in f.own_nodes()
                 if isinstance(n, ast.Assign) and text(n.targets[0]) == hi
                 and not any(n is x for x in ast.walk(w))]
        init_closed = any(i.endswith("-1") for i in inits)
        if step_lo and closed_hi and init_closed:
            want = ast.LtE
        elif step_lo and open_hi and not init_closed:
            want = ast.Lt
        else:
            raise AnalysisError("C20.R6: unrecognised binary-search shape "
                                "(hi init %s, updates %s)" % (inits, upd))
        if op is want:
            ctx.ok("C20.R6", f, w, "search interval and loop test agree (%s)"
                   % ("closed, lo <= hi" if want is ast.LtE else "half-open, lo < hi"),
                   text_="coordToHandle search loop")
        else:
            ctx.bad("C20.R6", f, w, "coordToHandle narrows a closed interval "
                    "(hi = len - 1, hi = mid - 1, lo = mid + 1) but loops while "
                    "`%s`: the last slot is never probed, so the lookup can "
                    "return the handle after the first stored coordinate not "
                    "below the query" % text(w.test), text_="coordToHandle search loop")


def r7_levels(ctx):
    n = 0
    for key in ("codec/tensor_codec.py:Codec.encode", "codec/tensor_codec.py:Codec.get_occupancies"):
        n += pat.check_unit_recursion(ctx, "C20.R1", ctx.func(key), "rank-by-rank encoding")
    ctx.floor("C20.R1", n, 2, "recursion steps of the codec")


# -- R8: the flat arrays and the encoded fiber object receive the same words -----------

def r8_mirror(ctx):
    """encodeFiber writes every stored word twice: into the per-rank output
    arrays (`output[coords_key]`, `output[payloads_key]`) and into the
    encoded fiber object the handle API scans (`self.coords`,
    `self.payloads`, `self.occupancies`).  Each write to an output array must
    have, in the same block, a mirror write of the same value with the same
    list method on the object (and the other way round for coords /
    occupancies / leaf payloads), otherwise the arrays and the object scan
    disagree."""
    n = 0
    for d, cname in FORMATS.items():
        ci = _cls(ctx, cname)
        f = ci.methods.get("encodeFiber")
        if f is None:
            continue
        outp = f.all_param_names()[6] if len(f.all_param_names()) > 6 else "output"
        child = set()
        for a in f.own_nodes():
            if isinstance(a, ast.Assign) and isinstance(a.targets[0], ast.Tuple) and \
                    isinstance(a.value, ast.Call) and text(a.value.func).endswith(".encode"):
                child.add(text(a.targets[0].elts[0]))
        writes = []
        for c in f.own_nodes():
            if isinstance(c, ast.Call) and isinstance(c.func, ast.Attribute) and \
                    c.func.attr in ("append", "extend") and len(c.args) == 1:
                tgt = c.func.value
                if isinstance(tgt, ast.Subscript) and text(tgt.value) == outp:
                    writes.append(("out", c))
                elif isinstance(tgt, ast.Attribute) and text(tgt.value) == "self" and \
                        tgt.attr in ("coords", "payloads", "occupancies"):
                    writes.append(("obj", c))
        from ..cfg import parent_block
        for side, c in writes:
            arg = text(c.args[0]).replace(" ", "")
            if side == "obj" and arg in child:
                continue        # the child fiber object: no flat counterpart
            if side == "out" and arg.startswith("self."):
                continue        # the object's own array flushed at the end
            blk = parent_block(enclosing_stmt(c))[0]
            other = "obj" if side == "out" else "out"
            mirror = [c2 for s2, c2 in writes if s2 == other and
                      enclosing_stmt(c2) in blk and
                      text(c2.args[0]).replace(" ", "") == arg and
                      c2.func.attr == c.func.attr]
            n += 1
            if mirror:
                ctx.ok("C20.R8", f, c, "mirrored by `%s`" % text(mirror[0])[:50])
            else:
                ctx.bad("C20.R8", f, c, "%s.encodeFiber writes `%s` but the %s "
                        "does not receive the same value with the same list "
                        "operation in this block: the flat arrays and the "
                        "handle scan of the encoded fiber deliver different "
                        "words" % (cname, text(c)[:60],
                                   "encoded fiber object" if side == "out"
                                   else "output array"))
    ctx.floor("C20.R8", n, 12, "mirrored array writes in the encoders")


# -- R10: the three encodeFiber siblings follow one segment-end protocol ------------

def _level_form(e, dname, rname):
    """k * (depth - len(ranks)) + c as (k, c) for an integer expression over
    `depth`, `len(ranks)` and constants; None otherwise."""
    if isinstance(e, ast.Constant) and isinstance(e.value, int) and \
            not isinstance(e.value, bool):
        return (0, 0, e.value)
    if isinstance(e, ast.Name) and e.id == dname:
        return (1, 0, 0)
    if isinstance(e, ast.Call) and text(e.func) == "len" and len(e.args) == 1 and \
            text(e.args[0]) == rname:
        return (0, 1, 0)
    if isinstance(e, ast.BinOp) and isinstance(e.op, (ast.Add, ast.Sub)):
        a, b = _level_form(e.left, dname, rname), _level_form(e.right, dname, rname)
        if a is None or b is None:
            return None
        sg = 1 if isinstance(e.op, ast.Add) else -1
        return tuple(x + sg * y for x, y in zip(a, b))
    return None


def _level_test(cmp_, dname, rname):
    """Truth of a comparison of the level with the number of ranks for
    depth - len(ranks) = -1 (the leaf rank) and -2, -3, -6 (ranks above it):
    (leaf value, [values above]) or None when it is not such a comparison."""
    if not (isinstance(cmp_, ast.Compare) and len(cmp_.ops) == 1):
        return None
    a = _level_form(cmp_.left, dname, rname)
    b = _level_form(cmp_.comparators[0], dname, rname)
    if a is None or b is None:
        return None
    d, l, c = (x - y for x, y in zip(a, b))
    if d == 0 or d != -l:
        return None
    import operator as _op
    fn = {ast.Lt: _op.lt, ast.LtE: _op.le, ast.Gt: _op.gt, ast.GtE: _op.ge,
          ast.Eq: _op.eq, ast.NotEq: _op.ne}.get(type(cmp_.ops[0]))
    if fn is None:
        return None
    val = lambda e_: fn(d * e_ + c, 0)
    return val(-1), [val(-2), val(-3), val(-6)]


def r10_siblings(ctx):
    """U, C and B encode a fiber with the same skeleton: they tell the leaf
    rank from the ranks above it, hand each child to codec.encode one level
    down, and keep the running sum of the children's occupancies, which is
    what the rank stores as segment ends.  Every sibling must have every
    element of that skeleton (a cross-check of implementations of one
    interface), and each test of the level must split the levels at the leaf
    rank and nowhere else."""
    n_lvl = 0
    have = {}
    for d, cname in FORMATS.items():
        ci = _cls(ctx, cname)
        f = ci.methods.get("encodeFiber")
        if f is None:
            continue
        ps = f.all_param_names()
        dname = "depth" if "depth" in ps else None
        rname = "ranks" if "ranks" in ps else None
        ctx.require(dname and rname, "C20.R10: %s.encodeFiber lost its depth / ranks "
                    "parameters" % cname)
        # (a) level tests
        for c in f.own_nodes():
            r = _level_test(c, dname, rname)
            if r is None:
                continue
            n_lvl += 1
            leaf, above = r
            if len(set(above)) == 1 and above[0] != leaf:
                ctx.ok("C20.R10", f, c, "level test separates the leaf rank from the "
                       "ranks above it")
            else:
                ctx.bad("C20.R10", f, c, "%s.encodeFiber tests the level with `%s`, "
                        "which is %s at the leaf rank and %s at the ranks above it: "
                        "the other level tests of the encoders split exactly at "
                        "the leaf (depth == len(ranks) - 1); with this one a rank "
                        "is encoded as the wrong kind (a leaf recursed into, or "
                        "an inner rank stored as payload values)"
                        % (cname, text(c), leaf, above))
        # (b) the skeleton
        got = {}
        child = [a for a in f.own_nodes() if isinstance(a, ast.Assign)
                 and isinstance(a.targets[0], ast.Tuple) and len(a.targets[0].elts) == 2
                 and isinstance(a.value, ast.Call) and text(a.value.func) == "codec.encode"]
        if len(child) == 1:
            occ = text(child[0].targets[0].elts[1])
            got["child"] = child[0]
            loop = [a for a in _anc(child[0]) if isinstance(a, (ast.For, ast.While))]
            # the int case of the update: `if isinstance(S, int): S = S + occ`,
            # or a helper that makes that split, read under `S is an int`
            import re as _re
            from .. import symcase

            def is_int(t):
                m_ = _re.match(r"^isinstance\((\w+),int\)$", text(t).replace(" ", ""))
                return True if m_ else None
            for b in (loop[-1].body if loop else []):
                for a_ in _walk([b]):
                    if isinstance(a_, ast.If) and is_int(a_.test):
                        acc = a_.test.args[0].id
                        for b2 in a_.body:
                            v = None
                            if isinstance(b2, ast.AugAssign) and text(b2.target) == acc and \
                                    isinstance(b2.op, ast.Add):
                                v = [acc, text(b2.value)]
                            elif isinstance(b2, ast.Assign) and text(b2.targets[0]) == acc and \
                                    isinstance(b2.value, ast.BinOp) and \
                                    isinstance(b2.value.op, ast.Add):
                                v = [text(b2.value.left), text(b2.value.right)]
                            if v is not None and sorted(v) == sorted([acc, occ]):
                                got["sum"], got["acc"] = b2, acc
                    elif isinstance(a_, ast.Assign) and isinstance(a_.targets[0], ast.Name) \
                            and isinstance(a_.value, ast.Call) and \
                            occ in [text(x) for x in a_.value.args]:
                        acc = a_.targets[0].id
                        try:
                            res = symcase.Evaluator(ctx, is_int).inline_call(f, a_.value, {})
                        except Exception:
                            res = None
                        if res is None and isinstance(a_.value.func, ast.Attribute) and \
                                text(a_.value.func.value) == "self" and not a_.value.keywords:
                            # a method inherited from the format base class
                            hm = _method(ctx, ci, a_.value.func.attr)
                            h = hm[0] if hm else None
                            if h is not None and h.node is not None:
                                ps = list(h.params)
                                if h.kind == "method":
                                    ps = ps[1:]
                                if len(ps) == len(a_.value.args):
                                    outs = symcase.Evaluator(ctx, is_int).walk(
                                        h, h.body, dict(zip(ps, a_.value.args)))
                                    terms = {symcase.norm(o.ret) for o in outs
                                             if o.returned and not o.opaque and not o.stores}
                                    if len(terms) == 1 and len(outs) == 1:
                                        res = outs[0].ret
                        if isinstance(res, ast.BinOp) and isinstance(res.op, ast.Add) and \
                                sorted([text(res.left), text(res.right)]) == sorted([acc, occ]):
                            got["sum"], got["acc"] = a_, acc
            acc = got.get("acc")
            if acc and loop:
                inits = [a for a in f.own_nodes() if isinstance(a, ast.Assign)
                         and text(a.targets[0]) == acc and not is_within_(a, loop[-1])]
                okinit = bool(inits) and all(
                    (isinstance(a.value, ast.Constant) and a.value.value == 0 and
                     not isinstance(a.value.value, bool)) or
                    text(a.value).replace(" ", "") in ("[0,0]", "codec.get_start_occ(depth+1)")
                    for a in inits)
                if okinit:
                    got["init"] = inits[0]
                stored = [c for c in f.own_nodes() if isinstance(c, ast.Call)
                          and isinstance(c.func, ast.Attribute) and c.func.attr == "append"
                          and text(c.func.value) == "self.occupancies"
                          and len(c.args) == 1 and text(c.args[0]) == acc]
                if stored:
                    got["stored"] = stored[0]
        nf = [a for a in f.own_nodes() if isinstance(a, ast.Assign)
              and text(a.targets[0]) == "self.next_fmt"
              and pat.inline(ctx, f, a.value).replace(" ", "") == "codec.fmts[depth+1]"]
        if nf:
            got["next_fmt"] = nf[0]
        have[cname] = (f, got)
    ctx.floor("C20.R10", n_lvl, 3, "level tests of the encoders")
    parts = [("child", "hands each child to codec.encode and takes (fiber, occupancy) back"),
             ("sum", "adds the child's occupancy to the running sum when that is an int "
                     "(`isinstance(<sum>, int)`)"),
             ("init", "starts the running sum at 0 (or the codec's start value)"),
             ("stored", "stores the running sum as the segment end"),
             ("next_fmt", "remembers the format of the rank below (self.next_fmt = "
                          "codec.fmts[depth + 1])")]
    for key, what in parts:
        holders = [c for c, (f, got) in have.items() if key in got]
        for cname, (f, got) in have.items():
            if key in got:
                ctx.ok("C20.R10", f, got[key], "%s %s" % (cname, what),
                       text_="%s.encodeFiber %s" % (cname, key))
            else:
                ctx.bad("C20.R10", f, f.node, "%s.encodeFiber no longer %s%s: the "
                        "segment ends / sizes this rank stores disagree with what "
                        "the ranks below it contain"
                        % (cname, what, (", as %s still do" % " and ".join(holders))
                           if holders else ""),
                        text_="%s.encodeFiber %s" % (cname, key))
    # (d) the codec's per-rank tables are consulted for this rank or the one
    # below it, nothing else
    n_tab = 0
    for cname, (f, got) in have.items():
        for s_ in f.own_nodes():
            if isinstance(s_, ast.Subscript) and text(s_.value) in (
                    "codec.fmts", "codec.format_descriptor"):
                n_tab += 1
                ix = text(s_.slice).replace(" ", "")
                if ix in ("depth", "depth+1"):
                    ctx.ok("C20.R10", f, s_, "per-rank table read at %s" % ix)
                else:
                    ctx.bad("C20.R10", f, s_, "%s.encodeFiber reads `%s`: every other "
                            "read of the codec's per-rank tables in the encoders is "
                            "at `depth` or `depth + 1` (this rank, the rank below); "
                            "this one consults another rank's format (or runs off "
                            "the end of the descriptor)" % (cname, text(s_)))
    ctx.floor("C20.R10", n_tab, 3, "per-rank table reads in the encoders")
    # (c) the bit mask: dim_len zero bits, a one at every stored coordinate
    f = _cls(ctx, "Bitvector").methods.get("encodeFiber")
    if f is not None:
        zero = [a for a in f.own_nodes() if isinstance(a, ast.Assign)
                and text(a.targets[0]) == "self.coords"
                and text(a.value).replace(" ", "") in ("[0]*dim_len", "dim_len*[0]")]
        ones = []
        for lp in f.own_nodes():
            if isinstance(lp, ast.For) and isinstance(lp.target, ast.Tuple) and lp.target.elts:
                cv = text(lp.target.elts[0])
                for a in _walk(lp.body):
                    if isinstance(a, ast.Assign) and a in lp.body and \
                            text(a.targets[0]).replace(" ", "") == "self.coords[%s]" % cv \
                            and isinstance(a.value, ast.Constant) and a.value.value == 1:
                        ones.append(a)
        if zero and ones:
            ctx.ok("C20.R10", f, zero[0], "mask = dim_len zero bits, set to 1 at "
                   "each stored coordinate", text_="Bitvector mask")
        else:
            ctx.bad("C20.R10", f, f.node, "Bitvector.encodeFiber no longer builds the "
                    "mask as `[0] * dim_len` with `self.coords[<coordinate>] = 1` for "
                    "every stored element (unconditionally, in the loop over the "
                    "fiber): the bits do not mark the stored coordinates",
                    text_="Bitvector mask")


def is_within_(node, container):
    from ..cfg import is_within
    return is_within(node, container)


def _anc(n):
    from ..cfg import ancestors
    return list(ancestors(n))


# -- R11: Codec.encode keeps rank `depth` in slot depth + 1 ---------------------------

def r11_slots(ctx):
    """output_tensor[0] is the root; the encoded fibers of rank `depth` are
    collected in output_tensor[depth + 1] (names, running prefix sums and
    the fiber list all index it).  Every subscript of output_tensor in
    Codec.encode is one of the two; the format consulted is fmts[depth]
    (fmts[0] for the root, which looks one rank down); the root stores one
    payload entry."""
    f = ctx.func("codec/tensor_codec.py:Codec.encode")
    ot = "output_tensor"
    ctx.require(ot in f.all_param_names() and "depth" in f.all_param_names(),
                "C20.R11: Codec.encode lost its output_tensor / depth parameters")
    root_atom = pat.A("==", "depth", "-1")

    def at_root(node):
        return root_atom in pat.catoms_of_guards(ctx, f, enclosing_stmt(node))
    n = 0
    for s_ in f.own_nodes():
        if isinstance(s_, ast.Subscript) and text(s_.value) in (ot, "self.fmts"):
            n += 1
            ix = text(s_.slice).replace(" ", "")
            lf = _level_form(s_.slice, "depth", "\0")      # a * depth + c
            root = at_root(s_)
            if text(s_.value) == ot:
                want_lf = (1, 0, 1)
                want = "0 for the root, depth + 1 for a rank"
            else:
                want_lf = (1, 0, 0)
                want = "fmts[0] for the root, fmts[depth] for a rank"
            # at the root depth is -1: slot 0, however it is spelled
            good = lf is not None and lf[1] == 0 and (
                (root and -lf[0] + lf[2] == 0) or (not root and lf == want_lf))
            if good:
                ctx.ok("C20.R11", f, s_, "slot %s" % ix)
            else:
                ctx.bad("C20.R11", f, s_, "Codec.encode indexes `%s` where every "
                        "other access uses %s: names, prefix sums and the fiber "
                        "list of a rank then refer to different ranks"
                        % (text(s_), want))
    ctx.floor("C20.R11", n, 4, "rank slots indexed in Codec.encode")
    stores = [c for c in f.own_nodes() if isinstance(c, ast.Call)
              and isinstance(c.func, ast.Attribute) and isinstance(c.func.value, ast.Subscript)
              and text(c.func.value.value) == "output" and at_root(c)]
    if len(stores) == 1 and stores[0].func.attr == "append" and len(stores[0].args) == 1:
        ctx.ok("C20.R11", f, stores[0], "the root stores one payload entry")
    else:
        ctx.bad("C20.R11", f, stores[0] if stores else f.node, "the root case of "
                "Codec.encode no longer appends exactly one entry (the size of the "
                "first rank) to the root payload array", text_="root payload entry")



def _walk(stmts):
    from ..cfg import walk_own
    return walk_own(stmts)


# -- R12: the scan API of Bitvector agrees with the base class and the encoder ----------

def r12_slice_api(ctx):
    """Bitvector overrides setupSlice / nextInSlice of CompressionFormat to
    carry a second handle.  What the two versions share must agree (a
    cross-check of an override with what it overrides, and of a reader with
    its writer): the override of setupSlice runs the base set-up with its own
    arguments; both nextInSlice versions stop on the same slice-limit test
    and count a returned handle once; the scan stops at the literal the
    encoder stores for a present coordinate; the (coords, payloads) handle
    pair is built in the constructor's parameter order."""
    bv = _cls(ctx, "Bitvector")
    base = [ci for k, ci in ctx.prog.classes.items()
            if ci.name == "CompressionFormat" and k.startswith("codec/")]
    ctx.require(base, "C20.R12: CompressionFormat vanished")
    base = base[0]
    ctx.consulted.add(base.module.rel)
    # (a) chaining
    ss = bv.methods.get("setupSlice")
    if ss is not None and ss.cls is bv:
        want = [p_ for p_ in ss.params[1:]]
        chain = [c for c in ss.own_nodes() if isinstance(c, ast.Call)
                 and isinstance(c.func, ast.Attribute) and c.func.attr == "setupSlice"
                 and (text(c.func.value).startswith("super(") or
                      text(c.func.value) == "CompressionFormat")]
        good = False
        for c in chain:
            args = [text(a) for a in c.args]
            if text(c.func.value) == "CompressionFormat":
                args = args[1:]
            kw = {k.arg: text(k.value) for k in c.keywords}
            if args == want[:len(args)] and all(kw.get(p_, p_) == p_ for p_ in want[len(args):]) \
                    and len(args) + len(kw) == len(want):
                good = True
        if good:
            ctx.ok("C20.R12", ss, chain[0], "Bitvector.setupSlice runs the base set-up "
                   "with its own arguments")
        else:
            ctx.bad("C20.R12", ss, ss.node, "Bitvector.setupSlice no longer calls the "
                    "base class's setupSlice(base, bound, max_num) with its own "
                    "arguments: the counters and limits nextInSlice tests keep the "
                    "values of the previous scan", text_="Bitvector.setupSlice chaining")
    # (b) the slice limit test and the count of returned handles
    nb, nv = base.methods.get("nextInSlice"), bv.methods.get("nextInSlice")
    ctx.require(nb is not None and nv is not None, "C20.R12: nextInSlice vanished")

    def limit_clauses(f):
        out = set()
        for r in pat.returns(f):
            if r.value is None or text(r.value) == "None":
                # the test that decides this exit (not what earlier exits left)
                from ..cfg import parent_block as _pb
                pb = _pb(r)
                if pb is None or not isinstance(pb[2], ast.If):
                    continue
                for cl in pat.cdnf(ctx, f, _expand_self_calls(ctx, f, pb[2].test),
                                   pb[3] == "body") or []:
                    own = frozenset(a for a in cl if any(
                        isinstance(x, str) and ("num_to_ret" in x or "num_ret_so_far" in x)
                        for x in a[1:]))
                    if own:
                        out.add(own)
        return out
    lb, lv = limit_clauses(nb), limit_clauses(nv)
    if lb and lb == lv:
        ctx.ok("C20.R12", nv, nv.node, "same slice-limit test as the base class",
               text_="Bitvector.nextInSlice limit")
    else:
        ctx.bad("C20.R12", nv, nv.node, "Bitvector.nextInSlice stops a scan when %s, "
                "CompressionFormat.nextInSlice when %s: the same max_num gives "
                "scans of different length (or a comparison with None)"
                % (sorted(map(sorted, lv)), sorted(map(sorted, lb))),
                text_="Bitvector.nextInSlice limit")
    for f in (nb, nv):
        incs = [a for a in f.own_nodes() if isinstance(a, ast.AugAssign)
                and text(a.target) == "self.num_ret_so_far"]
        if len(incs) == 1 and isinstance(incs[0].op, ast.Add) and text(incs[0].value) == "1":
            ctx.ok("C20.R12", f, incs[0], "a returned handle is counted once",
                   text_="%s.nextInSlice count" % f.cls.name)
        else:
            ctx.bad("C20.R12", f, f.node, "%s.nextInSlice does not count a returned "
                    "handle exactly once (num_ret_so_far += 1)" % f.cls.name,
                    text_="%s.nextInSlice count" % f.cls.name)
    # (c) present-bit literal: writer (encodeFiber) and reader (scan loop)
    enc = bv.methods.get("encodeFiber")
    wrote = {a.value.value for a in (enc.own_nodes() if enc else [])
             if isinstance(a, ast.Assign) and isinstance(a.targets[0], ast.Subscript)
             and text(a.targets[0].value) == "self.coords"
             and isinstance(a.value, ast.Constant)}
    read = []
    for w in nv.own_nodes():
        if isinstance(w, (ast.While, ast.If)):
            for t, pol in _flat_conj(w.test):
                p_ = pat.cmp_raw(t, pol)
                if p_ and p_[1].startswith("self.coords[") and p_[0] in ("!=", "=="):
                    # `while bit != W` keeps scanning; `if bit == W` is a find
                    want_op = "!=" if isinstance(w, ast.While) else "=="
                    read.append(("!=" if p_[0] == want_op else "==", p_[2], w))
    if len(wrote) == 1 and read and all(op == "!=" and lit == repr(next(iter(wrote)))
                                        for op, lit, _w in read):
        ctx.ok("C20.R12", nv, read[0][2], "the scan skips while the bit is not the "
               "literal the encoder stores (%r)" % next(iter(wrote)),
               text_="Bitvector present bit")
    else:
        ctx.bad("C20.R12", nv, read[0][2] if read else nv.node, "the encoder marks a "
                "stored coordinate with %s, the scan of nextInSlice skips while the "
                "bit %s: the scan stops at absent coordinates"
                % (sorted(wrote), ", ".join("%s %s" % (o, l) for o, l, _ in read) or
                   "is not tested"), text_="Bitvector present bit")
    # (d) TwoHandle(coords, payloads)
    th = [ci for k, ci in ctx.prog.classes.items()
          if ci.name == "TwoHandle" and k.startswith("codec/")]
    if th and th[0].methods.get("__init__") is not None:
        ps = th[0].methods["__init__"].params[1:]
        for c in nv.own_nodes():
            if isinstance(c, ast.Call) and text(c.func) == "TwoHandle" and c.args:
                names = [a.attr if isinstance(a, ast.Attribute) else
                         (a.id if isinstance(a, ast.Name) else None) for a in c.args]
                if all(n_ is None or n_ not in ps or n_ == ps[i_]
                       for i_, n_ in enumerate(names) if i_ < len(ps)):
                    ctx.ok("C20.R12", nv, c, "handle pair built in parameter order")
                else:
                    ctx.bad("C20.R12", nv, c, "`%s` passes %s for the parameters %s: "
                            "the coordinate handle and the payload handle are "
                            "exchanged" % (text(c), names, ps[:len(names)]))


def _expand_self_calls(ctx, f, test):
    """`self.h()` in a test, where h (own or inherited) is one `return <expr>`:
    the expression."""
    from ..symcase import clone
    ci = f.cls

    class X(ast.NodeTransformer):
        def visit_Call(self, n):
            self.generic_visit(n)
            if isinstance(n.func, ast.Attribute) and text(n.func.value) == "self" and \
                    not n.args and not n.keywords and ci is not None:
                hm = _method(ctx, ci, n.func.attr)
                h = hm[0] if hm else None
                if h is not None and h.node is not None:
                    body = [b for b in h.body if not (isinstance(b, ast.Expr) and
                                                      isinstance(b.value, ast.Constant))]
                    if len(body) == 1 and isinstance(body[0], ast.Return) and \
                            body[0].value is not None and h.params == ["self"]:
                        return clone(body[0].value)
            return n
    return X().visit(clone(test))


def _flat_conj(test):
    from ..cfg import flatten_conj
    return flatten_conj(test, True)


# -- R13: the short paths of the lookups agree with "first coordinate not below" ------

def r13_short_paths(ctx):
    """coordToHandle answers without searching in three cases, which must be
    the lower-bound answer: nothing stored -> None; query above the last
    stored coordinate -> None; query not above the first -> handle 0.  For
    the uncompressed format a coordinate is its own handle inside
    [0, shape) and None outside."""
    ci = _cls(ctx, "CoordinateList")
    f = ci.methods.get("coordToHandle")
    ctx.require(f is not None, "C20.R13: CoordinateList.coordToHandle vanished")
    q = f.params[1] if len(f.params) > 1 else "coord"
    loops = [w for w in f.own_nodes() if isinstance(w, ast.While)]
    want = {pat.A("==", "len(self.coords)", "0"): ("None", "nothing stored"),
            pat.A("<", "self.coords[-1]", q): ("None", "query above the last coordinate"),
            pat.A("<=", q, "self.coords[0]"): ("0", "query not above the first coordinate")}
    neg = {pat.A("!=", "len(self.coords)", "0"), pat.A("<=", q, "self.coords[-1]"),
           pat.A("<", "self.coords[0]", q)}
    ln_ = "len(self.coords)"
    empty_sp = {pat.A("==", ln_, "0"), ("truth", "self.coords", False), ("truth", ln_, False),
                pat.A("<", ln_, "1"), pat.A("<=", ln_, "0")}
    full_sp = {pat.A("!=", ln_, "0"), ("truth", "self.coords", True), ("truth", ln_, True),
               pat.A("<=", "1", ln_), pat.A("<", "0", ln_)}

    def canon_atom(a):
        # the last stored coordinate, and (non-)emptiness, in one spelling each
        a = tuple(x.replace("self.coords[len(self.coords)-1]", "self.coords[-1]")
                  if isinstance(x, str) else x for x in a)
        if a in empty_sp:
            return pat.A("==", ln_, "0")
        if a in full_sp:
            return pat.A("!=", ln_, "0")
        return a
    seen = {}
    stray = []
    for r in pat.returns(f):
        if any(is_within_(r, w) for w in loops):
            continue
        if loops and not cfg_can_reach(f, r, loops[0]) and cfg_can_reach(f, loops[0], r):
            continue        # the answer of the search itself
        for cl in pat.guard_dnf(ctx, f, r, asserts=False, inline_=True) or []:
            core = frozenset(canon_atom(a) for a in cl) - neg
            val = text(r.value) if r.value is not None else "None"
            if len(core) == 1 and next(iter(core)) in want:
                seen.setdefault(next(iter(core)), []).append((val, r))
            elif core:
                stray.append((sorted(core), r))
    for atom, (val, what) in want.items():
        got = seen.get(atom, [])
        if got and all(v == val for v, _ in got):
            ctx.ok("C20.R13", f, got[0][1], "%s -> %s" % (what, val),
                   text_="coordToHandle short path: " + what)
        else:
            ctx.bad("C20.R13", f, got[0][1] if got else f.node,
                    "CoordinateList.coordToHandle: %s must answer %s without "
                    "searching; it %s: the lookup no longer returns the handle of "
                    "the first stored coordinate not below the query"
                    % (what, val, ("answers %s" % got[0][0]) if got else
                       "has no such case (the test changed)"),
                    text_="coordToHandle short path: " + what)
    for core, r in stray:
        ctx.bad("C20.R13", f, r, "CoordinateList.coordToHandle answers `%s` without "
                "searching when %s, which is none of its three short cases"
                % (text(r.value) if r.value is not None else "None", core))
    u = _cls(ctx, "Uncompressed").methods.get("coordToHandle")
    if u is not None:
        qu = u.params[1] if len(u.params) > 1 else "coord"
        out_of = {frozenset([pat.A("<", qu, "0")]), frozenset([pat.A("<=", "self.shape", qu)])}
        got, ident = set(), False
        for r in pat.returns(u):
            val = text(r.value) if r.value is not None else "None"
            cls_ = pat.guard_dnf(ctx, u, r, asserts=False, inline_=True) or []
            if val == "None":
                got |= {frozenset(c) for c in cls_}
            elif val == qu:
                ident = all(frozenset(c) <= {pat.A("<=", "0", qu), pat.A("<", qu, "self.shape")}
                            for c in cls_)
        if got == out_of and ident:
            ctx.ok("C20.R13", u, u.node, "a coordinate in [0, shape) is its own handle, "
                   "None outside", text_="Uncompressed.coordToHandle")
        else:
            ctx.bad("C20.R13", u, u.node, "Uncompressed.coordToHandle no longer returns "
                    "the coordinate itself exactly for 0 <= coord < shape and None "
                    "otherwise (None when %s)" % sorted(map(sorted, got)),
                    text_="Uncompressed.coordToHandle")


def cfg_can_reach(f, a, b):
    from ..cfg import cfg_of, enclosing_stmt as _es
    g = cfg_of(f, assert_edges=False)
    sa_ = a if isinstance(a, ast.stmt) else _es(a)
    sb_ = b if isinstance(b, ast.stmt) else _es(b)
    return g.can_reach(sa_, sb_)

