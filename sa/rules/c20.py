"""C20 -- compression codec (partial, thin): sibling agreement of the
encodeFiber implementations on forwarding the imposed shape, registry and
interface exhaustiveness for U / C / B, one key constructor.  Decoding
round trips, lookups and sizes are values and are not decided."""

import ast

from ..model import text, AnalysisError
from ..cfg import guards
from .. import pat

EXPLANATION = (
    "Decode round trips, lookups and sizes are NOT decided.  Decided: (R1) "
    "every encodeFiber registered for U, C, B passes shape=shape in each "
    "recursive codec.encode(depth + 1, ...) call and Codec.encode passes it "
    "to encodeFiber and to its own recursion, so an imposed shape reaches "
    "every rank (sibling cross-check); (R2) descriptor_to_fmt maps U, C, B "
    "to classes that override every base method whose base body is the "
    "assert(False) placeholder and that the slice API calls (coordToHandle, "
    "getSize; getSliceMaxLength unless nextInSlice is overridden) and that "
    "define encodeFiber, encodeCoord(s) and encodeUpperPayload; (R3) "
    "producers (encodeFiber) and the output dictionary obtain the coords_* / "
    "payloads_* keys from the same Codec.get_keys.")
RULE = "one obligation per format x clause"

FORMATS = {"U": "Uncompressed", "C": "CoordinateList", "B": "Bitvector"}


def run(ctx):
    ctx.guard(r1_shape)
    ctx.guard(r2_registry)
    ctx.guard(r3_keys)


def _cls(ctx, name):
    for ci in ctx.prog.classes.values():
        if ci.name == name and ci.module.rel.startswith("codec/formats/"):
            ctx.consulted.add(ci.module.rel)
            return ci
    raise AnalysisError("C20: format class %s vanished" % name)


def _method(ctx, ci, name, seen=None):
    """Method resolved through the (single-inheritance) base chain."""
    seen = seen or set()
    if name in ci.methods:
        return ci.methods[name], ci
    for b in ci.bases:
        b = b.split(".")[-1]
        if b in seen:
            continue
        seen.add(b)
        for cj in ctx.prog.classes.values():
            if cj.name == b and cj.module.rel.startswith("codec/"):
                r = _method(ctx, cj, name, seen)
                if r:
                    return r
    return None


def r1_shape(ctx):
    enc = ctx.func("codec/tensor_codec.py:Codec.encode")
    ctx.require("shape" in enc.all_param_names(), "C20.R1: Codec.encode lost "
                "its shape parameter")
    for c in enc.own_nodes():
        if isinstance(c, ast.Call) and isinstance(c.func, ast.Attribute) and \
                c.func.attr in ("encodeFiber", "encode"):
            s = pat.kwarg(c, "shape")
            if s is not None and text(s) == "shape":
                ctx.ok("C20.R1", enc, c, "Codec.encode forwards shape to %s"
                       % c.func.attr)
            else:
                ctx.bad("C20.R1", enc, c, "Codec.encode calls %s without "
                        "shape=shape: the imposed shape is lost below this "
                        "rank" % c.func.attr)
    n = 0
    for d, cname in FORMATS.items():
        ci = _cls(ctx, cname)
        f = ci.methods.get("encodeFiber")
        if f is None:
            ctx.bad("C20.R1", ci, ci.node, "%s defines no encodeFiber" % cname,
                    text_="%s.encodeFiber" % cname)
            continue
        ctx.require("shape" in f.all_param_names(), "C20.R1: %s.encodeFiber has "
                    "no shape parameter" % cname)
        rec = [c for c in f.own_nodes() if isinstance(c, ast.Call)
               and isinstance(c.func, ast.Attribute) and c.func.attr == "encode"
               and text(c.func.value) == "codec"]
        if not rec:
            ctx.bad("C20.R1", f, f.node, "%s.encodeFiber never recurses into "
                    "codec.encode" % cname, text_="%s.encodeFiber recursion" % cname)
            continue
        for c in rec:
            n += 1
            s = pat.kwarg(c, "shape", 5)
            dp = c.args[0] if c.args else None
            if s is not None and text(s) == "shape" and dp is not None and \
                    text(dp).replace(" ", "") == "depth+1":
                ctx.ok("C20.R1", f, c, "%s forwards the imposed shape to the "
                       "next rank" % cname)
            else:
                ctx.bad("C20.R1", f, c,
                        "%s.encodeFiber recurses with `%s`, without "
                        "shape=shape, while its siblings forward it: ranks "
                        "below a %s rank ignore an imposed shape (e.g. "
                        "descriptor %s,U with shape [3,5] on a [2,3] tensor "
                        "produces K vectors of length 3 instead of 5)"
                        % (cname, text(c)[:70], d, d))
    ctx.floor("C20.R1", n, 3, "recursive codec.encode calls")


def _is_placeholder(f):
    body = pat.real_stmts(f.body)
    return len(body) == 1 and isinstance(body[0], ast.Assert) and \
        isinstance(body[0].test, ast.Constant) and body[0].test.value is False


def r2_registry(ctx):
    mod = ctx.module("codec/compression_types.py")
    reg = mod.globals.get("descriptor_to_fmt")
    ctx.require(isinstance(reg, ast.Dict), "C20.R2: descriptor_to_fmt vanished")
    table = {k.value: text(v) for k, v in zip(reg.keys, reg.values)
             if isinstance(k, ast.Constant)}
    base = _cls(ctx, "CompressionFormat")
    placeholders = [n for n, m in base.methods.items() if _is_placeholder(m)]
    for d, cname in FORMATS.items():
        if table.get(d) != cname:
            ctx.bad("C20.R2", mod, reg, "descriptor %r maps to %s, expected %s"
                    % (d, table.get(d), cname), text_="descriptor %s" % d)
            continue
        ci = _cls(ctx, cname)
        need = ["coordToHandle", "getSize"]
        if "nextInSlice" not in ci.methods:
            need.append("getSliceMaxLength")
        missing = []
        for m in need:
            r = _method(ctx, ci, m)
            if r is None or (r[1] is base and (m in placeholders or m == "getSliceMaxLength")):
                missing.append(m)
        for m in ("encodeFiber",):
            if m not in ci.methods:
                missing.append(m)
        if missing:
            ctx.bad("C20.R2", ci, ci.node, "format %s (%s) does not implement "
                    "%s: the base class placeholder (assert False / None) is "
                    "what the slice API would call" % (d, cname, missing),
                    text_="%s interface" % cname)
        else:
            ctx.ok("C20.R2", ci, ci.node, "%s overrides %s and defines "
                   "encodeFiber" % (cname, need), text_="%s interface" % cname)
        for m in ("encodeCoord", "encodeUpperPayload"):
            r = _method(ctx, ci, m)
            if r is None:
                ctx.bad("C20.R2", ci, ci.node, "%s has no %s" % (cname, m),
                        text_="%s.%s" % (cname, m))
            else:
                ctx.ok("C20.R2", ci, ci.node, "%s provides %s" % (cname, m),
                       text_="%s.%s" % (cname, m))


def r3_keys(ctx):
    for d, cname in FORMATS.items():
        ci = _cls(ctx, cname)
        f = ci.methods.get("encodeFiber")
        if f is None:
            continue
        ks = [n for n in f.own_nodes() if isinstance(n, ast.Assign)
              and isinstance(n.value, ast.Call)
              and text(n.value.func) in ("codec.get_keys", "Codec.get_keys")
              and [text(a) for a in n.value.args] == ["ranks", "depth"]]
        lits = [n for n in f.own_nodes() if isinstance(n, (ast.Constant, ast.JoinedStr))
                and isinstance(getattr(n, "value", None), str)
                and n.value.startswith(("coords_", "payloads_"))]
        if len(ks) == 1 and not lits:
            ctx.ok("C20.R3", f, ks[0], "%s takes its output keys from "
                   "Codec.get_keys(ranks, depth)" % cname)
        else:
            ctx.bad("C20.R3", f, f.node, "%s.encodeFiber does not obtain its "
                    "coords_/payloads_ keys from Codec.get_keys(ranks, depth) "
                    "(or builds them by hand): producer and output dictionary "
                    "can disagree" % cname, text_="%s keys" % cname)
    g = ctx.func("codec/tensor_codec.py:Codec.get_output_dict")
    ks = [n for n in g.own_nodes() if isinstance(n, ast.Assign)
          and isinstance(n.value, ast.Call)
          and text(n.value.func) in ("Codec.get_keys", "self.get_keys")]
    if ks:
        ctx.ok("C20.R3", g, ks[0], "the output dictionary is keyed by the same "
               "Codec.get_keys")
    else:
        ctx.bad("C20.R3", g, g.node, "get_output_dict no longer keys the output "
                "by Codec.get_keys", text_="get_output_dict keys")
