"""C19 -- intersection and merge cost models (partial, thin): mirror symmetry
of the merge models under 0<->1, where each model counts, and that the swap
model reads coordinates only.  The counts themselves are values and are not
decided."""

import ast
import re

from ..model import text, AnalysisError
from ..cfg import guards, enclosing_stmt, is_within, atomic_guards
from .. import pat
from .c18 import poly

EXPLANATION = (
    "Counts are values and are NOT decided.  Decided: (R1) in the two-finger "
    "and skip-ahead models the branch for point0 < point1 and the branch for "
    "point0 > point1 are mirror images under the renaming 0<->1 (advance, "
    "end-of-fiber forwarding of the other finger, counter updates), both "
    "fingers advance on a match; the two-finger model counts exactly once "
    "per loop iteration, the skip-ahead model once per match and once per "
    "change of the current side, the leader-follower model adds the trace "
    "length and subtracts the header exactly once (started flag); (R2) the "
    "swap model uses payloads only as receivers of getCoords() and as "
    "recursion arguments, and the finite-latency leg is "
    "next_latency * (len(coords) + len(merged)) in normal form.")
RULE = "one obligation per model clause"

IX = "model/intersect.py:"
CP = "model/compute.py:Compute."

SWAP = [("point0", "point1"), ("i0", "i1"), ("trace0", "trace1")]


def run(ctx):
    ctx.guard(mirror, "TwoFingerIntersector")
    ctx.guard(mirror, "SkipAheadIntersector")
    ctx.guard(counting)
    ctx.guard(swaps)
    ctx.guard(merged_sorted)


def _rename(s, curr=True):
    for a, b in SWAP:
        s = re.sub(r"\b%s\b" % a, "\0", s)
        s = re.sub(r"\b%s\b" % b, a, s)
        s = s.replace("\0", b)
    if curr:
        s = re.sub(r"\bcurr (!=|=|==) 0\b", lambda m: "curr %s \1" % m.group(1), s)
        s = re.sub(r"\bcurr (!=|=|==) 1\b", lambda m: "curr %s 0" % m.group(1), s)
        s = s.replace("\1", "1")
    return s


def _branches(ctx, f, loop):
    """(eq body, lt body, gt body) of the three-way comparison in the loop."""
    for st in loop.body:
        if isinstance(st, ast.If):
            p = pat.cmp_raw(st.test)
            if p and p[0] == "==" and {p[1], p[2]} == {"point0", "point1"} and \
                    len(st.orelse) == 1 and isinstance(st.orelse[0], ast.If):
                b = st.orelse[0]
                q = pat.cmp_raw(b.test)
                if q and q[0] == "<" and (q[1], q[2]) == ("point0", "point1") \
                        and b.orelse:
                    return st, st.body, b.body, b.orelse
    return None


def mirror(ctx, cname):
    f = ctx.func(IX + cname + ".addTraces")
    loops = [n for n in f.own_nodes() if isinstance(n, ast.While)]
    ctx.require(len(loops) == 1, "C19.R1: merge loop of %s not found" % cname)
    br = _branches(ctx, f, loops[0])
    if br is None:
        ctx.bad("C19.R1", f, loops[0], "%s: the loop body is not the three-way "
                "comparison ==, <, else of point0 and point1" % cname,
                text_="%s three-way" % cname)
        return
    iff, eq, lt, gt = br
    a = sorted(_rename(text(s)) for s in lt)
    b = sorted(text(s) for s in gt)
    if a == b:
        ctx.ok("C19.R1", f, iff, "the > branch is the mirror image of the < "
               "branch under 0<->1", text_="%s mirror" % cname)
    else:
        diff = [x for x in a if x not in b] + [x for x in b if x not in a]
        ctx.bad("C19.R1", f, iff, "%s treats the two operands asymmetrically: "
                "after renaming 0<->1 the `<` branch differs from the `>` "
                "branch in %s -- swapping the operands changes the count"
                % (cname, [d.replace("\n", " ")[:70] for d in diff][:3]),
                text_="%s mirror" % cname)
    # on a match both fingers advance
    adv = {text(s.targets[0]).replace(" ", "") for s in eq if isinstance(s, ast.Assign)
           and "get_next" in text(s.value)}
    if adv == {"(point0,i0)", "(point1,i1)"} or adv == {"point0,i0", "point1,i1"}:
        ctx.ok("C19.R1", f, eq[0], "a match advances both fingers",
               text_="%s match" % cname)
    else:
        ctx.bad("C19.R1", f, eq[0], "%s: a match does not advance both fingers"
                % cname, text_="%s match" % cname)
    # end-of-fiber forwarding in the < branch
    fw = [s for s in lt if isinstance(s, ast.If)]
    okfw = False
    for s in fw:
        t = text(s.test).replace(" ", "")
        if t == "point0isNoneorfiber!=point0[:-1]" and any(
                isinstance(x, ast.Assign) and "get_next(trace1,i1)" in
                text(x.value).replace(" ", "") for x in s.body):
            okfw = True
    if okfw:
        ctx.ok("C19.R1", f, lt[0], "when the advanced finger leaves the fiber "
               "the other finger is forwarded (no comparison spans two fibers)",
               text_="%s forwarding" % cname)
    else:
        ctx.bad("C19.R1", f, lt[0], "%s: when finger 0 leaves the current fiber "
                "finger 1 is no longer forwarded: comparisons span two fibers "
                "and the total depends on how the trace is batched" % cname,
                text_="%s forwarding" % cname)


def _incs(stmts):
    from ..cfg import walk_own
    return [n for n in walk_own(stmts) if isinstance(n, ast.AugAssign)
            and text(n.target) == "self.num_intersects"]


def counting(ctx):
    f = ctx.func(IX + "TwoFingerIntersector.addTraces")
    lp = [n for n in f.own_nodes() if isinstance(n, ast.While)][0]
    incs = _incs(lp.body)
    if len(incs) == 1 and incs[0] in lp.body and text(incs[0].value) == "1" and \
            len(_incs(f.body)) == 1:
        ctx.ok("C19.R1", f, incs[0], "two-finger counts once per loop iteration")
    else:
        ctx.bad("C19.R1", f, lp, "the two-finger model must count exactly one "
                "comparison step per loop iteration (found %d increments, "
                "%s at loop level)" % (len(incs), "one" if incs and incs[0] in lp.body
                                       else "none"), text_="TwoFinger counting")
    f = ctx.func(IX + "SkipAheadIntersector.addTraces")
    lp = [n for n in f.own_nodes() if isinstance(n, ast.While)][0]
    br = _branches(ctx, f, lp)
    ctx.require(br is not None, "C19.R1: skip-ahead branches not found")
    iff, eq, lt, gt = br
    e = _incs(eq)
    l = _incs(lt)
    okeq = len(e) == 1 and e[0] in eq and any(
        isinstance(s, ast.Assign) and text(s).replace(" ", "") == "curr=None" for s in eq)
    oklt = len(l) == 1 and any(
        (text(t).replace(" ", ""), pol) == ("curr!=0", True)
        for t, pol in atomic_guards(l[0], stop=lp)) and any(
        isinstance(s, ast.Assign) and text(s).replace(" ", "") == "curr=0"
        for s in ast.walk(ast.Module(body=lt, type_ignores=[])))
    if okeq and oklt and len(_incs(f.body)) == 3:
        ctx.ok("C19.R1", f, e[0], "skip-ahead counts once per match and once "
               "per change of the current side")
    else:
        ctx.bad("C19.R1", f, lp, "the skip-ahead model must count once per "
                "match (resetting the run) and once per maximal same-side run",
                text_="SkipAhead counting")
    # the run is reset where the fiber the fingers are in changes: a test
    # `<old> != <new>` at loop level, <new> being this round's fiber (the
    # prefix `p[:-1]` of a head, or None at the end), <old> the one carried
    # over from the round before -- whichever variable holds which
    def top_index(st):
        n = st
        while n is not None and n not in lp.body:
            n = getattr(n, "_parent", None)
        return lp.body.index(n) if n is not None else None

    def new_shaped(v):
        return (isinstance(v, ast.Constant) and v.value is None) or (
            isinstance(v, ast.Subscript) and isinstance(v.slice, ast.Slice) and
            v.slice.lower is None and text(v.slice.upper) == "-1")

    def role(name_node, at_idx, depth=0):
        """'new' / 'old' / None for a variable read in statement lp.body[at_idx]."""
        if depth > 3 or not isinstance(name_node, ast.Name):
            return None
        facts, is_param = ctx.ty.facts_at(f, name_node.id, name_node)
        if is_param or not facts:
            return None
        roles = set()
        for fa in facts:
            if fa.kind != "expr" or fa.path:
                return None
            i = top_index(fa.stmt)
            fresh = i is not None and i < at_idx
            if not fresh:
                # carried over: set before the loop or later in the round
                # before; inside the loop it must be given this round's fiber
                if i is not None and not (new_shaped(fa.value) or
                                          role(fa.value, i, depth + 1) == "new"):
                    return None
                roles.add("old")
            elif new_shaped(fa.value):
                roles.add("new")
            else:
                roles.add(role(fa.value, i, depth + 1))
        return roles.pop() if len(roles) == 1 else None
    resets = []
    for k, n in enumerate(lp.body):
        if isinstance(n, ast.If) and isinstance(n.test, ast.Compare) and \
                len(n.test.ops) == 1 and isinstance(n.test.ops[0], ast.NotEq) and \
                any(text(s_).replace(" ", "") == "curr=None" for s_ in n.body):
            rs = {role(n.test.left, k), role(n.test.comparators[0], k)}
            if rs == {"old", "new"}:
                resets.append(n)
    if resets:
        ctx.ok("C19.R1", f, resets[0], "the run is reset at a fiber boundary")
    else:
        ctx.bad("C19.R1", f, lp, "the skip-ahead model no longer resets the "
                "current run at a fiber boundary", text_="SkipAhead fiber reset")
    f = ctx.func(IX + "LeaderFollowerIntersector.addTraces")
    # case by case on the started flag (sa/symcase.py): the counter grows by
    # len(trace) once started, by len(trace) - 1 on the first call, which
    # also sets the flag
    from .. import symcase
    from .c18 import poly

    def net(started):
        def decide(t):
            if isinstance(t, ast.UnaryOp) and isinstance(t.op, ast.Not):
                d_ = decide(t.operand)
                return None if d_ is None else not d_
            return started if symcase.norm(t) == "self.started" else None
        outs = symcase.Evaluator(ctx, decide).run(f)
        res = set()
        for o in outs:
            if o.opaque:
                return None
            tot = {}
            flag = None
            for tgt, op, val, st in o.stores:
                if tgt == "self.num_intersects" and op in (ast.Add, ast.Sub):
                    p_ = poly(ctx, f, val)
                    if p_ is None:
                        return None
                    for k, v in p_.items():
                        tot[k] = tot.get(k, 0) + (v if op is ast.Add else -v)
                elif tgt == "self.started" and op is None:
                    flag = symcase.norm(val)
                else:
                    return None
            res.add((tuple(sorted((k, v) for k, v in tot.items() if v)), flag))
        return res
    n_ = ("len(traces[0])",)
    okd = net(True) in ({(((n_, 1),), None)}, {(((n_, 1),), "True")}) and \
        net(False) == {((((), -1), (n_, 1)), "True")}
    dec = [f.node]
    if okd:
        ctx.ok("C19.R1", f, dec[0], "adds the trace length, subtracts the "
               "header exactly once")
    else:
        ctx.bad("C19.R1", f, f.node, "the leader-follower model must add "
                "len(trace) and subtract the header row exactly once (guarded "
                "by the started flag)", text_="LeaderFollower counting")


def swaps(ctx):
    f = ctx.func(CP + "_numSwapsTree")
    # the merger the caller configured is the one every level is costed with:
    # the recursion hands down its own `radix` / `next_latency` parameters,
    # not a value clamped to the width of an upper-rank fiber
    rec = [c for c in f.own_nodes() if isinstance(c, ast.Call)
           and text(c.func).endswith("_numSwapsTree")]
    for c in rec:
        for prm in ("radix", "next_latency"):
            if prm not in f.params:
                continue
            a = pat.kwarg(c, prm, f.params.index(prm))
            okp = False
            if isinstance(a, ast.Name) and a.id == prm:
                facts, is_param = ctx.ty.facts_at(f, prm, a)
                okp = is_param and not facts
            if okp:
                ctx.ok("C19.R2", f, c, "recursion passes the caller's %s unchanged" % prm,
                       text_="_numSwapsTree hands down %s" % prm)
            else:
                ctx.bad("C19.R2", f, c, "the recursion of _numSwapsTree does not "
                        "hand down the caller's `%s` unchanged (`%s`, rebound on a "
                        "path to the call): lower ranks are costed with a merger "
                        "clamped to the number of coordinates of an upper-rank "
                        "fiber, i.e. with extra merge rounds"
                        % (prm, text(a) if a is not None else "missing"),
                        text_="_numSwapsTree hands down %s" % prm)
    bad = []
    for lp in f.own_nodes():
        if isinstance(lp, ast.For) and isinstance(lp.target, ast.Tuple) and \
                len(lp.target.elts) == 2:
            pv = text(lp.target.elts[1])
            from ..cfg import walk_own
            for u in walk_own(lp.body):
                if isinstance(u, ast.Name) and u.id == pv and isinstance(u.ctx, ast.Load):
                    par = getattr(u, "_parent", None)
                    ok = isinstance(par, ast.Attribute) and par.attr == "getCoords" \
                        or (isinstance(par, ast.Call) and
                            text(par.func) == "Compute._numSwapsTree" and
                            par.args and par.args[0] is u)
                    if not ok:
                        bad.append(u)
    if bad:
        ctx.bad("C19.R2", f, bad[0], "the swap model reads the payload `%s` "
                "other than through getCoords() / recursion: the count depends "
                "on payload values" % bad[0].id)
    else:
        ctx.ok("C19.R2", f, f.node, "payloads used only for getCoords() and "
               "recursion", text_="_numSwapsTree payload use")
    m = ctx.func(CP + "_merge")
    rets = [r for r in pat.returns(m) if any(
        "isinstance(next_latency,int)" == text(t).replace(" ", "") and pol
        for t, pol in guards(r))]
    ok = False
    if len(rets) == 1 and isinstance(rets[0].value, ast.Tuple):
        p = poly(ctx, m, rets[0].value.elts[0])
        mv = text(rets[0].value.elts[1]) if len(rets[0].value.elts) > 1 else "?"
        ok = p == {tuple(sorted(("len(coords)", "next_latency"))): 1,
                   tuple(sorted(("len(%s)" % mv, "next_latency"))): 1}
    if ok:
        ctx.ok("C19.R2", m, rets[0], "finite latency: next_latency * "
               "(lists + elements)")
    else:
        ctx.bad("C19.R2", m, rets[0] if rets else m.node, "the finite-latency "
                "charge is no longer next_latency * (len(coords) + len(merged))",
                text_="_merge finite latency")


def merged_sorted(ctx):
    """Compute._merge hands its merged list to the next merge round, which
    pops from the end of sorted lists: on every path the returned list must
    have been sorted after its last element was added."""
    m = ctx.func(CP + "_merge")
    from ..cfg import cfg_of
    g = cfg_of(m, assert_edges=False)
    for r in pat.returns(m):
        if not (isinstance(r.value, ast.Tuple) and len(r.value.elts) == 2
                and isinstance(r.value.elts[1], ast.Name)):
            continue
        mv = r.value.elts[1].id
        sorts = {enclosing_stmt(c) for c in pat.calls(m, attr="sort")
                 if text(c.func.value) == mv}
        muts = [enclosing_stmt(c) for c in m.own_nodes() if isinstance(c, ast.Call)
                and isinstance(c.func, ast.Attribute) and text(c.func.value) == mv
                and c.func.attr in ("append", "extend", "insert")]
        muts += [a for a in m.own_nodes() if isinstance(a, ast.Assign)
                 and text(a.targets[0]) == mv]
        leak = [st for st in muts if r in g.reachable(st, avoid=sorts) ]
        if leak:
            ctx.bad("C19.R2", m, r, "Compute._merge can return `%s` without "
                    "sorting it after `%s`: the next merge round pops from "
                    "lists it assumes sorted, so the comparison count of a "
                    "multi-round merge is wrong" % (mv, text(leak[0])[:50]),
                    text_="_merge result sorted")
        else:
            ctx.ok("C19.R2", m, r, "the merged list is sorted after its last "
                   "modification on every path to this return",
                   text_="_merge result sorted")
