"""C02 -- a tensor's rank bookkeeping always mirrors its fibertree.

Oracle: every owned fiber at depth d is in ranks[d].fibers exactly once and
its owner is ranks[d].  The lists change at the write sites of Rank.fibers;
tree edges change at the write sites of Fiber.payloads.  The invariant
holds iff every edge creation on an owned fiber is matched by a
registration and every edge removal by a deregistration (DESIGN.md C02).
"""

import ast

from ..model import text, construct, AnalysisError
from ..cfg import cfg_of, guards, atomic_guards, parent_block, enclosing_stmt, \
    EXIT, is_within
from ..sites import field_mutations, iter_kind, RAW, FILTERED
from .. import pat

EXPLANATION = (
    "Ownership / registration audit of the rank lists: (R1) Rank.fibers is "
    "mutated only inside class Rank and every caller of Rank.append/pop/"
    "clearFibers is classified; (R2) every default-creating call that "
    "registers a fresh fiber in the next rank must insert its result into "
    "the same fiber's payload list on every path (else it must pass "
    "addtorank=False, and an unregistered default must never be inserted); "
    "(R3) every edge removal in the mutators C02 quantifies over is paired "
    "with a removal from the owner's next rank; (R4) every setOwner call "
    "site is classified (ownership moves only together with list "
    "membership); (R5) setRoot/_addFiber/setRankInfo rebuild all ranks from "
    "the raw payload lists and deepcopy is the pickle round trip.  R3 also "
    "requires, for a drop paired with a single pop(), that every disjunct of "
    "the drop condition knows the dropped sub-fiber to be childless.")
RULE = ("one obligation per Rank.fibers write, per caller of Rank.append/"
        "pop/clearFibers, per _createDefault/_instantiateDefault call site, "
        "per payload-dropping write in a C02 mutator, per setOwner call site, "
        "and per rebuild clause; distinct = distinct construct")

DROP_KINDS = {"delitem", "call:clear", "call:pop", "call:remove", "rebind"}
C02_MUTATORS = {"core/iterators.py:__lshift__.lshift_iterator.__iter__",
                "core/fiber.py:Fiber.clear", "core/fiber.py:Fiber.__ilshift__"}


def run(ctx):
    ctx.eff
    for r in (r1, r2, r3, r4, r5):
        ctx.guard(r)
    ctx.guard(lambda c: c.floor("C02.R5", pat.check_unit_recursion(
        c, "C02.R5", c.method("Tensor", "_addFiber"),
        "rank-by-rank registration"), 1, "recursion step of _addFiber"))
    ctx.assume("populate's run-time assert `id(a_payload) == id(popped)` "
               "guards that the popped fiber is the one just created; a loop "
               "body that registers another fiber in the same rank trips it "
               "(not decided statically)")


# ---------------------------------------------------------------------------
def r1(ctx):
    prog = ctx.prog
    rank = prog.cls("Rank")
    n = 0
    for f in prog.funcs.values():
        if f.module.rel.startswith(("codec/", "notebook/")):
            continue
        for m in field_mutations(ctx, f, {"fibers"}):
            bt = ctx.ty.expr(f, m.base)
            if bt and "Rank" not in bt:
                continue
            n += 1
            if f.cls is rank:
                ctx.ok("C02.R1", f, m.node, "Rank.fibers written inside class Rank")
            else:
                ctx.bad("C02.R1", f, m.node,
                        "Rank.fibers is mutated outside class Rank%s: "
                        "membership changes without the ownership update that "
                        "Rank.append/pop perform"
                        % (" through the list returned by getFibers()"
                           if m.via_alias else ""))
    ctx.floor("C02.R1", n, 3, "writes to Rank.fibers")
    # callers of the three membership methods
    table = {
        "append": {"core/tensor.py:Tensor._addFiber": "rebuild (R5)",
                   "core/fiber.py:Fiber._instantiateDefault":
                       "registration of a fresh default (R2)"},
        "pop": {"core/iterators.py:__lshift__.lshift_iterator.__iter__":
                "populate removes the untouched sub-fiber (R3)"},
        "clearFibers": {"core/tensor.py:Tensor.setRoot": "rebuild (R5)"},
    }
    for name, allowed in table.items():
        m = ctx.method("Rank", name)
        sites = [s for s in ctx.eff.call_sites.get(m, [])
                 if s[2].kind in ("resolved", "byname")]
        ctx.floor("C02.R1", len(sites), len(allowed), "callers of Rank.%s" % name)
        for caller, call, tg in sites:
            if caller.key in allowed:
                ctx.ok("C02.R1", caller, call, "caller of Rank.%s: %s"
                       % (name, allowed[caller.key]))
            elif _only_called_from(ctx, caller, set(allowed)):
                ctx.ok("C02.R1", caller, call, "caller of Rank.%s: a helper "
                       "used only by %s" % (name, sorted(allowed)))
            else:
                ctx.bad("C02.R1", caller, call,
                        "new caller of Rank.%s: rank membership changes at a "
                        "site none of the pairing rules (registration<->"
                        "insertion, removal<->deregistration, rebuild) covers"
                        % name)


def _only_called_from(ctx, func, allowed_keys, depth=0):
    """`func` is a plain helper every call site of which lies in one of the
    allowed callers (or in another such helper): extracting code into a
    helper does not create a new place where membership changes."""
    if depth > 3 or func.cls is not None and func.name.startswith("__"):
        return False
    sites = ctx.eff.call_sites.get(func, [])
    if not sites:
        return False
    for caller, call, tg in sites:
        if caller.key in allowed_keys:
            continue
        if not _only_called_from(ctx, caller, allowed_keys, depth + 1):
            return False
    return True


# ---------------------------------------------------------------------------
def _flag(call, callee):
    """('const', bool) | ('param', name) | ('other', expr) for addtorank."""
    a = pat.kwarg(call, "addtorank")
    if a is None:
        # positional?
        params = callee.params[1:] if callee.kind == "method" else callee.params
        if "addtorank" in params:
            i = params.index("addtorank")
            if i < len(call.args):
                a = call.args[i]
    if a is None:
        d = callee.defaults.get("addtorank")
        return ("const", bool(d.value)) if isinstance(d, ast.Constant) else ("other", d)
    if isinstance(a, ast.Constant):
        return ("const", bool(a.value))
    if isinstance(a, ast.Name):
        return ("param", a.id)
    return ("other", a)


def _derived(ctx, f, call):
    """Names that hold the call's result (directly or re-boxed)."""
    st = enclosing_stmt(call)
    names = set()
    if isinstance(st, ast.Assign) and st.value is call and \
            isinstance(st.targets[0], ast.Name):
        names.add(st.targets[0].id)
    changed = True
    while changed:
        changed = False
        for n in f.own_nodes():
            if isinstance(n, ast.Assign) and isinstance(n.targets[0], ast.Name) \
                    and n.targets[0].id not in names:
                v = n.value
                if isinstance(v, ast.Name) and v.id in names:
                    names.add(n.targets[0].id)
                    changed = True
                elif pat.is_call(v, "Payload.maybe_box", "Payload") and v.args and \
                        isinstance(v.args[0], ast.Name) and v.args[0].id in names:
                    names.add(n.targets[0].id)
                    changed = True
    return names


def _stores_of(ctx, f, names, base_text):
    """Statements that store one of `names` into <base>.payloads, or pass it
    as the payload argument of <base>._create_payload."""
    out = []
    for m in field_mutations(ctx, f, {"payloads"}):
        if text(m.base) != base_text:
            continue
        vals = []
        if m.kind == "call:insert" and len(m.args) > 1:
            vals = [m.args[1]]
        elif m.kind == "call:append":
            vals = m.args[:1]
        elif m.kind in ("setitem",):
            vals = [m.value]
        if any(isinstance(v, ast.Name) and v.id in names for v in vals):
            out.append(m.stmt)
    for c in pat.calls(f, attr="_create_payload"):
        if text(c.func.value) == base_text:
            p = pat.kwarg(c, "payload", 1)
            if isinstance(p, ast.Name) and p.id in names:
                out.append(enclosing_stmt(c))
    return out


def r2(ctx):
    total = 0
    for mname in ("_createDefault", "_instantiateDefault"):
        callee = ctx.method("Fiber", mname)
        for caller, call, tg in ctx.eff.call_sites.get(callee, []):
            if caller.module.rel.startswith(("codec/", "notebook/")):
                continue
            total += 1
            kind, val = _flag(call, callee)
            if mname == "_instantiateDefault" and caller is callee:
                ctx.ok("C02.R2", caller, call, "recursive default for tuple "
                       "elements: addtorank left at its default False")
                continue
            if kind == "param":
                if val in caller.all_param_names() and \
                        not ctx.ty.assignments(caller).get(val):
                    ctx.ok("C02.R2", caller, call, "addtorank forwarded from "
                           "the caller's own parameter")
                else:
                    ctx.bad("C02.R2", caller, call, "addtorank is computed "
                            "(`%s`), the registration cannot be matched with "
                            "an insertion" % val)
                continue
            if kind == "other":
                ctx.bad("C02.R2", caller, call, "addtorank is not a constant")
                continue
            base = text(call.func.value) if isinstance(call.func, ast.Attribute) else ""
            names = _derived(ctx, caller, call)
            stores = _stores_of(ctx, caller, names, base) if names else []
            g = cfg_of(caller, assert_edges=True)
            st = enclosing_stmt(call)
            if val:      # registers a fresh fiber in the next rank
                if not stores:
                    ctx.bad("C02.R2", caller, call,
                            "`%s` registers a fresh fiber in the owner's next "
                            "rank but its result is never inserted into %s."
                            "payloads: every call on an interior fiber of a "
                            "tensor leaves a phantom fiber in the rank list "
                            "(pass addtorank=False for a default that is only "
                            "handed out)" % (text(call), base or "the fiber"))
                    continue
                leak = EXIT in g.reachable(st, avoid=set(stores))
                if leak:
                    ctx.bad("C02.R2", caller, call,
                            "`%s` registers a fresh fiber in the next rank but "
                            "some path to the function's exit does not insert "
                            "it into %s.payloads: on that path a phantom fiber "
                            "stays in the rank list" % (text(call), base))
                else:
                    ctx.ok("C02.R2", caller, call, "registered default is "
                           "inserted on every path (`%s`)" % construct(stores[0]))
            else:        # hands out an unregistered default
                if stores:
                    ctx.bad("C02.R2", caller, call,
                            "a default created with addtorank=False is inserted "
                            "into %s.payloads: the new sub-fiber is in the tree "
                            "but missing from the rank list" % base)
                else:
                    ctx.ok("C02.R2", caller, call, "unregistered default is "
                           "only handed out, never inserted")
    ctx.floor("C02.R2", total, 5, "_createDefault/_instantiateDefault call sites")
    # the mechanism itself: registration happens exactly under addtorank
    f = ctx.method("Fiber", "_instantiateDefault")
    app = [c for c in pat.calls(f, attr="append")
           if "next_rank" in text(c.func.value)]
    ctx.require(app, "C02.R2: registration call in _instantiateDefault vanished")
    for c in app:
        gs = [(text(t), pol) for t, pol in atomic_guards(enclosing_stmt(c))]
        if ("addtorank", True) in gs:
            ctx.ok("C02.R2", f, c, "registration happens only under addtorank")
        else:
            ctx.bad("C02.R2", f, c, "the fresh default is appended to the next "
                    "rank regardless of addtorank: every read of an absent "
                    "coordinate registers a phantom fiber")


# ---------------------------------------------------------------------------
def r3(ctx):
    n = 0
    for f in ctx.prog.funcs.values():
        if f.module.rel.startswith(("codec/", "notebook/")):
            continue
        for m in field_mutations(ctx, f, {"payloads"}):
            if m.kind not in DROP_KINDS:
                continue
            bt = ctx.ty.expr(f, m.base)
            if bt and "Fiber" not in bt:
                continue
            if f.name == "__init__":
                continue
            if m.kind == "rebind" and f.name == "updateCoords":
                continue            # joint re-sort keeps every element
            if isinstance(m.base, ast.Name) and pat.single_def(ctx, f, m.base) is not None \
                    and isinstance(pat.single_def(ctx, f, m.base), ast.Call):
                continue            # fresh local fiber
            if f.key not in C02_MUTATORS:
                ctx.info("C02.R3: payload-dropping write outside the mutators "
                         "C02 quantifies over: %s `%s`" % (f.key, construct(m.stmt)))
                continue
            n += 1
            base = text(m.base)
            if _deregisters(ctx, f, m, base):
                ctx.ok("C02.R3", f, m.node, "edge removal paired with "
                       "getOwner().getNextRank().pop() under the owner guard")
                _dropped_is_childless(ctx, f, m, base)
            else:
                ctx.bad("C02.R3", f, m.node,
                        "elements of %s.payloads are dropped without removing "
                        "the dropped sub-fibers from the owner's next rank: on "
                        "an owned non-leaf fiber the rank list keeps stale "
                        "fibers that are no longer in the tree" % base)
    ctx.floor("C02.R3", n, 1, "payload-dropping writes in C02 mutators")


def _dropped_is_childless(ctx, f, m, base):
    """One pop() de-registers one fiber.  The dropped payload may only be a
    sub-fiber when it is known to have no children of its own (`len(v) == 0`
    for a variable v obtained from <base>), otherwise its descendants stay
    listed in the deeper ranks."""
    from ..cfg import guards
    cands = set()
    for n in f.own_nodes():
        if isinstance(n, ast.Assign) and len(n.targets) == 1 and \
                isinstance(n.targets[0], ast.Name) and isinstance(n.value, ast.Call) \
                and isinstance(n.value.func, ast.Attribute) and \
                text(n.value.func.value) == base:
            cands.add(n.targets[0].id)
    cond = [frozenset()]
    for t, pol in guards(m.stmt, asserts=False):
        d = pat.bool_dnf(ctx, f, t, pol)
        if d is None:
            raise AnalysisError("C02.R3: drop condition too large for DNF")
        cond = [a | b for a in cond for b in d]
    cond = [d for d in cond if not any((t, not q) in d for t, q in d)]
    bad = []
    for d in cond:
        ok = False
        for v in cands:
            if ("len(%s)==0" % v, True) in d or \
                    ("isinstance(%s,type(%s))" % (v, base), False) in d or \
                    ("isinstance(%s,Fiber)" % v, False) in d:
                ok = True
        if not ok:
            bad.append(d)
    if bad:
        ctx.bad("C02.R3", f, m.node, "the element is dropped (with a single "
                "pop() from the next rank) also when %s -- without knowing that "
                "a dropped sub-fiber has no children (`len(.) == 0`): the "
                "fibers below it stay listed in the deeper ranks"
                % sorted(t if q else "not " + t for t, q in bad[0]),
                text_="dropped sub-fiber childless: " + construct(m.stmt))
    else:
        ctx.ok("C02.R3", f, m.node, "a dropped sub-fiber is known to be "
               "childless (len == 0), so one pop() suffices",
               text_="dropped sub-fiber childless: " + construct(m.stmt))


def _deregisters(ctx, f, m, base):
    """After the delete, in the same block, `<base>.getOwner().getNextRank()
    .pop()` under a guard that the owner and its next rank exist."""
    pb = parent_block(m.stmt)
    if pb is None:
        return False
    blk, idx = pb[0], pb[1]
    from ..sites import rank_pops
    return any(ok for _, ok in rank_pops(ctx, f, blk[idx + 1:], base))


# ---------------------------------------------------------------------------
def r4(ctx):
    n = 0
    for f in ctx.prog.funcs.values():
        if f.module.rel.startswith(("codec/", "notebook/")):
            continue
        # raw _owner stores
        for m in field_mutations(ctx, f, {"_owner"}):
            if f.name == "setOwner" and f.cls is not None and f.cls.name == "Fiber":
                ctx.ok("C02.R4", f, m.node, "the only raw store of _owner")
            else:
                ctx.bad("C02.R4", f, m.node, "raw store to Fiber._owner "
                        "outside Fiber.setOwner")
        for c in pat.calls(f, attr="setOwner"):
            n += 1
            _classify_setowner(ctx, f, c)
    ctx.floor("C02.R4", n, 7, "setOwner call sites")
    # the two membership methods must move ownership themselves
    f = ctx.method("Rank", "pop")
    pops = [c for c in pat.calls(f, attr="pop") if text(c.func.value) == "self.fibers"]
    ctx.require(pops, "C02.R4: Rank.pop no longer pops self.fibers")
    cleared = [c for c in pat.calls(f, attr="setOwner") if c.args and
               isinstance(c.args[0], ast.Constant) and c.args[0].value is None]
    if cleared:
        ctx.ok("C02.R4", f, pops[0], "popped fiber is disowned")
    else:
        ctx.bad("C02.R4", f, pops[0], "Rank.pop removes the fiber from the "
                "list but leaves its owner set: the removed fiber still "
                "reports this rank as owner")
    f = ctx.method("Rank", "append")
    apps = [c for c in pat.calls(f, attr="append") if text(c.func.value) == "self.fibers"]
    ctx.require(apps, "C02.R4: Rank.append no longer appends to self.fibers")
    owned = [c for c in pat.calls(f, attr="setOwner") if c.args and
             text(c.args[0]) == "self" and apps[0].args and
             text(c.func.value) == text(apps[0].args[0])]
    g = cfg_of(f, assert_edges=False)
    if owned and all(g.dominates(enclosing_stmt(c), enclosing_stmt(apps[0]))
                     for c in owned):
        ctx.ok("C02.R4", f, apps[0], "listed fiber is owned by this rank")
    else:
        ctx.bad("C02.R4", f, apps[0], "Rank.append lists the fiber without "
                "making this rank its owner: the fiber does not report the "
                "rank that lists it")


def _classify_setowner(ctx, f, c):
    arg = c.args[0] if c.args else None
    none = isinstance(arg, ast.Constant) and arg.value is None
    recv = text(c.func.value)
    g = cfg_of(f, assert_edges=False)
    st = enclosing_stmt(c)
    key = f.key
    if key == "core/fiber.py:Fiber.__init__" and none and recv == "self":
        return ctx.ok("C02.R4", f, c, "constructor: a new fiber is unowned")
    if key == "core/rank.py:Rank.append":
        apps = [enclosing_stmt(x) for x in pat.calls(f, attr="append")
                if text(x.func.value) == "self.fibers" and x.args and
                text(x.args[0]) == recv]
        if none:
            sets = [enclosing_stmt(x) for x in pat.calls(f, attr="setOwner")
                    if x.args and text(x.args[0]) == "self"]
            if sets and all(g.postdominates(s, st) for s in sets):
                return ctx.ok("C02.R4", f, c, "temporary detach, re-owned on "
                              "every path before the list append")
            return ctx.bad("C02.R4", f, c, "Rank.append detaches the fiber and "
                           "does not re-own it on every path")
        if text(arg) == "self":
            if apps and any(g.postdominates(a, st) for a in apps):
                return ctx.ok("C02.R4", f, c, "owner set together with the "
                              "list append")
            return ctx.bad("C02.R4", f, c, "the fiber is given this rank as "
                           "owner but is not appended to self.fibers on every "
                           "path: it reports an owner that does not list it")
    if key == "core/rank.py:Rank.pop" and none:
        v = pat.single_def(ctx, f, c.func.value) if isinstance(c.func.value, ast.Name) else None
        if v is not None and text(v) == "self.fibers.pop()":
            return ctx.ok("C02.R4", f, c, "popped fiber loses its owner")
        return ctx.bad("C02.R4", f, c, "Rank.pop clears the owner of something "
                       "other than the fiber it removed from the list")
    if key == "core/fiber.py:Fiber._instantiateDefault" and not none:
        gs = [(text(t), pol) for t, pol in atomic_guards(st)]
        if ("addtorank", False) in gs and "next_rank" in text(arg):
            return ctx.ok("C02.R4", f, c, "unregistered default points at the "
                          "next rank for attribute lookup only (never inserted, R2)")
        return ctx.bad("C02.R4", f, c, "owner assigned without list membership "
                       "outside the addtorank=False leg")
    if key in ("core/fiber.py:Fiber._splitGeneric", "core/fiber.py:Fiber.mergeRanks") \
            and none:
        v = pat.single_def(ctx, f, c.func.value) if isinstance(c.func.value, ast.Name) else None
        if v is not None and text(v.func if isinstance(v, ast.Call) else v) in (
                "copy.deepcopy", "deepcopy"):
            return ctx.ok("C02.R4", f, c, "deep-copied root is detached")
        return ctx.bad("C02.R4", f, c, "setOwner(None) on something that is not "
                       "the private deep copy")
    if key == "core/fiber.py:Fiber._detach_owner" and none and recv == "self":
        return _check_detach_attach(ctx, f, c)
    if key == "core/fiber.py:Fiber._attach_owner" and recv == "self" and \
            text(arg) == "owners[None]":
        return ctx.ok("C02.R4", f, c, "re-attach from the saved owner map")
    return ctx.bad("C02.R4", f, c,
                   "unclassified setOwner call: ownership changes without a "
                   "matching change of a rank's fiber list (a fiber may report "
                   "an owner that does not list it, or stay listed by a rank it "
                   "no longer belongs to)")


def _check_detach_attach(ctx, f, c):
    cp = ctx.method("Fiber", "copy")
    g = cfg_of(cp, assert_edges=False)
    det = [enclosing_stmt(x) for x in pat.calls(cp, attr="_detach_owner")]
    att = [enclosing_stmt(x) for x in pat.calls(cp, attr="_attach_owner")
           if text(x.func.value) == "self"]
    okpair = bool(det) and bool(att)
    for d in det:
        # every path from the detach to the exit re-attaches (branches on
        # the same never-assigned flag are correlated)
        if EXIT in g.reachable(d, avoid=set(att),
                               skip_edge=g.same_branch_filter(cp, d)):
            okpair = False
    a = ctx.method("Fiber", "_attach_owner")
    kd = {iter_kind(ctx, f, n.iter)[0] for n in f.own_nodes() if isinstance(n, ast.For)}
    ka = {iter_kind(ctx, a, n.iter)[0] for n in a.own_nodes() if isinstance(n, ast.For)}
    if okpair and kd == ka and len(kd) == 1:
        return ctx.ok("C02.R4", f, c, "detach is undone by _attach_owner on "
                      "every path of Fiber.copy; both walk children %s" % kd.pop())
    return ctx.bad("C02.R4", f, c, "Fiber.copy(preserve_owner=False) detaches "
                   "owners but does not re-attach exactly the detached fibers on "
                   "every path (detach walks %s, attach walks %s)" % (kd, ka))


# ---------------------------------------------------------------------------
def r5(ctx):
    # setRoot clears every rank, then rebuilds
    f = ctx.method("Tensor", "setRoot")
    g = cfg_of(f, assert_edges=False)
    def clearing_loop(nodes):
        for n in nodes:
            if isinstance(n, ast.For) and text(n.iter) == "self.ranks":
                for c in pat.calls(_walk(n.body), attr="clearFibers"):
                    if text(c.func.value) == text(n.target):
                        return n
        return None
    clear = clearing_loop(f.own_nodes())
    if clear is None:
        # ... or in a parameterless method of the tensor called here
        for st in f.body:
            if isinstance(st, ast.Expr) and isinstance(st.value, ast.Call) and \
                    isinstance(st.value.func, ast.Attribute) and \
                    text(st.value.func.value) == "self" and not st.value.args and \
                    not st.value.keywords:
                h = f.cls.methods.get(st.value.func.attr) if f.cls else None
                if h is not None and h.node is not None and h.params == ["self"] and \
                        clearing_loop(h.body) is not None:
                    ctx.consulted.add(h.module.rel)
                    clear = st
    add = [enclosing_stmt(c) for c in pat.calls(f, attr="_addFiber")]
    if clear is not None and add and g.dominates(clear, add[0]):
        ctx.ok("C02.R5", f, clear, "every rank is cleared before the rebuild")
    else:
        ctx.bad("C02.R5", f, f.node, "setRoot no longer clears every rank "
                "(`for r in self.ranks: r.clearFibers()`) before _addFiber: "
                "fibers of the previous root stay listed",
                text_="def setRoot(self, root)")
    # _addFiber: append + RAW traversal + recursion with level + 1
    f = ctx.method("Tensor", "_addFiber")
    fiber_p = f.params[1]
    level_p = f.params[2] if len(f.params) > 2 else "level"
    app = [c for c in pat.calls(f, attr="append")
           if pat.inline(ctx, f, c.func.value).replace(" ", "") ==
           "self.ranks[%s]" % level_p and c.args
           and text(c.args[0]) == fiber_p]
    if app and not [t for t, pol in guards(enclosing_stmt(app[0]))
                    if not isinstance(t, ast.Call)]:
        ctx.ok("C02.R5", f, app[0], "fiber registered in the rank of its level")
    else:
        ctx.bad("C02.R5", f, f.node, "_addFiber does not unconditionally "
                "append the fiber to self.ranks[level]",
                text_="def _addFiber(self, fiber, level=0)")
    loops = [n for n in f.own_nodes() if isinstance(n, ast.For)
             and pat.calls(_walk(n.body), attr="_addFiber")]
    ctx.require(loops, "C02.R5: recursion loop of _addFiber not found")
    for lp in loops:
        kind, base = iter_kind(ctx, f, lp.iter)
        if kind == RAW and base == fiber_p:
            ctx.ok("C02.R5", f, lp, "children taken from the raw payload list")
        else:
            ctx.bad("C02.R5", f, lp, "_addFiber walks children with a %s "
                    "iteration (`%s`): empty sub-fibers and sub-fibers under "
                    "explicit defaults are skipped and never registered in "
                    "their rank" % (kind or "non-raw", text(lp.iter)))
        for c in pat.calls(_walk(lp.body), attr="_addFiber"):
            lv = pat.kwarg(c, level_p, 1)
            if lv is not None and text(lv).replace(" ", "") == "%s+1" % level_p:
                ctx.ok("C02.R5", f, c, "recursion descends one level")
            else:
                ctx.bad("C02.R5", f, c, "recursive _addFiber call does not "
                        "pass level + 1: sub-fibers are registered in the "
                        "wrong rank")
            gs = [text(t).replace(" ", "") for t, pol in atomic_guards(enclosing_stmt(c), stop=lp) if pol]
            if any("Fiber" in t and ("contains" in t or "isinstance" in t) for t in gs):
                ctx.ok("C02.R5", f, c, "recursion on every Fiber payload")
            else:
                ctx.bad("C02.R5", f, c, "recursion is not guarded by a "
                        "Fiber-payload test only (`%s`)" % gs)
    # setRankInfo chains next_rank
    f = ctx.method("Tensor", "setRankInfo")
    ctor = [c for c in f.own_nodes() if isinstance(c, ast.Call) and text(c.func) == "Rank"]
    ctx.require(ctor, "C02.R5: Rank(...) construction vanished from setRankInfo")
    c = ctor[0]
    nr = pat.kwarg(c, "next_rank", 2)
    lp = [n for n in f.own_nodes() if isinstance(n, ast.For) and is_within(c, n)]
    chained = False
    if nr is not None and lp:
        loop = lp[0]
        v = enclosing_stmt(c)
        newname = text(v.targets[0]) if isinstance(v, ast.Assign) and v.value is c else None
        # the list the new rank is put at the head of
        ins = [x for x in pat.calls(_walk(loop.body))
               if text(x.func).endswith(".insert") and len(x.args) == 2 and
               text(x.args[0]) == "0" and
               (x.args[1] is c or (newname and text(x.args[1]) == newname))]
        rev = "reversed(" in text(loop.iter)
        lst = text(ins[0].func.value) if ins else None
        # (a) loop-carried: the link is a variable that is None before the
        # loop and is set to the new rank in the body
        if isinstance(nr, ast.Name) and newname:
            facts, is_param = pat.defs_of(ctx, f, nr)
            facts = [fa for fa in facts if fa.kind == "expr"]
            inside = [fa for fa in facts if is_within(fa.stmt, loop)]
            outside = [fa for fa in facts if not is_within(fa.stmt, loop)]
            if not is_param and inside and outside and \
                    all(text(fa.value) == newname for fa in inside) and \
                    all(text(fa.value) == "None" for fa in outside):
                chained = True
        # (b) head of the list: the rank made in the previous step is the
        # first entry of the list (None while the list is still empty)
        if not chained and lst:
            alts = None
            if isinstance(nr, ast.Name):
                facts, is_param = pat.defs_of(ctx, f, nr)
                if not is_param and facts and all(
                        fa.kind == "expr" and is_within(fa.stmt, loop) for fa in facts):
                    alts = []
                    for fa in facts:
                        for g, e in pat.ifexp_alternatives(
                                ctx, f, fa.value, frozenset(
                                    pat.catoms_of_guards(ctx, f, fa.stmt, stop=loop))):
                            alts.append((g, e))
            else:
                alts = pat.ifexp_alternatives(ctx, f, nr)

            def nonempty(atom):
                """True / False when the atom says the list is non-empty /
                empty, None otherwise."""
                ln = "len(%s)" % lst.replace(" ", "")
                table = {("truth", lst.replace(" ", ""), True): True,
                         ("truth", lst.replace(" ", ""), False): False,
                         ("truth", ln, True): True, ("truth", ln, False): False,
                         pat.A("<", "0", ln): True, pat.A("<=", ln, "0"): False,
                         pat.A("!=", ln, "0"): True, pat.A("==", ln, "0"): False,
                         pat.A("<=", "1", ln): True, pat.A("<", ln, "1"): False}
                return table.get(atom)
            if alts and len(alts) == 2:
                got = set()
                for g, e in alts:
                    g = [nonempty(a) for a in g]
                    if len(g) == 1 and g[0] is not None:
                        got.add((g[0], text(e).replace(" ", "")))
                starts_empty = any(
                    isinstance(st, ast.Assign) and text(st.targets[0]) == lst and
                    text(st.value) in ("[]", "list()")
                    for st in (parent_block(loop) or ([],))[0][:(parent_block(loop) or (0, 0))[1]])
                if got == {(True, "%s[0]" % lst.replace(" ", "")), (False, "None")} \
                        and starts_empty:
                    chained = True
        chained = chained and rev and bool(ins)
    if chained:
        ctx.ok("C02.R5", f, c, "ranks built bottom-up, each linked to the one below")
    else:
        ctx.bad("C02.R5", f, c, "setRankInfo no longer chains each new rank to "
                "the previously built (lower) rank: next_rank links are broken")
    # deepcopy hooks
    for cname in ("Tensor", "Rank", "Fiber"):
        m = ctx.method(cname, "__deepcopy__")
        rets = pat.returns(m)
        if len(rets) == 1 and text(rets[0].value).replace(" ", "") == \
                "pickle.loads(pickle.dumps(self))":
            ctx.ok("C02.R5", m, rets[0], "whole-object pickle round trip keeps "
                   "fibers and ranks of the copy mutually consistent")
        else:
            ctx.bad("C02.R5", m, m.node, "%s.__deepcopy__ is not the whole-"
                    "object pickle round trip" % cname,
                    text_="def __deepcopy__(self, memo)")


def _walk(stmts):
    from ..cfg import walk_own
    return walk_own(stmts)
